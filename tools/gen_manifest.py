#!/venv/bin/python
"""Regenerates /verif/MANIFEST.json from the table below (single source of truth)."""
import json, os, sys
VERIF = os.path.dirname(os.path.dirname(os.path.abspath(__file__)))

CHECKS = {
    "C11": dict(
        technique="bounded-exhaustive enumeration of operator trees x contexts (explicit enumeration, native-evaluation oracle)",
        text="Every operator tree of depth <=2 (quick) / <=3 (thorough) over the full operator table, with every leaf kind in "
             "every position, is built with the real placeholders and executed on every context of the alphabet; the call result "
             "and eval(repr()) are compared with native Python evaluation (value, type, exception class). Exhaustive within the "
             "stated bounds; no sampling.",
        note="trusts CPython's operator module/eval and the 30-line native evaluator in mc/exprs.py; contexts are small integers; "
             "str % placeholder (not overloadable), `in` and list_ inside operators are documented-out",
        design="§3 C11"),
    "C20": dict(
        technique="explicit-state BFS over container operation histories against a plain-dict reference model; exhaustive pair/triple enumeration for equality laws; exhaustive byte-string x line-size enumeration for hexdump",
        text="Every history of container operations up to depth 3 (quick) / 4 (thorough) over the key/value alphabet is executed on a "
             "real Container next to a dict reference; states are canonicalised and deduplicated; in every reached state all views "
             "agree with the reference and six copy operators (copy(), copy.copy, deepcopy, pickle protocols 2 and 5, constructor) "
             "are checked for equality, type, view coherence, independence at the promised depth and equal one-step futures. "
             "Equality laws are checked on all pairs / all triples of a generated family, search against a reference DFS, and "
             "hexundump(hexdump) on every byte string of the alphabet for every line size.",
        note="trusts CPython dict/list as the reference and pickle/copy as the definition of a copy; nested dict-likes are "
             "Container/ListContainer as parsing produces them; keys/values come from a finite alphabet",
        design="§3 C20"),
    "C10": dict(
        technique="bounded-exhaustive enumeration of bit layouts x region values on both implementations (sized/streaming), big-integer oracle",
        text="All 2187 signed/unsigned layouts of an 8-bit region on all 256 values, all compositions of 16 bits (<=3 parts quick, <=4 "
             "thorough; all 65536 values in thorough, a boundary set in quick), 24..64-bit regions on walking/boundary patterns, "
             "swapped fields, Flag, Padding, nested Struct/Array and Bytewise islands are each executed through the pre-read "
             "(Transformed) and the streaming (Restreamed) implementation; parse value, built bytes and outer stream advance are "
             "compared with shift/mask arithmetic on the region's big-endian integer; out-of-range values and unswappable widths "
             "must raise IntegerError.",
        note="trusts the 60-line shift/mask reference in mc/props/c10.py; region totals are multiples of 8 (documented requirement)",
        design="§3 C10"),
    "C13": dict(
        technique="bounded-exhaustive enumeration of validator/mapping instances x whole one-byte domains x label spellings; exhaustive wrapper compositions around Error with an execution-probe differential oracle",
        text="Const, OneOf, NoneOf, Check, ExprValidator, Enum, FlagsEnum and Mapping instances are run on every value of their "
             "one-byte domain (two-byte domains: boundary set quick, all 65536 thorough) in both directions and with every label "
             "spelling; accept/reject must equal the predicate, accepted values and bytes must be unchanged, error classes are "
             "checked. For Error, every composition of 30 wrappers up to depth 2 (quick) / 3 (thorough) is run twice - once with a "
             "probe that records whether the field in Error's position is executed, once with Error - and ExplicitError must escape "
             "exactly when the probe is reached, for parsing and building.",
        note="predicates/tables in mc/props/c13.py are the specification; values equal under == to a Const count as the constant; "
             "Peek does not build (documented)",
        design="§3 C13"),
    "C15": dict(
        technique="bounded-exhaustive enumeration of transform parameters x data, big-integer/stdlib reference transforms",
        text="ProcessXor with all 256 integer and one-byte keys, key strings of every length 1..80 in several patterns and "
             "context-supplied keys; ProcessRotateLeft with every amount -64..64 (+over-wide extras) x every group 1..8 incl. "
             "non-multiple lengths; ByteSwapped/BitsSwapped over sizes 1..16 and the streaming path; Compressed x zlib/gzip/bzip2/"
             "lzma x levels. For every (parameter, data) pair: build emits T(inner bytes), the inner construct sees T^-1(stream), "
             "parse(build(v)) == v, invalid lengths/keys raise the documented error.",
        note="reference transforms (cycling xor, rotl on int.from_bytes, reversed slices, bit reversal) live in mc/props/c15.py; "
             "stdlib codecs define compression; gzip byte equality not demanded (timestamp)",
        design="§3 C15"),
    "C03": dict(
        technique="bounded-exhaustive differential execution of the implementation against an independent reference interpreter (model) over typed term tiers x byte strings x values; every model behaviour in the explored space is replayed against the implementation",
        text="mc/ref.py is an executable specification of the core wire formats written without importing construct (two's-complement "
             "integers, hand-assembled IEEE-754 with round-to-nearest-even, LEB128/ZigZag, string terminator/padding/prefix rules, "
             "label tables, declaration-order concatenation, length/count/padding/alignment arithmetic, region confinement). For every "
             "term of tiers T1-T4 (T5 in thorough) the library and the reference are run on every byte string over a 6-symbol "
             "alphabet up to length L and on every value of the term's domain plus invalid values; value, consumed byte count, "
             "emitted bytes and accept/reject must agree. Small domains are exhaustive: every 8/16-bit integer through every public "
             "spelling, all Float16 patterns, 256x12x2 Float32 and 2048x12x2 Float64 patterns, every VarInt/ZigZag below 2^14 (2^21 thorough).",
        note="trusts mc/ref.py (about 900 lines, self-tested against struct for floats) and CPython's codecs for the codec step; "
             "reject kinds compared coarsely; NaN payloads not compared",
        design="§2.2, §3 C03"),
    "C01": dict(
        technique="bounded-exhaustive enumeration of typed construct terms x value domains, executing build then parse on the real code; structural expected-value oracle",
        text="Every strict-typed term of tiers T1-T4 (T5 in thorough; about 7000 compositions up to depth 3, every primitive "
             "parameterisation) is built from every value of its finite value domain (boundary integers of every width/sign/endianness, "
             "float bit patterns, strings per encoding, every label spelling, lists and member products; for context-dependent shapes "
             "every value read from an accepted byte string, also with each derived member omitted) and the bytes are parsed back: the "
             "result must match the expected value with derived members (Const, Rebuild, Default, Computed) filled in and the whole "
             "encoding consumed.",
        note="expected values come from mc/gen.py:values(); mc/ref.py is used only as a domain filter for representational gaps of a "
             "composition (e.g. a child encoding that contains the terminator), never as the verdict",
        design="§3 C01"),
    "C02": dict(
        technique="bounded-exhaustive enumeration of typed construct terms x all byte strings over a 6-symbol alphabet up to length L plus the complete 1-mutation neighbourhood of canonical encodings; idempotence oracle on the real code; gallery formats on sample files",
        text="For every strict-typed term (tiers T1-T4, T5 thorough) and every byte string over {00,01,02,7f,80,ff} up to length 4/4/3 "
             "(6/5/4 thorough), and every single-bit flip, insertion, deletion and truncation of every canonical encoding: if parse "
             "accepts x then build(parse(x)) must succeed, parse of the rebuilt bytes must equal the first value and building again must "
             "reproduce the same bytes. The gallery formats run on their sample files, every truncation point explored and (for "
             "non-seeking formats) byte replacements in the header.",
        note="the strict typing rules of DESIGN 2.1 define which compositions are in the domain (region-deriving wrappers take "
             "region-filling children, no include=True/require=False terminators, no nullable child under explicit padding, Optional only "
             "over children that do not accept None); RawCopy offsets are not compared across re-encoding",
        design="§3 C02"),
    "C05": dict(
        technique="bounded-exhaustive enumeration of typed terms and of (context-parameter class x key spelling x embedding x context) combinations; measured stream advance of the real build/parse as oracle",
        text="sizeof() is called on every term of tiers T1-T4 (T5 thorough, sized and unsized) and on every combination of 30 classes that "
             "take a context parameter x 22 ways of spelling/embedding the key reference (this.k, lambda, this._.k, _params, sibling, "
             "_root, two levels, under Array/Prefixed/IfThenElse/Switch/Aligned/Renamed/Sequence/FocusedSeq) x contexts that supply every "
             "alphabet value or omit the key. It must return a non-negative int or raise SizeofError (never KeyError/AttributeError); "
             "whenever it returns n, build_stream of every buildable domain value (from start offsets 0 and 3) and parse_stream of "
             "those bytes followed by each of three trailers must advance by exactly n; results are cross-checked against the reference.",
        note="read-to-EOF transforms outside a delimiter are measured with an empty trailer only (exempt by the property); negative "
             "lengths and modulus < 2 are not in the alphabet; Pointer (seeking) is not embedded under delimiters",
        design="§3 C05"),
    "C06": dict(
        technique="bounded-exhaustive input enumeration plus exhaustive fault injection (deviation-bounded: every stream-operation index x every applicable deviation) on the real code through a scripted stream; exception-class invariant",
        text="(1) every term of tiers T1-T4 (T5 thorough) plus seeking/lazy/union extras is run on every byte string over a 6-symbol "
             "alphabet up to length L and on huge length/count fields: parse must terminate and return or raise a ConstructError. "
             "(2) for every rigid term and every prefix-free canonical encoding, every strict prefix must raise StreamError. (3) "
             "parse_stream and build_stream run over a ScriptedStream; after a fault-free run records the operation trace, every "
             "operation index is given every applicable deviation (OSError, short read, short write count, tell/seek failure; all "
             "pairs in thorough): rigid terms must raise StreamError, recovering terms a ConstructError or return, never a "
             "foreign exception, a hang or a silently accepted short write.",
        note="an unsized read() cannot be detectably short and a one-byte read answered with nothing is end-of-stream, so lenient "
             "readers may return; faults are injected on the outermost stream only (inner regions are BytesIO objects of the library)",
        design="§2.5, §3 C06"),
    "C08": dict(
        technique="bounded-exhaustive enumeration of delimiter nestings x observers x start offsets x payloads, differential against the reference interpreter's absolute-offset region model",
        text="Every nesting (depth <=2 quick, <=3 thorough) of 18 region delimiters (Prefixed with and without includelength, FixedSized, "
             "NullTerminated in 7 include/consume/require/terminator variants, NullStripped with 1- and 2-byte pad, OffsettedEnd, "
             "ProcessXor) around 8 inner observers (Tell before/after a greedy, fixed or empty member, RawCopy, end-relative and "
             "absolute Pointer) followed by a sentinel Tell is parsed with parse_stream from start offsets 0, 1 and 3 over every "
             "payload string of the alphabet up to length L. The parsed value (inner greedy bytes, every Tell, RawCopy data and offsets), "
             "the sentinel and the outer stream position must equal the reference's, or both must reject.",
        note="trusts the region model of mc/ref.py (RS: data + absolute base offset); bit-level regions excluded by documentation",
        design="§3 C08"),
    "C18": dict(
        technique="bounded-exhaustive enumeration of nested named shapes x every truncation offset / byte replacement / unbuildable member / unsizable member, path oracle from the reference interpreter's read-event path",
        text="Every nested named shape of depth <=3 (quick) / <=4 (thorough) over Struct, Sequence, Array, Prefixed, FixedSized, Padded, "
             "IfThenElse, Switch and Renamed with 11 kinds of named leaves is parsed from every strict prefix and every single-byte "
             "replacement of its canonical encodings, built with every leaf value in turn replaced by each of 9 unbuildable values, and "
             "sized with every member in turn replaced by each of 8 unsized or key-missing constructs. Whenever library and reference "
             "reject with the same error class, ConstructError.path must equal the operation prefix plus the chain of named members "
             "enclosing the failing read or field.",
        note="a region delimiter reads its whole region itself, so truncation inside a Prefixed/FixedSized payload is attributed to the "
             "delimiter's member; array indices are not part of the documented path format; PrefixedArray's internal names are not claimed",
        design="§3 C18"),
    "C09": dict(
        technique="bounded-exhaustive enumeration of combinator x member tuples x start offsets x byte strings on the real code; isolation (differential) oracle from solo runs of the member constructs",
        text="Select (all ordered pairs of 8 members; triples in thorough), Optional, GreedyRange, Peek, Pointer (6 absolute / end-relative / "
             "out-of-range targets, parse and build) and Union (parsefrom None / index / name / expression, named and anonymous members) "
             "are run with parse_stream from start offsets 0, 1 and 3 on every byte string over a 6-symbol alphabet up to length 4 (5 "
             "thorough), which contains inputs failing at every byte inside every member. Each member is also run alone from the same "
             "offset; the combinator's value and final stream position must be exactly what its contract derives from the solo runs "
             "(first success / maximal chain / restored position / selected member's end), ExplicitError must propagate, and builds "
             "must write the first buildable alternative at the position (Pointer: at the target, position restored; Peek: nothing).",
        note="the members themselves are trusted (their own correctness is C03's business)",
        design="§3 C09"),
    "C12": dict(
        technique="bounded-exhaustive differential execution of both sides of every documented equivalence over all parameter instantiations x byte strings x values",
        text="Every <--> law stated in the docstrings and docs and every documented operator spelling is instantiated for all parameter "
             "combinations (integer widths 1..8 quick / 1..16 thorough x signed x swapped, Int24 and fixed-width aliases, float names, "
             "Bit/Nibble/Octet, Optional/If/Padding/PrefixedArray/BitStruct/AlignedStruct macros over six kinds of sub-construct, "
             "Enum/FlagsEnum from IntEnum/IntFlag/Enum classes, Hex/HexDump over integers, bytes, RawCopy and structs, x[n], a+b, a>>b, "
             "name/x, x*doc). Both sides parse every byte string of the relevant length +-1 (all 256^n for n<=2, the 6-symbol alphabet "
             "or boundary patterns above) and build every value of an alphabet including out-of-range and non-integer values; both must "
             "accept with equal value / identical bytes or both reject, and sizeof must agree.",
        note="pure differential: no reference model; display subclasses compared by value",
        design="§3 C12"),
    "C14": dict(
        technique="bounded-exhaustive enumeration of RawCopy shapes x placements x start offsets x payloads, and exhaustive single-bit (thorough: two-bit) fault enumeration over checksummed messages, on the real code",
        text="RawCopy over 11 inner constructs in 9 placements (top level from start offsets 0/1/3, after a header, inside Prefixed, "
             "FixedSized, NullTerminated and doubly nested substreams, twice in a row, in Array and GreedyRange) is parsed on every "
             "payload over a 6-symbol alphabet up to length 4 (5 thorough): data must equal the outer stream slice between the reported "
             "offsets, length their difference, parsing data alone must give value, building from value / from data / from both must "
             "agree (data verbatim, incl. empty). Checksum fields (md5[:4], sha1, sha256, crc32, sum8) over fixed and variable layouts, "
             "after a header and inside a Prefixed message: every built message verifies with the digest equal to the hash of the covered "
             "slice, and every single-bit flip of every covered byte and of the digest (all 2-bit flips for the strong digests in "
             "thorough) raises ChecksumError (fixed layout) or is at least not accepted (variable layout).",
        note="hashlib/zlib define the digests; slice identity with the outer stream is claimed for plain substreams (Prefixed, FixedSized, "
             "NullTerminated), offsets under transforms are C08's business",
        design="§3 C14"),
    "C04": dict(
        technique="bounded-exhaustive differential execution of compiled vs interpreted constructs over typed terms x expression-parameterised hosts x interpreter-accepted inputs and values",
        text="(A) every term of tiers T1-T4 (T5 thorough) that compile() accepts is run, compiled and interpreted, on every byte string "
             "over a 6-symbol alphabet up to length L; on every input the interpreter accepts, the compiled parse value, consumed bytes, "
             "the bytes built from the parsed value and sizeof must be identical. (B) a host struct with integer, string, enum-label, "
             "bytes and list members, a member under test and dependent probes (a Computed copy and a trailing Bytes((a+b)&3)) is "
             "instantiated for 22 parameter slots x the full expression grid (every ordered pair of the 11 arithmetic/bitwise operators in "
             "both nestings, the 6 comparisons, unary inside binary, reflected constants, str/bytes/bool constants, len_/sum_/min_/max_/abs_, "
             "_params, _, _root; about 550 integer, 120 boolean and 10 key expressions) and run on a,b in 0..3 x string/label/bytes "
             "variants x tails. Hand-picked shapes cover falsy values, counts above 255, string switch keys, unions, FocusedSeq.",
        note="the interpreter is the oracle; nothing is compared where it rejects; documented exclusions: _index/Index, hooks, discard, "
             "_subcons, lambdas, exception paths, look-ahead over truncated data",
        design="§3 C04"),
    "C07": dict(
        technique="bounded-exhaustive enumeration of scope chains x reference paths x roles x operations, differential against an explicit scope-chain model",
        text="Every chain (length <=2, plus length 3 over a 6-kind alphabet in quick; full length 3 in thorough) of scope-pushing composites "
             "(Struct, Sequence, FocusedSeq, Union, LazyStruct, and Struct/Sequence whose sibling is a derived Rebuild member), repeaters "
             "(Array, GreedyRange, RepeatUntil) and transparent wrappers (Prefixed, FixedSized, Padded, IfThenElse, Switch, Renamed) is "
             "generated with, at the innermost position, every reference path available there (sibling, one '_' per enclosing scope, "
             "_root, _params at every depth, _index as seen from every frame, the three mode flags) in every role (value, length, count, "
             "branch). Each shape is parsed on 6 inputs x 2 keyword contexts, built from every parsed value and sized; value, consumed "
             "bytes, built bytes and sizeof must equal the scope model's, and the built bytes must parse back to what the model says "
             "they mean. Separate exhaustive sub-checks: exactly one mode flag is true at depths 0-3 for parse/build/sizeof; _index after "
             "a completed inner repeater (3 outer x 3 inner repeaters x 2 scopes x 2 probes).",
        note="the scope model is mc/ref.py's push/top_ctx (frames as dicts) - an independent implementation of the documented context rules; "
             "LazyStruct members do not use sibling references or _index (documented restriction); no claim for Select/Tunnel re-rooting",
        design="§3 C07"),
    "C16": dict(
        technique="explicit-state BFS over access histories of lazy results (state = cached member set x stream position, replayed from a fresh parse per transition), eager parse as reference model",
        text="LazyStruct over every member list of length 1..3 (and length 4 with two kinds in thorough) from nine member kinds (fixed, "
             "context-sized, length-prefixed with and without includelength, counted array, VarInt, CString, anonymous Const), LazyArray "
             "(n<=3/4) of each kind and Lazy(x) at first/middle/last position are embedded in an outer Struct with a length byte, a "
             "trailing Byte and Tell and parsed on canonical inputs and on every accepted single-byte mutation. From the state after "
             "parse_stream a breadth-first search applies every accessor (by name, index, attribute, keys/values/items/iter/len, all "
             "slices, forcing a thunk, build), deduplicating on (cached indices, stream position), to depth members+2; every transition "
             "replays its history on a fresh parse. Invariants: accessor value == eager value, parse_stream ends where eager ends, "
             "stream position unchanged by an access, trailing siblings equal, build(lazy)==build(eager). Further units: a sibling that "
             "reads a lazy member during the parse (5 shapes x 256 inputs) and several lazy containers over one stream with every "
             "interleaved access history up to length 4/5.",
        note="the eager Struct/Array parse of the same members is the reference; no claim when the eager parse rejects; ==, in, .get and "
             "negative indices are not claimed; documented cross-reference restrictions respected",
        design="§3 C16"),
    "C17": dict(
        technique="explicit-state exploration of call histories over a pool of sharing constructs with a deep state fingerprint (closure argument), stateless schedule enumeration of 2 threads under a line-granularity controlled scheduler with iterative preemption bounding, and exhaustive entry-point enumeration",
        text="(a) 66 public calls (parse/build/sizeof/compile, succeeding and failing at every member position, inside Select, "
             "GreedyRange, Bitwise, compiled twins, context-parameterised transforms, a user lambda, a re-entrant parse) on a pool of 18 "
             "constructs that share sub-constructs and library singletons: every history of length <=2 (<=3 thorough over a reduced third "
             "alphabet) runs on a fresh pool and every call's result must equal the result on a pristine pool; after every single call a "
             "deep fingerprint of all pool objects, of the construct modules' data globals and of class attributes must be unchanged, so the "
             "single reachable state is closed under all events. (b) 16 collision-forced call pairs run as two threads under a "
             "sys.settrace scheduler that owns every source line of construct/ as a scheduling point; all schedules with <=1 (quick) / <=2 "
             "(thorough) preemptions at every position are executed and each thread's result must equal its sequential result; a failing "
             "schedule is replayed and must reproduce. (c) parse on bytes/bytearray/memoryview/file and parse_stream at offsets 0/1/3 "
             "(value and consumed length), build/build_stream/build_file, for all context-free T1-T2 terms and Union/Peek/Optional extras.",
        note="scheduler granularity is a source line (no preemption between bytecodes, no free-threaded memory model); the number of "
             "distinct outcomes per thread pair is reported (1 on a stateless library; a hoisted-scratch-buffer mutant yields several)",
        design="§2.6, §3 C17"),
    "C19": dict(
        technique="bounded-exhaustive enumeration of exportable terms x canonical encodings; the exported schema is executed by an interpreter for the emitted KSY dialect (model) and every field extent/value is compared with the implementation's parse",
        text="For every exportable term of the fragment (about 330 shapes at depth <=2, more at depth 3 in thorough: every fixed-width "
             "integer and float, Int24, VarInt, bytes, the string macros, Flag, Enum, FlagsEnum, Const, Padding, nested Struct, Array with "
             "constant and this-count, GreedyRange, RepeatUntil, Prefixed, PrefixedArray, If, IfThenElse, bit structs with arrays and "
             "nested structs, Pointer, NullTerminated, NullStripped, FixedSized, Padded, pass-through wrappers) export_ksy() is called with "
             "a ruamel.yaml stand-in that captures the schema dict; mc/ksy.py interprets the schema with Kaitai semantics on up to 4 "
             "diverse canonical encodings. The ids must be the member names in declaration order, every named field must get the byte "
             "extent construct uses (reference read log) and the scalar value construct parses, the total extent must agree, and a "
             "contradictory or incomplete schema (size with size-eos, enum without integer type, type None) is a violation of its own.",
        note="trusts mc/ksy.py (Kaitai semantics of the emitted dialect, incl. the exporter's non-standard u3be/u1be spellings and its "
             "construct-syntax expressions) and mc/ref.py's read log; YAML serialisation itself is not exercised (ruamel.yaml absent)",
        design="§3 C19"),
}

# added in round 2/3 (DESIGN 9, 10): further axes each check enumerates
ADDENDA = {
    "C01": "Streaming bit regions with greedy tails and rotate groups >= 3 are included; the thorough tier also takes every value the reference reads from an accepted string over S6^<=5.",
    "C03": "Repeaters built with discard=True (term kind Discard) are part of the term space.",
    "C04": "Const(value, subcon) over every T1/T2 subcon, FocusedSeq with expression selectors, and every compile() history of length <= 2 over a family of same-layout constructs (all ordered pairs, same object twice, compiled instance recompiled).",
    "C05": "The construct's own n-byte encoding must parse (advancing by n); zero-size look-ahead/seeking members and discarding repeaters are included; thorough measures every value read from every n-byte string (n <= 8 over shrinking alphabets).",
    "C06": "Shapes whose modulus, pad length, width, rotate amount/group, xor key, pointer offset or seek whence come from the data at signed boundary values; repeaters with discard=True; GreedyRange/RepeatUntil over lazy elements.",
    "C07": "Scope chains include Array/GreedyRange built with discard=True.",
    "C09": "Pointer with an explicit stream= (from the context, and the root stream from inside a sub-stream), and Union selectors evaluated at parse time to None / an index / a name.",
    "C12": "Both sides of every law are also compared as a Struct member (value, None, key absent), a Sequence item and an Array element.",
    "C13": "Validators, Mapping and Enum over fields that make up their own value (Default, Const, Rebuild), built from None and as absent Struct keys; label objects carrying a foreign integer or name.",
    "C14": "Covered regions of length 0 (counted region with n = 0, RawCopy(Pass)).",
    "C15": "Every transform family is also placed behind 0..8 header bytes: Struct member, stream entry points at an offset, consecutive Prefixed regions, Array of FixedSized regions.",
    "C16": "Access alphabet includes get() and negative indices; member kinds include build-from-None members, count-then-unsized and prefix-decides elements.",
    "C17": "Entry-point agreement at stream offsets includes end-relative positioning (OffsettedEnd, negative Pointer, Seek whence 2) inside sub-streams.",
    "C18": "Unbuildable values include one that overflows one-byte length prefixes (failure inside an auxiliary field).",
    "C19": "enum: keys are interpreted (member name compared with the parsed label); FlagsEnum over every width 1,2,3,4,8 x byte order with a flag in every byte; all ordered pairs of members that declare something schema-global in one schema.",
}

# round 4 (DESIGN 11)
ADDENDA_R4 = {
 "C01": "Adapter/tunnel classes outside the term language (ExprAdapter, Slicing, Indexing, NamedTuple, Transformed, Restreamed, LazyBound...) and the size axis (every format holding 63..65536 units of data, up to 131073 in thorough).",
 "C03": "Range-boundary invalid integers per field, Select between record layouts, zero-size wrapper terms, length-prefix capacity boundaries, and the size axis of mc/scale.py (26 formats x 11 sizes quick / 27 sizes thorough).",
 "C05": "Sizes that depend on _index.",
 "C06": "Truncation on the size axis (24 constructs with an n-byte fixed part, cut points at both ends and around 4096/8192 from the end); variable-length integers beyond the int->str digit limit.",
 "C08": "Every nested region is followed inside its parent by Tell + GreedyBytes; Seek observers; 16 region kinds on the size axis (payloads of 63..65536 bytes).",
 "C10": "swapped given as a context expression; single fields and splits of 127..4096 bits.",
 "C11": "Attribute/item paths through member names that collide with the expression classes' own attributes and with context entries.",
 "C12": "Integer laws also at widths 31..129 bytes.",
 "C13": "Const built under every sequence of <= 3 contexts with context-dependent encoders; membership collections that are not element-wise (bytes, str, range, dict, custom).",
 "C14": "Every entry point (build_stream/parse_stream at an offset, build_file/parse_file); covered regions on the size axis with corruptions next to every 4096-byte boundary.",
 "C15": "Keys of length 1..257 and rotations on the size axis (63..65536 bytes).",
 "C16": "Suspended iterators (two, advanced step by step between other accesses); lazies inside sub-streams at non-zero offsets; results with 63..8193 elements.",
 "C17": "Every call compared with its result in a brand-new interpreter; callers editing returned values in place; the same call 200 times then every other call; signedness twins, LazyBound, context-dependent encoders, region reuse in the alphabet and the thread pairs.",
 "C20": "Entries named like every public dict/Container method; deep copies over exotic leaves (bytearray, set, array, ordinary objects, tuples holding them) at depth 1..3; hexdump lengths around 16**4 for six line sizes.",
}
ADDENDA_R5 = {
 "C01": "The text axis (23 texts x 11 string framings x 14 encoding names).",
 "C02": "The text axis: 60+ well-formed, borderline and malformed byte sequences per code-unit size through every string framing.",
 "C03": "The text axis (texts, unencodable texts, raw sequences; reference = CPython codec + framing rules).",
 "C04": "All-anonymous Struct/Sequence scopes; look-ahead over failing members; many members/labels/cases; deep nesting.",
 "C05": "Two-level index-dependent sizes.",
 "C06": "Truncation of pads and raw regions beyond 2**20 bytes.",
 "C07": "Members named like Python keywords (class_, in_ ...); downward references this.hdr._n.",
 "C09": "GreedyRange over zero-width index-dependent elements entered at every offset including the end.",
 "C11": "Float contexts for every two-operator arithmetic tree; slice subscripts with every start/stop/step over {None,0,1,2,-1}.",
 "C15": "Streams of several concatenated compressed members (oracle: the codec's decompress); XOR beyond 2**20 bytes.",
 "C16": "Positions behind 2**32 and 2**63 through window streams.",
 "C17": "All entry points on inputs of 2**20 bytes with seeks beyond the end, and through window streams at positions behind 2**32 / 2**63.",
 "C19": "If/IfThenElse over float comparisons with NaN, infinities, signed zero among the inputs.",
}
ADDENDA_R6 = {
 "C01": "Every non-seeking T1/T2 term also inside the streaming implementation of the bit/byte transforms (unsized content).",
 "C02": "Tier-1 terms inside streaming bit/byte transforms.",
 "C03": "Tier-1 terms inside streaming bit/byte transforms.",
 "C05": "Transformed/Restreamed with every pair of user-given amounts and the adapter classes, judged by measured advance.",
 "C06": "A raising stream operation must end in StreamError for every term without an error-absorbing part, lenient readers included; tier-1 terms inside streaming transforms.",
 "C07": "Context expressions as the selector of Union and FocusedSeq (evaluated in the scope the composite opens, own members shadowing).",
 "C12": "A zoo of enum classes (zero, negative, aliased, single, composite flag members) for the class-vs-keywords laws.",
 "C17": "Keyword context through every entry point for every context-parameter slot.",
}
ADDENDA_R7 = {
 "C01": "Tier-4 dependency shapes also as Sequences with named members (derived members given as None).",
 "C02": "require=False terminated regions with 1-3 byte terminators where they are representable.",
 "C05": "Every sized T1/T2 term as a lazily skipped member (LazyStruct, Lazy, LazyArray).",
 "C06": "Stack-aware fault oracle (an operation issued by a recovering combinator itself must surface as StreamError); a second exception class for raising operations; positions from 8-byte fields.",
 "C07": "Keyword context through every entry point.",
 "C09": "Alternatives failing with a non-construct exception; Pointer targets from a signed context value, interpreter and generated code.",
 "C10": "Unsized Bytewise islands that read several bytes per request.",
 "C11": "Sequence-typed contexts (str, bytes, list) with constants on either side.",
 "C13": "Compiled twins of validators and Check.",
 "C14": "64/128-bit integer digests; RawCopy fields reported while building (nested, Tell) against the parse of the built message.",
 "C15": "Compression levels 0 and 5; gzip compared with the timestamp masked.",
 "C16": "Counted arrays of length-prefixed and of counted elements.",
 "C17": "Keyword-dependent sizeof of compiled instances in the history alphabet.",
 "C18": "Lists with an element too many/few and dicts with a member missing; every context-parameter slot with a missing key under sizeof.",
 "C19": "Const over every sub-construct that can encode the constant.",
 "C20": "Lists that are prefixes of one another in the equality family.",
}
ADDENDA_R8 = {
 "C01": "Repeater elements whose layout depends on this._index.",
 "C03": "Declaration spellings the term builder does not use (keyword members, x[n], patterns) against the term they must mean.",
 "C04": "Every parsed value also built with each derived member omitted; Sequence twins compiled.",
 "C05": "Length-prefixed members among the lazily skipped ones.",
 "C08": "Pointer with stream= naming the outermost stream, observed from inside every region.",
 "C09": "Alternatives that write before they fail (build side); generated code of constant-selector Unions with anonymous members.",
 "C10": "Zero-size Bytewise islands.",
 "C13": "Predicates answering None, '' or [].",
 "C14": "A parsed RawCopy object rebuilt at another position.",
 "C15": "ByteSwapped over every (signed, swapped) BytesInteger.",
 "C16": "Members and elements whose layout depends on this._index under LazyStruct / LazyArray (five recorded findings).",
 "C19": "Constant Pointer targets from the start and from the end.",
 "C20": "Keys spelled like the containers' own methods (incl. _search) in the search family.",
}
for _k, _v in ADDENDA_R8.items():
    ADDENDA_R7[_k] = (ADDENDA_R7[_k] + " " if _k in ADDENDA_R7 else "") + _v
for _k, _v in ADDENDA_R7.items():
    ADDENDA_R6[_k] = (ADDENDA_R6[_k] + " " if _k in ADDENDA_R6 else "") + _v
for _k, _v in ADDENDA_R6.items():
    ADDENDA_R5[_k] = (ADDENDA_R5[_k] + " " if _k in ADDENDA_R5 else "") + _v
for _k, _v in ADDENDA_R5.items():
    ADDENDA_R4[_k] = (ADDENDA_R4[_k] + " " if _k in ADDENDA_R4 else "") + _v
for _k, _v in ADDENDA_R4.items():
    ADDENDA[_k] = (ADDENDA[_k] + " " if _k in ADDENDA else "") + _v

PENDING_REASON = "check not built yet in this round (see DESIGN.md §7 build order); it will be decided by the same bounded-exhaustive engine"


def main():
    props = [json.loads(l) for l in open(os.path.join(VERIF, "properties.jsonl"))]
    checks = []
    na = []
    for p in props:
        pid = p["id"]
        c = CHECKS.get(pid)
        if c is None:
            na.append({"property_id": pid, "reason": PENDING_REASON})
            continue
        checks.append({
            "property_id": pid,
            "quick_cmd": "./run %s --tier quick" % pid,
            "thorough_cmd": "./run %s --tier thorough" % pid,
            "evidence_file": "/verif/evidence/%s.json" % pid,
            "replay_cmd_template": "./run replay {path}",
            "engine": "mc-explorer",
            "level_claimed": {"category": "model_checking", "text": c["text"] + (" " + ADDENDA[pid] if pid in ADDENDA else ""), "design_ref": c["design"]},
            "level_note": c["note"],
            "technique": c["technique"],
        })
    m = {
        "version": 1,
        "setup_cmd": "true",
        "hooks": {
            "guard": "CONSTRUCT_VERIF",
            "enable": "no source hooks are needed: every observation point is public API; faults and schedules are injected "
                      "from outside (stream wrappers, sys.settrace). Checks export CONSTRUCT_VERIF=1 for uniformity only.",
            "baseline_off_cmd": "cd /repo && /venv/bin/python -m pytest -ra -q -p no:cacheprovider --timeout=900 --continue-on-collection-errors",
            "source_commits": [],
            "add_only": True,
        },
        "engines": [{
            "name": "mc-explorer", "path": "/verif/mc",
            "serves_properties": [c["property_id"] for c in checks],
            "kind_free_text": "hand-written stateless/explicit-state bounded-exhaustive explorer for Python (typed term enumeration, "
                              "scripted stream fault injection, line-granularity thread scheduler, BFS over object histories) "
                              "driving the real construct code from /repo; oracles are an independent reference interpreter, "
                              "differential pairs and invariants",
        }],
        "checks": checks,
        "not_applicable": na,
        "notes": "All checks import construct from /repo's working tree at run time (pure Python, nothing to build). "
                 "Exit 0 = held on everything explored, 1 = VIOLATION line(s), 2 = machinery error (cap hit / harness crash; nothing claimed).",
    }
    with open(os.path.join(VERIF, "MANIFEST.json"), "w") as f:
        json.dump(m, f, indent=1)
    print("MANIFEST.json: %d checks, %d not_applicable" % (len(checks), len(na)))


if __name__ == "__main__":
    main()
