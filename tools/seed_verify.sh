#!/bin/sh
# tools/seed_verify.sh <src-dir with patch.diff demo.py notes.md> <name>   e.g. /tmp/seed/C08/out/1 C08-1
# Confirms in a scratch worktree of /repo HEAD: demo passes without the patch, fails with it, baseline tests still pass.
# On success stores /verif/seeded/<name>/{patch.diff,demo.py,notes.md,meta.json}.
src="$1"; name="$2"; prop=$(echo "$name" | cut -d- -f1)
wt=/var/tmp/seedwt-$name-$$
git -C /repo worktree add --detach "$wt" HEAD >/dev/null 2>&1 || { echo "worktree failed"; exit 2; }
cleanup() { git -C /repo worktree remove --force "$wt" >/dev/null 2>&1; rm -rf "$wt"; }
cd "$wt"
PYTHONPATH="$wt" PYTHONDONTWRITEBYTECODE=1 timeout 300 /venv/bin/python "$src/demo.py" >/var/tmp/seed-$name.clean.log 2>&1; rc0=$?
if ! git apply "$src/patch.diff" 2>/var/tmp/seed-$name.apply.log; then
  if ! git apply --3way "$src/patch.diff" 2>>/var/tmp/seed-$name.apply.log; then echo "$name: PATCH DOES NOT APPLY to HEAD"; cleanup; exit 3; fi
fi
git diff HEAD > /var/tmp/seed-$name.patch
PYTHONPATH="$wt" PYTHONDONTWRITEBYTECODE=1 timeout 300 /venv/bin/python "$src/demo.py" >/var/tmp/seed-$name.patched.log 2>&1; rc1=$?
/verif/tools/baseline.py "$wt" > /var/tmp/seed-$name.tests.log 2>&1; rct=$?
echo "$name: demo clean rc=$rc0, demo patched rc=$rc1, tests rc=$rct ($(tail -1 /var/tmp/seed-$name.tests.log))"
if [ $rc0 -eq 0 ] && [ $rc1 -ne 0 ] && [ $rct -eq 0 ]; then
  d=/verif/seeded/$name; mkdir -p "$d"
  cp /var/tmp/seed-$name.patch "$d/patch.diff"; cp "$src/demo.py" "$d/demo.py"; [ -f "$src/notes.md" ] && cp "$src/notes.md" "$d/notes.md"
  head=$(git -C /repo rev-parse --short HEAD)
  /venv/bin/python - "$d" "$prop" "$head" "$rc0" "$rc1" <<'PY'
import json,sys,os
d,prop,head,rc0,rc1=sys.argv[1:6]
notes=open(os.path.join(d,'notes.md')).read() if os.path.exists(os.path.join(d,'notes.md')) else ''
meta={"breaks_property":prop,"verified_against_repo_head":head,
      "what_i_ran":["demo.py on clean scratch worktree: exit %s"%rc0,"git apply patch.diff; demo.py: exit %s"%rc1,
                    "tools/baseline.py <worktree>: all 452 stable_pass tests still pass with the patch"],
      "needs_to_manifest":"see notes.md (written by the independent sub-agent that produced the change)",
      "caught_by":[], "status":"verified"}
json.dump(meta,open(os.path.join(d,'meta.json'),'w'),indent=1)
PY
  echo "$name: STORED"
else
  echo "$name: REJECTED"
fi
cleanup
