#!/venv/bin/python
"""tools/refresh_meta.py - copy the outcome of seeded/RESULTS.txt (MATRIX lines) into each seed's meta.json (caught_by, first_signature)"""
import json, os, re, sys
root = os.path.join(os.path.dirname(os.path.dirname(os.path.abspath(__file__))), "seeded")
rx = re.compile(r"^MATRIX (\S+) (\S+) rc=(\d+) violations=(\d+) :: ?(.*)$")
seen = {}
for line in open(os.path.join(root, "RESULTS.txt")):
    m = rx.match(line.strip())
    if m:
        seen.setdefault(m.group(1), []).append((m.group(2), int(m.group(3)), int(m.group(4)), m.group(5)))
n = 0
for name, rows in seen.items():
    p = os.path.join(root, name, "meta.json")
    if not os.path.exists(p):
        continue
    meta = json.load(open(p))
    caught = [c for c, rc, nv, sig in rows if rc == 1 and nv > 0]
    if meta.get("note") and not caught:
        continue        # seeds with a recorded explanation (caught by another check / not a violation) keep it
    meta["caught_by"] = sorted(set(caught) | set(meta.get("caught_by") or []) if meta.get("note") else set(caught))
    sigs = [sig for c, rc, nv, sig in rows if rc == 1 and sig]
    if sigs:
        meta["first_signature"] = sigs[0]
    json.dump(meta, open(p, "w"), indent=1)
    n += 1
print("updated", n, "of", len(seen))
