#!/bin/sh
# tools/seed_run.sh <name> [check ids...]  - apply /verif/seeded/<name>/patch.diff to /repo, run the quick checks, undo.
name="$1"; shift
d=/verif/seeded/$name
prop=$(echo "$name" | cut -d- -f1)
[ $# -eq 0 ] && set -- "$prop"
cd /verif
if [ -n "$(git -C /repo status --porcelain --untracked-files=no)" ]; then echo "/repo not clean"; exit 2; fi
git -C /repo apply "$d/patch.diff" || { echo "apply failed"; exit 3; }
trap 'git -C /repo checkout -- . ' EXIT INT TERM
for c in "$@"; do
  out=$(VERIF_MAX_S=${VERIF_MAX_S:-1500} ./run "$c" --tier ${TIER:-quick} 2>&1); rc=$?
  nv=$(echo "$out" | grep -c '^VIOLATION')
  echo "SEED $name check $c: rc=$rc violations=$nv :: $(echo "$out" | grep -m1 'signature:' ) :: $(echo "$out" | tail -1)"
done
