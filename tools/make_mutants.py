#!/venv/bin/python
"""Generates the hand-made mutant catalogue /verif/mutants/*.patch from textual edits against /repo HEAD.
Each mutant is a realistic slip in a mechanism a property anchors.  tools/mutants.sh then keeps only those that
leave the repository's own test suite green and runs the owning check against each (scratch worktree)."""
import os, subprocess, sys, json

REPO = "/repo"
OUT = "/verif/mutants"
M = []


def mut(name, prop, path, old, new, note, occurrence=None):
    M.append(dict(name=name, prop=prop, path=path, old=old, new=new, note=note, occurrence=occurrence))


C = "construct/core.py"
mut("varint-continuation-ge", "C03", C, "        while x > 0b01111111:\n", "        while x >= 0b01111111:\n", "VarInt build: 127 encoded as ff 00 (symmetric with parse, round trips)")
mut("struct-build-root-frame", "C07", C, "        context._root = context._.get(\"_root\", context)\n", "        context._root = context._.get(\"_root\", context._)\n",
    "Struct._build: _root of the outermost struct is the keyword frame instead of the struct's own scope", occurrence=2)
mut("array-build-no-index", "C07", C,
    "        for i,e in enumerate(obj):\n            context._index = i\n            buildret = self.subcon._build(e, stream, context, path)\n            if not discard:\n                retlist.append(buildret)\n        return retlist\n\n    def _sizeof(self, context, path):\n        try:\n            count = evaluate(self.count, context)",
    "        for i,e in enumerate(obj):\n            buildret = self.subcon._build(e, stream, context, path)\n            if not discard:\n                retlist.append(buildret)\n        return retlist\n\n    def _sizeof(self, context, path):\n        try:\n            count = evaluate(self.count, context)",
    "Array._build stops maintaining _index")
mut("switch-emit-str-keys", "C04", C, "            code.append(f\"{fname}[{repr(key)}] = lambda io,this: {sc._compileparse(code)}\")\n",
    "            code.append(f\"{fname}[{key}] = lambda io,this: {sc._compileparse(code)}\")\n", "compiled Switch parse table uses str(key) instead of repr(key)")
mut("expr-rsub-swapped", "C11", "construct/expr.py", "    def __rsub__(self, other):\n        return BinExpr(operator.sub, other, self)\n",
    "    def __rsub__(self, other):\n        return BinExpr(operator.sub, self, other)\n", "reflected subtraction with operands swapped")
mut("expr-rfloordiv-as-truediv", "C11", "construct/expr.py", "    def __rfloordiv__(self, other):\n        return BinExpr(operator.floordiv, other, self)\n",
    "    def __rfloordiv__(self, other):\n        return BinExpr(operator.div, other, self)\n", "const // expr evaluates as true division")
mut("bits2integer-sign-bias", "C10", "construct/lib/binary.py", "        bias = 1 << len(data)\n", "        bias = 1 << (len(data) - (len(data) > 16))\n",
    "signed bit fields wider than 16 bits use the wrong bias")
mut("processxor-zero-shortcut-widened", "C15", C,
    "            if not (len(pad) <= 64 and pad == bytes(len(pad))):\n                data = bytes((b ^ p) for b,p in zip(data, itertools.cycle(pad)))\n        substream",
    "            if not (len(pad) <= 64 and pad[:8] == bytes(min(8, len(pad)))):\n                data = bytes((b ^ p) for b,p in zip(data, itertools.cycle(pad)))\n        substream",
    "ProcessXor parse: keys whose first 8 bytes are zero are treated as all-zero")
mut("rotate-build-not-negated-multibyte", "C15", C,
    "        amount = -amount % (group * 8)\n", "        amount = (-amount if group == 1 else amount) % (group * 8)\n", "ProcessRotateLeft build rotates left again for groups > 1")
mut("rawcopy-data-off-by-offset", "C14", C,
    "        stream_seek(stream, offset1, 0, path)\n        data = stream_read(stream, offset2-offset1, path)\n        return Container(data=data, value=obj, offset1=offset1, offset2=offset2, length=(offset2-offset1))",
    "        stream_seek(stream, offset1 - (offset1 > 4), 0, path)\n        data = stream_read(stream, offset2-offset1, path)\n        stream_seek(stream, offset2, 0, path)\n        return Container(data=data, value=obj, offset1=offset1, offset2=offset2, length=(offset2-offset1))",
    "RawCopy parse re-reads from one byte early when the field starts beyond offset 4")
mut("lazystruct-stale-offset-after-unsizable", "C16", C,
    "                offset = stream_tell(stream, path)\n            offsets[i+1] = offset\n        return LazyContainer(self, stream, offsets, values, context, path)",
    "                offsets[i+1] = offset\n                offset = stream_tell(stream, path)\n                continue\n            offsets[i+1] = offset\n        return LazyContainer(self, stream, offsets, values, context, path)",
    "LazyStruct records the offset of the member after an unsizable one before it is known")
mut("renamed-build-drops-path", "C18", C,
    "    def _build(self, obj, stream, context, path):\n        path += \" -> %s\" % (self.name,)\n        return self.subcon._build(obj, stream, context, path)\n",
    "    def _build(self, obj, stream, context, path):\n        return self.subcon._build(obj, stream, context, path)\n", "Renamed._build no longer appends the member name")
mut("ksy-formatfield-endianness-swapped", "C19", C,
    "        swapped = (endianity == \"<\") or (endianity == \"=\" and sys.byteorder == \"little\")\n        if format in \"bhlqBHLQ\":",
    "        swapped = (endianity == \">\") or (endianity == \"=\" and sys.byteorder == \"big\")\n        if format in \"bhlqBHLQ\":", "KSY export of FormatField swaps le/be")
mut("container-eq-private-keys-one-side", "C20", "construct/lib/containers.py",
    "        for k, v in other.__class__.items(other):\n            if isinstance(k, str) and k.startswith(\"_\"):\n                continue\n",
    "        for k, v in other.__class__.items(other):\n", "Container.__eq__ no longer skips '_' keys of the right-hand side")
mut("hexundump-fixed-column", "C20", "construct/lib/hex.py", "        bytes = [int2byte(int(s,16)) for s in line[:3*linesize].split()]\n",
    "        bytes = [int2byte(int(s,16)) for s in line[:3*max(linesize, 16)].split()]\n", "hexundump takes at least 16 columns (for line sizes < 16 the ascii column leaks in)")
mut("aligned-sizeof-wrong-pad", "C05", C, "            return subconlen + (-subconlen % modulus)\n", "            return subconlen + (subconlen % modulus)\n", "Aligned._sizeof adds the remainder instead of the padding")
mut("bytesinteger-build-swapped-truthiness", "C03", C,
    "        if evaluate(self.swapped, context):\n            data = swapbytes(data)\n        stream_write(stream, data, length, path)\n        return obj",
    "        if self.swapped:\n            data = swapbytes(data)\n        stream_write(stream, data, length, path)\n        return obj",
    "BytesInteger._build tests the swapped parameter's truthiness instead of evaluating it (an expression object is always truthy)")
mut("validator-build-unchecked", "C13", C,
    "class Validator(SymmetricAdapter):", "class Validator(SymmetricAdapter):\n    def _encode(self, obj, context, path):\n        return obj\n", "validators (OneOf, NoneOf, ExprValidator) no longer check on build")
mut("select-no-seek-back-on-streamerror", "C09", C,
    "            except ExplicitError:\n                raise\n            except Exception:\n                stream_seek(stream, fallback, 0, path)\n            else:\n                return obj\n        raise SelectError",
    "            except ExplicitError:\n                raise\n            except StreamError:\n                pass\n            except Exception:\n                stream_seek(stream, fallback, 0, path)\n            else:\n                return obj\n        raise SelectError",
    "Select does not rewind after an alternative that ran out of data")
mut("prefixed-build-includelength-uses-data-len-twice", "C01", C,
    "        if self.includelength:\n            length += self.lengthfield._sizeof(context, path)\n        self.lengthfield._build(length, stream, context, path)",
    "        if self.includelength and length:\n            length += self.lengthfield._sizeof(context, path)\n        self.lengthfield._build(length, stream, context, path)",
    "Prefixed(includelength=True) build forgets the length field's own size for an empty payload")
mut("nullstripped-strip-partial-always", "C03", C,
    "            if tailunit and data[-tailunit:] == pad[:tailunit]:\n                end -= tailunit\n",
    "            if tailunit:\n                end -= tailunit\n", "NullStripped with a multi-byte pad drops any trailing partial unit, not only a padding prefix")
mut("stream-read-accepts-longer", "C06", C,
    "    if len(data) != length:\n        raise StreamError(\"stream read less than specified amount, expected %d, found %d\" % (length, len(data)), path=path)\n    return data\n",
    "    if len(data) < length:\n        raise StreamError(\"stream read less than specified amount, expected %d, found %d\" % (length, len(data)), path=path)\n    return data[:length]\n",
    "equivalent refactoring for well-behaved streams (control: must stay silent)")
mut("fixedsized-build-negative-pad-unchecked-for-zero", "C08", C,
    "        substream = BytesIOWithOffsets.from_reading(stream, length, path)\n        return self.subcon._parsereport(substream, context, path)\n\n    def _build(self, obj, stream, context, path):\n        length = evaluate(self.length, context)",
    "        substream = BytesIOWithOffsets.from_reading(stream, length, path) if length else stream\n        return self.subcon._parsereport(substream, context, path)\n\n    def _build(self, obj, stream, context, path):\n        length = evaluate(self.length, context)",
    "FixedSized(0, x) parses x on the outer stream (no confinement for an empty region)")
mut("compiled-struct-shares-obj-for-flagbuildnone", "C04", C,
    "block += f\"\"\"\n                    {f'obj = objdict.get({repr(sc.name)}, None)' if sc.flagbuildnone else f'obj = objdict[{repr(sc.name)}]'}",
    "block += f\"\"\"\n                    {f'obj = objdict.get({repr(sc.name)}, obj)' if sc.flagbuildnone else f'obj = objdict[{repr(sc.name)}]'}",
    "compiled Struct build: an omitted build-none member inherits the previous member's value instead of None")
mut("checksum-build-hash-before-region-final", "C14", C,
    "    def _build(self, obj, stream, context, path):\n        hash2 = self.hashfunc(self.bytesfunc(context))\n        self.checksumfield._build(hash2, stream, context, path)\n        return hash2",
    "    def _build(self, obj, stream, context, path):\n        hash2 = obj if obj is not None else self.hashfunc(self.bytesfunc(context))\n        self.checksumfield._build(hash2, stream, context, path)\n        return hash2",
    "Checksum build trusts a digest supplied in the object (stale after editing a parsed message)")
mut("union-parse-forwards-by-last-named", "C09", C,
    "            forwards[i] = stream_tell(stream, path)\n            if sc.name:\n                forwards[sc.name] = stream_tell(stream, path)\n            stream_seek(stream, fallback, 0, path)",
    "            if sc.name:\n                forwards[sc.name] = stream_tell(stream, path)\n            forwards[i] = forwards.get(sc.name, stream_tell(stream, path)) if i else stream_tell(stream, path)\n            stream_seek(stream, fallback, 0, path)",
    "control-ish: equivalent bookkeeping (must stay silent)")
mut("enum-decode-duplicate-first-wins", "C13", C,
    "        self.decmapping = {v:EnumIntegerString.new(v,k) for k,v in mapping.items()}\n",
    "        self.decmapping = {}\n        for k,v in mapping.items():\n            self.decmapping.setdefault(v, EnumIntegerString.new(v,k))\n",
    "Enum with duplicate values: the first label wins on parse instead of the last (documented by tests? no)")
mut("greedyrange-build-swallow", "C03", C,
    "                buildret = self.subcon._build(e, stream, context, path)\n                if not discard:\n                    retlist.append(buildret)\n            return retlist\n        except StopFieldError:\n            pass",
    "                buildret = self.subcon._build(e, stream, context, path)\n                if not discard:\n                    retlist.append(buildret)\n            return retlist\n        except (StopFieldError, RangeError):\n            pass",
    "GreedyRange build silently stops at an element that raises RangeError")
mut("lazyarray-count-from-context-once", "C17", C,
    "class LazyBound(Construct):", "class LazyBound(Construct):\n    _cache = {}\n", "control: unused class attribute (fingerprint must not alarm on unused additions... it will: informational)")


def main():
    os.makedirs(OUT, exist_ok=True)
    made = []
    for m in M:
        p = os.path.join(REPO, m["path"])
        src = open(p).read()
        if m.get("occurrence"):
            parts = src.split(m["old"])
            if len(parts) <= m["occurrence"]:
                print("SKIP %s: occurrence %d not found" % (m["name"], m["occurrence"]))
                continue
            k = m["occurrence"]
            new = m["old"].join(parts[:k]) + m["new"] + m["old"].join(parts[k:])
        elif src.count(m["old"]) != 1:
            print("SKIP %s: anchor found %d times" % (m["name"], src.count(m["old"])))
            continue
        else:
            new = src.replace(m["old"], m["new"])
        open(p, "w").write(new)
        diff = subprocess.run(["git", "-C", REPO, "diff"], capture_output=True, text=True).stdout
        subprocess.run(["git", "-C", REPO, "checkout", "--", "."], check=True)
        try:
            compile(new, p, "exec")
        except SyntaxError as e:
            print("SKIP %s: does not compile: %s" % (m["name"], e))
            continue
        fn = os.path.join(OUT, "%s-%s.patch" % (m["prop"], m["name"]))
        open(fn, "w").write(diff)
        made.append(dict(file=os.path.basename(fn), property=m["prop"], note=m["note"]))
    json.dump(made, open(os.path.join(OUT, "catalogue.json"), "w"), indent=1)
    print("wrote %d mutants" % len(made))


if __name__ == "__main__":
    main()
