#!/venv/bin/python
"""Run the repository's pinned test suite in <tree> (default /repo) and compare with BASELINE.json.
usage: tools/baseline.py [tree]   -> exit 0 iff every stable_pass test passes"""
import sys, os, json, subprocess, tempfile, xml.etree.ElementTree as ET
tree = os.path.realpath(sys.argv[1] if len(sys.argv) > 1 else "/repo")
base = json.load(open("/root/.vp/BASELINE.json"))
fd, xmlp = tempfile.mkstemp(suffix=".xml", dir="/var/tmp")
os.close(fd)
env = dict(os.environ, PYTHONPATH=tree, PYTHONDONTWRITEBYTECODE="1")
env.pop("CONSTRUCT_VERIF", None)
cmd = ["/venv/bin/python", "-m", "pytest", "-q", "-p", "no:cacheprovider", "--timeout=900",
       "--continue-on-collection-errors", "--junitxml=" + xmlp] + sys.argv[2:]
p = subprocess.run(cmd, cwd=tree, env=env, stdout=subprocess.PIPE, stderr=subprocess.STDOUT, text=True)
passed = set()
failed = set()
for tc in ET.parse(xmlp).getroot().iter("testcase"):
    name = tc.get("classname") + "::" + tc.get("name")
    bad = [c.tag for c in tc if c.tag in ("failure", "error", "skipped")]
    (failed if bad else passed).add(name)
os.unlink(xmlp)
missing = sorted(set(base["stable_pass"]) - passed)
print(p.stdout.strip().splitlines()[-1])
print("baseline stable_pass=%d passed_now=%d missing=%d" % (len(base["stable_pass"]), len(passed), len(missing)))
for m in missing[:20]:
    print("  MISSING", m)
sys.exit(1 if missing else 0)
