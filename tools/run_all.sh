#!/bin/sh
# tools/run_all.sh [tier]  - every registered check once; summary of exit codes
cd /verif
tier=${1:-quick}
for i in 01 02 03 04 05 06 07 08 09 10 11 12 13 14 15 16 17 18 19 20; do
  s=$(date +%s)
  out=$(./run C$i --tier $tier 2>&1); rc=$?
  e=$(date +%s)
  echo "C$i rc=$rc $(($e-$s))s viol=$(echo "$out" | grep -c '^VIOLATION') known=$(echo "$out" | grep -c '^KNOWN-FINDING') :: $(echo "$out" | tail -1 | cut -c1-160)"
done
