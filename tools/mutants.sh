#!/bin/sh
# tools/mutants.sh [pattern]  - for each mutants/*.patch: scratch worktree of /repo HEAD + patch, run the repository's baseline
# tests (the mutant only counts if they still pass) and the owning check (expected: exit 1).  Results -> mutants/RESULTS.txt
cd /verif
pat=${1:-}
for f in mutants/*${pat}*.patch; do
  n=$(basename $f .patch); prop=$(echo $n | cut -d- -f1)
  wt=/var/tmp/mut-$n-$$; out=/var/tmp/mut-out-$n-$$
  git -C /repo worktree add --detach "$wt" HEAD >/dev/null 2>&1 || continue
  if ! ( cd "$wt" && git apply /verif/$f ) 2>/dev/null; then echo "MUTANT $n: patch does not apply"; git -C /repo worktree remove --force "$wt"; rm -rf "$wt"; continue; fi
  tests=$(/verif/tools/baseline.py "$wt" 2>&1 | tail -20 | grep "baseline stable_pass" )
  miss=$(echo "$tests" | sed 's/.*missing=//')
  o=$(VERIF_REPO="$wt" VERIF_OUT="$out" VERIF_PROCS=${VERIF_PROCS:-8} ./run "$prop" --tier quick 2>&1); rc=$?
  echo "MUTANT $n tests_missing=$miss check=$prop rc=$rc violations=$(echo "$o" | grep -c '^VIOLATION') :: $(echo "$o" | grep -m1 signature | sed 's/^ *signature: //')"
  git -C /repo worktree remove --force "$wt" >/dev/null 2>&1; rm -rf "$wt" "$out"
done
