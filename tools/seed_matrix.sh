#!/bin/sh
# tools/seed_matrix.sh <seed name> [check ids...]  - run checks against a scratch worktree of /repo HEAD with the seed applied
# (does not touch /repo or the committed evidence).  Prints one line per check.
name="$1"; shift
[ $# -eq 0 ] && set -- $(echo "$name" | cut -d- -f1)
wt=/var/tmp/seedmx-$name-$$; out=/var/tmp/seedmx-out-$name-$$
git -C /repo worktree add --detach "$wt" HEAD >/dev/null 2>&1 || exit 2
trap 'git -C /repo worktree remove --force "$wt" >/dev/null 2>&1; rm -rf "$wt" "$out"' EXIT INT TERM
( cd "$wt" && ( git apply /verif/seeded/$name/patch.diff 2>/dev/null || git apply --3way /verif/seeded/$name/patch.diff >/dev/null 2>&1 ) ) || { echo "SEED $name: patch does not apply"; exit 3; }
cd /verif
for c in "$@"; do
  o=$(VERIF_REPO="$wt" VERIF_OUT="$out" VERIF_PROCS=${VERIF_PROCS:-4} ./run "$c" --tier ${TIER:-quick} 2>&1); rc=$?
  echo "MATRIX $name $c rc=$rc violations=$(echo "$o" | grep -c '^VIOLATION') :: $(echo "$o" | grep -m1 signature | sed 's/^ *signature: //')"
done
