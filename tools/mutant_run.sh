#!/bin/sh
# tools/mutant_run.sh <patch file> <check id> [tier] - scratch worktree + patch, run one check (no baseline tests)
f="$1"; c="$2"; tier=${3:-quick}
n=$(basename $f .patch)
wt=/var/tmp/mr-$n-$$; out=/var/tmp/mr-out-$n-$$
git -C /repo worktree add --detach "$wt" HEAD >/dev/null 2>&1 || exit 2
trap 'git -C /repo worktree remove --force "$wt" >/dev/null 2>&1; rm -rf "$wt" "$out"' EXIT INT TERM
fp=$(realpath "$f"); ( cd "$wt" && git apply "$fp" ) || { echo "patch does not apply"; exit 3; }
cd /verif
o=$(VERIF_REPO="$wt" VERIF_OUT="$out" VERIF_PROCS=${VERIF_PROCS:-8} ./run "$c" --tier $tier 2>&1); rc=$?
echo "MUTANT $n check=$c rc=$rc violations=$(echo "$o" | grep -c '^VIOLATION') :: $(echo "$o" | grep -m1 signature | sed 's/^ *signature: //') :: $(echo "$o" | grep -m1 detail | cut -c1-200)"
