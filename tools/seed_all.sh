#!/bin/sh
# runs every stored seed against the check of the property it breaks (scratch worktrees, committed evidence untouched),
# SEED_JOBS at a time (default 4, each with VERIF_PROCS=4); results sorted into seeded/RESULTS.txt
cd /verif
tmp=$(mktemp /var/tmp/seed_all.XXXXXX)
ls -d seeded/C*-*/ | xargs -n 1 basename | xargs -P ${SEED_JOBS:-4} -n 1 tools/seed_matrix.sh > "$tmp" 2>&1
sort -V "$tmp" > seeded/RESULTS.txt
rm -f "$tmp"
cat seeded/RESULTS.txt
