#!/bin/sh
# runs every stored seed against the check of the property it breaks (scratch worktree, committed evidence untouched)
cd /verif
: > seeded/RESULTS.txt
for d in seeded/C*-*/; do
  n=$(basename $d)
  tools/seed_matrix.sh $n >> seeded/RESULTS.txt 2>&1
done
cat seeded/RESULTS.txt
