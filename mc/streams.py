"""Environment model: the stream a construct talks to, with scripted deviations (DESIGN 2.5).

ScriptedStream wraps an in-memory buffer, numbers every read/write/seek/tell call and answers
from a script {operation index: deviation}.  Default answer = the honest one.  Deviations:
  "raise"  - the operation raises OSError
  "raise2" - the operation raises an exception that is neither OSError nor ValueError (a device wrapper's own class)
  "short"  - read(n>=1) returns one byte fewer; write returns a count one smaller (but writes all)
  "none"   - read returns None / write returns None (non-blocking stream with nothing ready)
The operation trace is recorded so a replay file can show what the code asked the stream.
"""
import io, sys


class ScriptedFailure(Exception):
    """what a third-party stream object may raise: not an OSError, not a ValueError"""


def construct_stack():
    """(class name, function name) of the construct methods on the Python stack, innermost first - which construct issued
    the stream operation, and which constructs enclose it"""
    out = []
    f = sys._getframe(2)
    while f is not None:
        co = f.f_code
        if co.co_filename.endswith("construct/core.py") and "self" in f.f_locals and co.co_name in ("_parse", "_build", "_sizeof", "_actualsize"):
            out.append((type(f.f_locals["self"]).__name__, co.co_name))
        f = f.f_back
    return out


class ScriptedStream:
    def __init__(self, data=b"", script=None, pos=0):
        self.buf = io.BytesIO(data)
        self.buf.seek(pos)
        self.script = script or {}
        self.n = 0
        self.trace = []
        self.applied = []
        self.stacks = []

    def _step(self, op, arg):
        k = self.n
        self.n += 1
        self.trace.append((op, arg))
        dev = self.script.get(k)
        if dev is not None:
            self.applied.append((k, op, dev))
            self.stacks.append(construct_stack())
        return dev

    def read(self, n=None):
        dev = self._step("read", n)
        if dev == "raise":
            raise OSError("scripted read failure")
        if dev == "raise2":
            raise ScriptedFailure("scripted read failure")
        if n is None or n < 0:
            return self.buf.read()
        if dev == "short" and n >= 1:
            return self.buf.read(n - 1)
        if dev == "none":
            return None
        return self.buf.read(n)

    def write(self, data):
        dev = self._step("write", len(data))
        if dev == "raise":
            raise OSError("scripted write failure")
        if dev == "raise2":
            raise ScriptedFailure("scripted write failure")
        k = self.buf.write(data)
        if dev == "short" and k >= 1:
            return k - 1
        if dev == "none":
            return None
        return k

    def seek(self, off, whence=0):
        dev = self._step("seek", (off, whence))
        if dev == "raise2":
            raise ScriptedFailure("scripted seek failure")
        if dev in ("raise", "short", "none"):
            raise OSError("scripted seek failure (stream not seekable)")
        return self.buf.seek(off, whence)

    def tell(self):
        dev = self._step("tell", None)
        if dev == "raise2":
            raise ScriptedFailure("scripted tell failure")
        if dev in ("raise", "short", "none"):
            raise OSError("scripted tell failure (stream not tellable)")
        return self.buf.tell()

    def getvalue(self):
        return self.buf.getvalue()

    def seekable(self):
        return True

    def readable(self):
        return True

    def writable(self):
        return True


def applicable(op, arg):
    """deviations that make sense for an operation"""
    if op == "read":
        if arg is None or (isinstance(arg, int) and arg < 0):
            return ["raise", "raise2"]
        if arg >= 1:
            return ["raise", "short", "raise2"]
        return ["raise", "raise2"]
    if op == "write":
        return ["raise", "short", "raise2"] if arg >= 1 else ["raise", "raise2"]
    return ["raise", "raise2"]
