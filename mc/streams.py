"""Environment model: the stream a construct talks to, with scripted deviations (DESIGN 2.5).

ScriptedStream wraps an in-memory buffer, numbers every read/write/seek/tell call and answers
from a script {operation index: deviation}.  Default answer = the honest one.  Deviations:
  "raise"  - the operation raises OSError
  "short"  - read(n>=1) returns one byte fewer; write returns a count one smaller (but writes all)
  "none"   - read returns None / write returns None (non-blocking stream with nothing ready)
The operation trace is recorded so a replay file can show what the code asked the stream.
"""
import io


class ScriptedStream:
    def __init__(self, data=b"", script=None, pos=0):
        self.buf = io.BytesIO(data)
        self.buf.seek(pos)
        self.script = script or {}
        self.n = 0
        self.trace = []
        self.applied = []

    def _step(self, op, arg):
        k = self.n
        self.n += 1
        self.trace.append((op, arg))
        dev = self.script.get(k)
        if dev is not None:
            self.applied.append((k, op, dev))
        return dev

    def read(self, n=None):
        dev = self._step("read", n)
        if dev == "raise":
            raise OSError("scripted read failure")
        if n is None or n < 0:
            return self.buf.read()
        if dev == "short" and n >= 1:
            return self.buf.read(n - 1)
        if dev == "none":
            return None
        return self.buf.read(n)

    def write(self, data):
        dev = self._step("write", len(data))
        if dev == "raise":
            raise OSError("scripted write failure")
        k = self.buf.write(data)
        if dev == "short" and k >= 1:
            return k - 1
        if dev == "none":
            return None
        return k

    def seek(self, off, whence=0):
        dev = self._step("seek", (off, whence))
        if dev in ("raise", "short", "none"):
            raise OSError("scripted seek failure (stream not seekable)")
        return self.buf.seek(off, whence)

    def tell(self):
        dev = self._step("tell", None)
        if dev in ("raise", "short", "none"):
            raise OSError("scripted tell failure (stream not tellable)")
        return self.buf.tell()

    def getvalue(self):
        return self.buf.getvalue()

    def seekable(self):
        return True

    def readable(self):
        return True

    def writable(self):
        return True


def applicable(op, arg):
    """deviations that make sense for an operation"""
    if op == "read":
        if arg is None or (isinstance(arg, int) and arg < 0):
            return ["raise"]
        if arg >= 1:
            return ["raise", "short"]
        return ["raise"]
    if op == "write":
        return ["raise", "short"] if arg >= 1 else ["raise"]
    return ["raise"]
