"""The size axis: a declared alphabet of lengths/counts/widths around the thresholds where block-wise code paths switch
(one-byte and two-byte limits, typical buffer/block sizes), and deterministic payloads of those lengths.

Small-scope enumeration covers every input up to length 4..6; this module adds, for the checks where the amount of data is a
parameter of the property, a second, sparse but fixed axis: every size in SIZES (and nothing in between).  It is still
enumeration over a stated alphabet - no sampling - and the evidence lists the alphabet used.
"""

# around 2^6, 2^8, 2^10..2^13 (common block sizes, with some sizes in between), 2^16
SIZES_QUICK = [63, 64, 65, 255, 256, 257, 1023, 1025, 2049, 3073, 4095, 4096, 4097, 8193, 65536]
SIZES_THOROUGH = SIZES_QUICK + [127, 128, 129, 511, 512, 513, 1024, 1500, 2047, 2048, 3000, 3071, 3072, 5000, 6000, 8191, 8192, 12288, 16385, 65535, 65537, 131073]


# beyond 2**20: only for checks where such an execution costs well under a second
BIG = [1048575, 1048577, 2097153]


def sizes(tier):
    return list(SIZES_QUICK if tier == "quick" else sorted(set(SIZES_THOROUGH)))


def payload(n, kind="ramp"):
    """deterministic n bytes.  ramp: period 251 (coprime to every block size), contains every value 0..250;
    nozero: values 1..251, never 0 (for terminated regions); text: ASCII letters"""
    if kind == "ramp":
        return bytes((i * 37 + 11) % 251 for i in range(n))
    if kind == "nozero":
        return bytes(1 + (i * 37 + 11) % 251 for i in range(n))
    if kind == "text":
        return bytes(97 + (i * 7 + 3) % 26 for i in range(n))
    if kind == "ff":
        return b"\xff" * n
    if kind == "zero":
        return bytes(n)
    raise ValueError(kind)
