"""C10 - bit-level fields are packed MSB-first across byte boundaries on both code paths.

Every layout is executed through the sized implementation (Bitwise -> Transformed) and the
streaming one (a trailing unsized zero-width member makes Bitwise choose Restreamed); parse
and build are compared with big-integer arithmetic on the region.
"""
import itertools, io
from ..engine import UnitResult, jkey, watchdog, Hang

INFO = {
    "rule": "all compositions of 8 bits x every signed/unsigned assignment x all 256 byte values; all compositions of 16 bits "
            "into <=3 (quick) / <=4 (thorough) parts x all 65536 values (sized path exhaustively; streaming path on all values "
            "in thorough, on a 2048-value boundary set in quick); 24..64-bit regions with parts from {1,3,7,8,9,12,15,16,17,24}, "
            "swapped multiples of 8, Flag, Padding, nested Struct/Array, Bytewise islands, on walking/boundary patterns; "
            "every layout x {sized, streaming} x {parse, build, stream advance}; unsized Bytewise islands reading several bytes per request. non-trivial = the implementation returned a value "
            "that was compared with the reference; distinct = distinct (layout, implementation, region value)",
    "bounds": {"quick": {"max_parts_16": 3, "values_16": "boundary set"},
               "thorough": {"max_parts_16": 4, "values_16": "all 65536"}},
    "trusted_base": ["big-integer shift/mask arithmetic in this module (ref_parse/ref_build, 60 lines)"],
    "assumptions": ["total width of a region is a multiple of 8 (documented requirement of Restreamed)"],
}


# ---------------------------------------------------------------------------- reference

def ref_parse_member(m, bits, pos):
    k = m[0]
    if k == "int":
        w, signed, swapped = m[1], m[2], m[3]
        chunk = bits[pos:pos + w]
        if len(chunk) < w:
            raise EOFError
        if swapped:
            groups = [chunk[i:i + 8] for i in range(0, w, 8)]
            chunk = [b for g in reversed(groups) for b in g]
        v = 0
        for b in chunk:
            v = (v << 1) | b
        if signed and chunk[0]:
            v -= 1 << w
        return v, pos + w
    if k == "flag":
        if pos >= len(bits):
            raise EOFError
        return bits[pos] != 0, pos + 1
    if k == "pad":
        if pos + m[1] > len(bits):
            raise EOFError
        return None, pos + m[1]
    if k == "bw16":
        v, p = ref_parse_member(["int", 16, False, True], bits, pos)
        return v, p
    if k == "bwb":
        v, p = ref_parse_member(["int", 8, False, False], bits, pos)
        return bytes([v]), p
    if k == "bwz":
        return b"", pos
    if k == "bwpre":
        # byte-oriented island of no static size read in ONE multi-byte request: a length byte, then that many bytes
        n, pos = ref_parse_member(["int", 8, False, False], bits, pos)
        out = bytearray()
        for _ in range(n):
            v, pos = ref_parse_member(["int", 8, False, False], bits, pos)
            out.append(v)
        return bytes(out), pos
    if k == "bwarr":
        n, pos = ref_parse_member(["int", 8, False, False], bits, pos)
        out = []
        for _ in range(n):
            v, pos = ref_parse_member(["int", 16, False, True], bits, pos)
            out.append(v)
        return out, pos
    if k == "bwvar":
        acc, shift = 0, 0
        while True:
            v, pos = ref_parse_member(["int", 8, False, False], bits, pos)
            acc |= (v & 0x7f) << shift
            shift += 7
            if not v & 0x80:
                return acc, pos
    if k == "struct":
        out = {}
        for i, mm in enumerate(m[1]):
            v, pos = ref_parse_member(mm, bits, pos)
            out["g%d" % i] = v
        return out, pos
    if k == "array":
        out = []
        for _ in range(m[1]):
            v, pos = ref_parse_member(m[2], bits, pos)
            out.append(v)
        return out, pos
    raise ValueError(m)


def int_bits(v, w):
    return [(v >> (w - 1 - i)) & 1 for i in range(w)]


def ref_build_member(m, v):
    k = m[0]
    if k == "int":
        w, signed, swapped = m[1], m[2], m[3]
        if v < 0:
            v += 1 << w
        chunk = int_bits(v, w)
        if swapped:
            groups = [chunk[i:i + 8] for i in range(0, w, 8)]
            chunk = [b for g in reversed(groups) for b in g]
        return chunk
    if k == "flag":
        return [1 if v else 0]
    if k == "pad":
        return [0] * m[1]
    if k == "bw16":
        return ref_build_member(["int", 16, False, True], v)
    if k == "bwb":
        return int_bits(v[0], 8)
    if k == "bwz":
        return []
    if k == "bwpre":
        out = int_bits(len(v), 8)
        for b in v:
            out += int_bits(b, 8)
        return out
    if k == "bwarr":
        out = int_bits(len(v), 8)
        for e in v:
            out += ref_build_member(["int", 16, False, True], e)
        return out
    if k == "bwvar":
        out = []
        while True:
            b = v & 0x7f
            v >>= 7
            if v:
                out += int_bits(b | 0x80, 8)
            else:
                out += int_bits(b, 8)
                return out
    if k == "struct":
        out = []
        for i, mm in enumerate(m[1]):
            out += ref_build_member(mm, v["g%d" % i])
        return out
    if k == "array":
        out = []
        for e in v:
            out += ref_build_member(m[2], e)
        return out
    raise ValueError(m)


def ref_parse(layout, data):
    bits = []
    for byte in data:
        bits += int_bits(byte, 8)
    pos = 0
    vals = []
    for m in layout:
        v, pos = ref_parse_member(m, bits, pos)
        vals.append(v)
    return vals, pos


def ref_build(layout, vals):
    bits = []
    for m, v in zip(layout, vals):
        bits += ref_build_member(m, v)
    assert len(bits) % 8 == 0
    out = bytearray()
    for i in range(0, len(bits), 8):
        b = 0
        for x in bits[i:i + 8]:
            b = (b << 1) | x
        out.append(b)
    return bytes(out)


def width(m):
    k = m[0]
    if k == "int" or k == "pad":
        return m[1]
    if k == "flag":
        return 1
    if k == "bw16":
        return 16
    if k == "bwb":
        return 8
    if k == "bwz":
        return 0
    if k == "struct":
        return sum(width(x) for x in m[1])
    if k == "array":
        return m[1] * width(m[2])
    return None


# ----------------------------------------------------------------------- implementation

def mk_member(m, prefix="f"):
    import construct as C
    k = m[0]
    if k == "int":
        if m[1] == 1 and not m[2] and not m[3] and len(m) > 4 and m[4] == "alias":
            return C.Bit
        return C.BitsInteger(m[1], signed=m[2], swapped=m[3])
    if k == "flag":
        return C.Flag
    if k == "pad":
        return C.Padding(m[1])
    if k == "bw16":
        return C.Bytewise(C.Int16ul)
    if k == "bwb":
        return C.Bytewise(C.Bytes(1))
    if k == "bwz":
        return C.Bytewise(C.Bytes(0))        # a byte-oriented island of static size zero
    if k == "bwvar":
        return C.Bytewise(C.VarInt)
    if k == "bwpre":
        return C.Bytewise(C.Prefixed(C.Byte, C.GreedyBytes))
    if k == "bwarr":
        return C.Bytewise(C.PrefixedArray(C.Byte, C.Int16ul))
    if k == "struct":
        return C.Struct(*[("g%d" % i) / mk_member(mm) for i, mm in enumerate(m[1])])
    if k == "array":
        return C.Array(m[1], mk_member(m[2]))
    raise ValueError(m)


def mk(layout, streaming):
    import construct as C
    members = [("f%d" % i) / mk_member(m) for i, m in enumerate(layout)]
    if streaming:
        members.append(C.StopIf(False))     # zero-width, unsized: Bitwise must take the streaming path
    d = C.Bitwise(C.Struct(*members))
    want = C.Restreamed if streaming or any(width(m) is None for m in layout) else C.Transformed
    if not isinstance(d, want):
        raise RuntimeError("harness: expected %s implementation, got %s" % (want.__name__, type(d).__name__))
    return d


def plain(v):
    if isinstance(v, dict):
        return {k: plain(x) for k, x in v.items() if not (isinstance(k, str) and k.startswith("_"))}
    if isinstance(v, list):
        return [plain(x) for x in v]
    if isinstance(v, bool):
        return v
    if isinstance(v, int):
        return int(v)
    if isinstance(v, bytes):
        return bytes(v)
    return v


def same(a, b):
    if isinstance(a, bool) != isinstance(b, bool):
        return False
    if isinstance(a, dict) and isinstance(b, dict):
        return a.keys() == b.keys() and all(same(a[k], b[k]) for k in a)
    if isinstance(a, list) and isinstance(b, list):
        return len(a) == len(b) and all(same(x, y) for x, y in zip(a, b))
    return type(a) is type(b) and a == b


TRAIL = b"\xa5\x5a"


def check_one(layout, impls, data, r, lsig):
    """impls: list of (name, construct).  Returns list of violations."""
    out = []
    def bad(kind, impl, detail):
        out.append({"sig": "C10/%s/%s/%s" % (kind, impl, lsig), "case": {"layout": layout, "data": data, "impl": impl}, "detail": detail})
    try:
        want, used = ref_parse(layout, data)
    except EOFError:
        want, used = None, None
    for name, d in impls:
        # ---- parse
        s = io.BytesIO(data + (TRAIL if want is not None else b""))
        try:
            with watchdog(5):
                got = d.parse_stream(s)
            err = None
        except Hang:
            bad("hang", name, "parse of %s did not terminate" % data.hex())
            continue
        except Exception as e:
            got, err = None, e
        if want is None:
            if err is None:
                bad("parse-accepts-short-region", name, "region %s shorter than layout but parse returned %r" % (data.hex(), got))
            if r is not None:
                r.case(nontrivial=False, outcome="short", validated=1)
            continue
        if err is not None:
            bad("parse-raised-" + type(err).__name__, name, "parse(%s) raised %r, reference gives %r" % (data.hex(), err, want))
            continue
        gl = [plain(got.get("f%d" % i)) for i in range(len(layout))]
        if not same(gl, want):
            bad("parse-differs", name, "parse(%s) = %r, big-integer reference %r" % (data.hex(), gl, want))
        if s.tell() != used // 8:
            bad("stream-advance", name, "parse(%s) advanced the outer stream by %d, region is %d bytes" % (data.hex(), s.tell(), used // 8))
        # ---- build (from the reference values; canonical region has zero padding bits)
        canon = ref_build(layout, want)
        vals = {"f%d" % i: v for i, v in enumerate(want) if layout[i][0] != "pad"}
        s2 = io.BytesIO()
        s2.write(b"\x11")
        try:
            with watchdog(5):
                d.build_stream(vals, s2)
            built = s2.getvalue()[1:]
        except Hang:
            bad("hang", name, "build did not terminate")
            continue
        except Exception as e:
            bad("build-raised-" + type(e).__name__, name, "build(%r) raised %r, reference bytes %s" % (vals, e, canon.hex()))
            continue
        if built != canon:
            bad("build-differs", name, "build(%r) = %s, big-integer reference %s" % (vals, built.hex(), canon.hex()))
        if r is not None:
            r.case(nontrivial=True, outcome="ok", transitions=2, validated=2)
    return out


def lsig_of(layout):
    ks = []
    for m in layout:
        k = m[0]
        if k == "int":
            ks.append("int%s%s" % ("s" if m[2] else "u", "-swapped" if m[3] else ""))
        else:
            ks.append(k)
    return "+".join(sorted(set(ks)))


# ------------------------------------------------------------------------------ spaces

def compositions(n, maxparts=None):
    def rec(rem, parts):
        if rem == 0:
            yield list(parts)
            return
        if maxparts is not None and len(parts) >= maxparts:
            return
        for w in range(1, rem + 1):
            parts.append(w)
            yield from rec(rem - w, parts)
            parts.pop()
    return list(rec(n, []))


def boundary16():
    vals = set()
    for i in range(16):
        vals.add(1 << i)
        vals.add(0xffff ^ (1 << i))
        vals.add((1 << i) - 1)
        vals.add(0xffff & ~((1 << i) - 1))
    for hi in (0x00, 0x01, 0x7f, 0x80, 0xff, 0xaa, 0x55):
        for lo in range(256):
            vals.add((hi << 8) | lo)
            vals.add((lo << 8) | hi)
    return sorted(vals)


WIDE_PARTS = [1, 3, 7, 8, 9, 12, 15, 16, 17, 24]


def wide_layouts():
    out = []
    for total in (24, 32, 40, 64):
        for n in (1, 2, 3):
            for parts in itertools.product(WIDE_PARTS + [total], repeat=n):
                if sum(parts) == total:
                    out.append((total, list(parts)))
    # the size axis: single fields and splits around 2^7, 2^8 and 2^10 bits (totals are multiples of 8)
    for w in (127, 128, 129, 255, 256, 257, 320, 511, 512, 513, 521, 1000, 1023, 1024, 1025):
        pad = (-w) % 8
        out.append((w + pad, [w] + ([pad] if pad else [])))
        if pad:
            out.append((w + pad, [pad, w]))
    out += [(264, [3, 256, 5]), (520, [256, 264]), (1032, [1, 1024, 7]), (2048, [2048]), (4104, [4, 4096, 4])]
    # dedupe
    seen, res = set(), []
    for t, p in out:
        if (t, tuple(p)) not in seen:
            seen.add((t, tuple(p)))
            res.append((t, p))
    return res


def patterns(total):
    if total > 128:
        # long regions: the fill patterns plus single set / cleared bits at both ends and next to every 64-bit boundary
        full = (1 << total) - 1
        nb = total // 8
        vals = {0, full, int("55" * nb, 16), int("aa" * nb, 16), int("80" * nb, 16), int("01" * nb, 16), int.from_bytes(bytes((i * 37 + 11) % 251 for i in range(nb)), "big")}
        spots = {0, 1, 7, 8, total - 1, total - 2, total - 8, total - 9}
        for k in range(64, total, 64):
            spots |= {k - 1, k, k + 1}
        for k in (255, 256, 257, 1023, 1024, 1025):
            spots.add(k)
        for i in sorted(b for b in spots if 0 <= b < total):
            vals.add(1 << i)
            vals.add(full ^ (1 << i))
        return sorted(vals)
    full = (1 << total) - 1
    vals = {0, full, int("55" * (total // 8), 16), int("aa" * (total // 8), 16), int("0f" * (total // 8), 16),
            int("80" * (total // 8), 16), int("01" * (total // 8), 16), int("7f" * (total // 8), 16)}
    for i in range(total):
        vals.add(1 << i)
        vals.add(full ^ (1 << i))
    return sorted(vals)


SPECIAL = [
    [["flag"], ["int", 7, True, False]],
    [["int", 3, False, False], ["flag"], ["pad", 4]],
    [["pad", 3], ["int", 5, True, False]],
    [["int", 4, False, False], ["bw16"], ["int", 4, True, False]],
    [["int", 1, False, False], ["bwb"], ["int", 7, False, False]],
    [["int", 4, False, False], ["bwb"], ["bw16"], ["int", 4, False, False]],
    [["struct", [["int", 3, False, False], ["int", 5, True, False]]], ["int", 8, False, False]],
    [["int", 2, True, False], ["struct", [["flag"], ["int", 9, False, False], ["pad", 2]]], ["int", 2, False, False]],
    [["array", 3, ["int", 5, True, False]], ["flag"]],
    [["array", 2, ["int", 12, False, False]]],
    [["int", 4, False, False], ["array", 2, ["struct", [["int", 3, True, False], ["int", 7, False, False], ["pad", 2]]]], ["int", 4, False, False]],
    [["int", 16, False, True], ["int", 8, True, True]],
    [["int", 4, False, False], ["int", 16, True, True], ["int", 4, False, False]],
    [["int", 24, True, True]],
    [["int", 3, False, False], ["int", 24, False, True], ["int", 5, False, False]],
    [["int", 1, False, False, "alias"], ["int", 7, False, False]],
    [["int", 32, True, True], ["int", 8, False, True]],
    [["int", 4, False, False], ["bwz"], ["int", 4, True, False]],
    [["bwz"], ["int", 8, False, False], ["bwz"]],
    [["flag"], ["bwz"], ["int", 7, False, False], ["bwb"]],
]
VAR_SPECIAL = [
    [["int", 4, False, False], ["bwvar"], ["int", 4, True, False]],
    [["bwvar"], ["int", 8, False, False]],
    [["flag"], ["int", 7, False, False], ["bwvar"]],
    [["int", 4, False, False], ["bwpre"], ["int", 4, True, False]],
    [["bwpre"], ["int", 8, False, False]],
    [["int", 3, False, False], ["int", 5, False, False], ["bwarr"], ["flag"], ["int", 7, False, False]],
    [["bwpre"], ["bwarr"]],
]
S7 = [0x00, 0x01, 0x02, 0x7f, 0x80, 0x81, 0xff]


def units(tier):
    us = []
    for comp in compositions(8):
        us.append({"kind": "c8", "parts": comp})
    mp = INFO["bounds"][tier]["max_parts_16"]
    for comp in compositions(16, mp):
        us.append({"kind": "c16", "parts": comp, "signed": False})
    for comp in compositions(16, 3):
        us.append({"kind": "c16", "parts": comp, "signed": True})
    for total, parts in wide_layouts():
        us.append({"kind": "wide", "total": total, "parts": parts})
    for i in range(len(SPECIAL)):
        us.append({"kind": "special", "index": i})
    for i in range(len(VAR_SPECIAL)):
        us.append({"kind": "var", "index": i})
    us.append({"kind": "errors"})
    for w in (8, 16, 24, 32):
        us.append({"kind": "ctx-swapped", "width": w})
    return us


def run_unit(unit, tier):
    r = UnitResult()
    k = unit["kind"]
    if k == "c8":
        parts = unit["parts"]
        for signs in itertools.product([False, True], repeat=len(parts)):
            layout = [["int", w, s, False] for w, s in zip(parts, signs)]
            run_layout(layout, [bytes([v]) for v in range(256)], r, both=True)
    elif k == "c16":
        parts = unit["parts"]
        if unit["signed"]:
            layout = [["int", w, (i % 2 == 0), False] for i, w in enumerate(parts)]
        else:
            layout = [["int", w, False, False] for w in parts]
        if tier == "thorough":
            run_layout(layout, [v.to_bytes(2, "big") for v in range(65536)], r, both=True)
        else:
            run_layout(layout, [v.to_bytes(2, "big") for v in boundary16()], r, both=True)
    elif k == "wide":
        total, parts = unit["total"], unit["parts"]
        datas = [v.to_bytes(total // 8, "big") for v in patterns(total)]
        variants = [[["int", w, False, False] for w in parts],
                    [["int", w, True, False] for w in parts],
                    [["int", w, i % 2 == 1, w % 8 == 0] for i, w in enumerate(parts)]]
        seen = set()
        for layout in variants:
            if jkey(layout) in seen:
                continue
            seen.add(jkey(layout))
            run_layout(layout, datas, r, both=True)
    elif k == "special":
        layout = SPECIAL[unit["index"]]
        total = sum(width(m) for m in layout)
        datas = [v.to_bytes(total // 8, "big") for v in patterns(total)]
        if total <= 16:
            datas = [v.to_bytes(total // 8, "big") for v in (range(1 << total) if tier == "thorough" or total == 8 else boundary16())]
        # short regions must be rejected
        datas += [datas[1][:-1], b""]
        run_layout(layout, datas, r, both=True)
    elif k == "var":
        layout = VAR_SPECIAL[unit["index"]]
        datas = []
        for n in (1, 2, 3, 4):
            for t in itertools.product(S7, repeat=n):
                datas.append(bytes(t))
        if any(m[0] in ("bwpre", "bwarr") for m in layout):
            # length bytes (aligned and straddling a nibble) that make the island 0..3 units long
            for n in (2, 3, 4, 5):
                for t in itertools.product([0x00, 0x02, 0x03, 0x10, 0x20, 0x30, 0xab], repeat=n):
                    datas.append(bytes(t))
        run_layout(layout, datas, r, impl="streaming")
    elif k == "errors":
        run_errors(r)
    elif k == "ctx-swapped":
        run_ctx_swapped(unit["width"], r)
    return r


def run_layout(layout, datas, r, both=False, impl=None):
    names = ["sized", "streaming"] if both else [impl]
    impls = [(n, mk(layout, n == "streaming")) for n in names]
    ls = lsig_of(layout)
    lk = jkey(layout)
    for data in datas:
        r.states += len(impls)
        for v in check_one(layout, impls, data, r, ls):
            r.violation(v["sig"], v["case"], v["detail"])
    r.sample({"layout": layout, "impls": names, "regions": len(datas)}, cap=2)


def run_ctx_swapped(w, r):
    """`swapped` may be a context expression: under each value of the key the field must behave like the field with that constant,
    on the pre-read path, the streaming path and for BytesInteger; the same instance is used under both contexts alternately"""
    import construct as C
    this = C.this
    n = w // 8
    vals = patterns(w) if w > 16 else (list(range(256)) if w == 8 else boundary16())
    for signed in (False, True):
        pairs = [
            ("sized", lambda sw: C.Bitwise(C.BitsInteger(w, signed=signed, swapped=sw))),
            ("streaming", lambda sw: C.Bitwise(C.Struct("v" / C.BitsInteger(w, signed=signed, swapped=sw), "rest" / C.GreedyBytes))),
            ("bytes", lambda sw: C.BytesInteger(n, signed=signed, swapped=sw)),
            ("struct-member", lambda sw: C.Struct("h" / C.Byte, "v" / C.Bitwise(C.BitsInteger(w, signed=signed, swapped=sw)), "t" / C.Byte)),
        ]
        for pname, mk_ in pairs:
            dyn = mk_(this._params.le)
            const = {False: mk_(False), True: mk_(True)}
            for v in vals:
                data = v.to_bytes(n, "big")
                if pname == "struct-member":
                    data = b"\x01" + data + b"\x02"
                for le in (False, True, True, False):
                    r.states += 1
                    a = tryp(lambda: T.norm(const[le].parse(data)))
                    b = tryp(lambda: T.norm(dyn.parse(data, le=le)))
                    r.case(nontrivial=a[0] == "ok", outcome="ctx-swapped", transitions=2, validated=1)
                    if a != b:
                        r.violation("C10/ctx-swapped/parse-differs/%s" % pname, {"t": "ctx-swapped", "width": w, "signed": signed, "path": pname, "data": data, "le": le},
                                    "%d-bit %s field, swapped=this._params.le with le=%r on %s (%s): %r, with the constant %r" % (w, "signed" if signed else "unsigned", le, data.hex(), pname, b, a))
                        continue
                    if a[0] == "ok":
                        ba = tryp(lambda: const[le].build(a[1]))
                        bb = tryp(lambda: dyn.build(a[1], le=le))
                        if ba != bb or ba != ("ok", data):
                            r.violation("C10/ctx-swapped/build-differs/%s" % pname, {"t": "ctx-swapped", "width": w, "signed": signed, "path": pname, "data": data, "le": le},
                                        "%d-bit field le=%r (%s): build of %r gives %r, with the constant %r, parsed from %s" % (w, le, pname, a[1], bb, ba, data.hex()))
    r.sample({"ctx_swapped_width": w, "values": len(vals)})


def tryp(f):
    import construct as C
    try:
        return ("ok", f())
    except C.ConstructError as e:
        return ("rej", type(e).__name__)
    except Exception as e:
        return ("foreign", type(e).__name__)


def run_errors(r):
    """out-of-range values and unswappable widths must raise IntegerError on both paths"""
    import construct as C
    cases = []
    for w in (1, 3, 8, 13):
        cases += [(["int", w, False, False], 1 << w), (["int", w, False, False], -1),
                  (["int", w, True, False], 1 << (w - 1)), (["int", w, True, False], -(1 << (w - 1)) - 1)]
    for w in (4, 12):
        cases += [(["int", w, False, True], 1)]
    for m, v in cases:
        fill = (-m[1]) % 8
        layout = [m] + ([["pad", fill]] if fill else [])
        for streaming in (False, True):
            d = mk(layout, streaming)
            name = "streaming" if streaming else "sized"
            r.states += 1
            try:
                d.build({"f0": v})
                res = "returned"
            except C.IntegerError:
                res = "IntegerError"
            except Exception as e:
                res = type(e).__name__
            r.case(key=("err", jkey(m), v, name), outcome=res, validated=1)
            if res != "IntegerError":
                r.violation("C10/out-of-range-build/%s/%s" % (name, res), {"layout": layout, "value": v, "impl": name, "errors": True},
                            "build of %r into %r: %s (expected IntegerError)" % (v, m, res))
            if m[3] and m[1] % 8:
                try:
                    d.parse(bytes((m[1] + fill) // 8))
                    res = "returned"
                except C.IntegerError:
                    res = "IntegerError"
                except Exception as e:
                    res = type(e).__name__
                if res != "IntegerError":
                    r.violation("C10/unswappable-width-parse/%s/%s" % (name, res), {"layout": layout, "value": v, "impl": name, "errors": True}, res)
    r.sample({"error_cases": len(cases)})


def replay(case):
    if case.get("t") == "ctx-swapped":
        r = UnitResult(); run_ctx_swapped(case["width"], r)
        return [v for v in r.violations if v["case"].get("path") == case.get("path") and v["case"].get("data") == case.get("data")] or r.violations[:1]
    if case.get("errors"):
        r = UnitResult(); run_errors(r); return r.violations
    layout, data = case["layout"], case["data"]
    names = [case["impl"]] if case.get("impl") else ["sized", "streaming"]
    impls = []
    for n in names:
        try:
            impls.append((n, mk(layout, n == "streaming")))
        except RuntimeError:
            impls.append((n, mk(layout, True)))
    return check_one(layout, impls, data, None, lsig_of(layout))
