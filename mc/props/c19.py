"""C19 - KSY export describes the same byte layout the construct parses."""
import os, sys, io, itertools
from ..engine import UnitResult, jkey, watchdog, Hang
from .. import ref as R, terms as T, gen as G, ksy as K
from .c03 import chunks

INFO = {
    "rule": "every exportable term of the fragment (all fixed-width integers and floats, Int24, VarInt, Bytes, GreedyBytes, the four string "
            "macros x encodings, Flag, Enum, FlagsEnum, Const, Padding, nested Struct, Array with constant and this-count, GreedyRange, "
            "RepeatUntil, Prefixed x 3 length fields, PrefixedArray, If, IfThenElse, BitStruct, Pointer, NullTerminated variants, "
            "NullStripped, FixedSized, Padded, Rebuild/Default/Hex/HexDump/docs pass-through; depth <=2 quick, <=3 thorough) x up to 4 (quick) / 100 (thorough: every distinct-valued one found among the value domain and all strings over 5 bytes up to length 4) "
            "canonical encodings: export_ksy() is called (the schema dict is captured by a ruamel.yaml stand-in) and interpreted with "
            "Kaitai semantics on the bytes. Oracle: ids appear in declaration order under the member names; every named field has the "
            "byte extent construct uses (from the reference interpreter's read log) and the scalar value construct parses; the total "
            "extent agrees. A schema that is contradictory or omits a layout fact is reported as its own signature. Const over every sub-construct that can encode its value. non-trivial = "
            "schema interpreted to the end and fields compared; distinct = (term, encoding)",
    "bounds": {"quick": {"depth": 2, "inputs": 4, "pool": 60}, "thorough": {"depth": 3, "inputs": 100, "pool": 100}},
    "trusted_base": ["mc/ksy.py (interpreter for the emitted dialect, Kaitai Struct semantics)", "mc/ref.py read log for construct's field extents",
                     "mc/shim/ruamel/yaml.py captures the schema dict (ruamel.yaml is absent; the property is about the dict, not YAML text)"],
    "assumptions": ["member names avoid the exporter's auxiliary ids (x, data, lengthfield, countfield, thenvalue, elsesubcon)"],
}

BYTE = G.BYTE
AUX = {"x", "data", "lengthfield", "countfield", "thenvalue", "elsesubcon"}


def leaves():
    out = []
    for w in (1, 2, 4, 8):
        for s in (False, True):
            for e in "bl":
                out.append(G.I(w, s, e))
    for s in (False, True):
        for e in "bl":
            out.append(G.I(3, s, e))
    for w in (2, 4, 8):
        for e in "bl":
            out.append(["Float", w, e, "name"])
    out += [["VarInt"], ["Bytes", 3], ["Flag"], ["PaddedString", 4, "ascii"], ["PaddedString", 4, "utf8"], ["PascalString", BYTE, "utf8"],
            ["PascalString", G.I(2, False, "l"), "ascii"], ["CString", "ascii"], ["CString", "utf8"],
            ["Enum", BYTE, [["a", 1], ["b", 2]]], ["Enum", G.I(2, False, "l"), [["a", 1], ["big", 300]]], ["Enum", G.I(4, True, "b"), [["neg", -1]]],
            ["FlagsEnum", BYTE, [["a", 1], ["b", 2], ["hi", 128]]], ["FlagsEnum", G.I(2, False, "b"), [["lo", 1], ["top", 0x8000]]],
            ["FlagsEnum", G.I(2, False, "l"), [["lo", 1], ["top", 0x8000]]],
            ["ConstB", b"ab"], ["ConstV", 5, BYTE], ["Rebuild", BYTE, 5], ["Default", G.I(2, False, "b"), 5], ["Hex", G.I(2, False, "b")],
            ["HexDump", ["Bytes", 2]], ["Padded", 4, BYTE, b"\x00"], ["Padded", 4, G.I(2, False, "l"), b"\x00"], ["FixedSized", 4, ["GreedyBytes"]],
            ["FixedSized", 4, ["GreedyString", "utf8"]], ["FixedSized", 4, ["NullStripped", ["GreedyBytes"], b"\x00"]],
            ["NullTerminated", ["GreedyBytes"], b"\x00", False, True, True], ["NullTerminated", ["GreedyBytes"], b"\xff", False, True, True],
            ["NullTerminated", ["GreedyBytes"], b"\x00", True, True, True], ["NullTerminated", ["GreedyBytes"], b"\x00", False, False, True],
            ["NullTerminated", ["GreedyString", "ascii"], b"\x00", False, True, True],
            ["Prefixed", BYTE, ["GreedyBytes"], False], ["Prefixed", G.I(2, False, "l"), ["GreedyBytes"], False], ["Prefixed", ["VarInt"], ["GreedyBytes"], False],
            ["Prefixed", BYTE, ["Struct", [["h0", BYTE], ["h1", ["GreedyBytes"]]]], False],
            ["PrefixedArray", BYTE, G.I(2, False, "b")], ["PrefixedArray", ["VarInt"], BYTE],
            ["Array", 2, G.I(2, False, "l")], ["Array", 3, BYTE], ["Array", 0, BYTE],
            ["RepeatUntil", ["objcmp", "==", 0], BYTE], ["RepeatUntil", ["objcmp", ">", 1], G.I(2, False, "b")],
            ["Bitwise", ["Struct", [["b0", ["BitsInteger", 3, False, False]], ["b1", ["Flag"]], ["b2", ["BitsInteger", 12, False, False]]]]],
            ["Bitwise", ["Struct", [["b0", ["BitsInteger", 1, False, False, "Bit"]], ["b1", ["BitsInteger", 4, False, False, "Nibble"]], [None, ["Padding", 3]]]]],
            ["Bitwise", ["Struct", [["b0", ["BitsInteger", 8, False, False, "Octet"]], ["b1", ["BitsInteger", 16, False, False]]]]],
            ["Bitwise", ["Struct", [["b0", ["BitsInteger", 3, False, False]], ["b1", ["Array", 5, ["Flag"]]]]]],
            ["Bitwise", ["Struct", [["b0", ["Array", 2, ["BitsInteger", 4, False, False]]], ["b1", ["Array", 2, ["Array", 2, ["BitsInteger", 2, False, False]]]]]]],
            ["Bitwise", ["Struct", [["b0", ["BitsInteger", 4, False, False]], ["b1", ["Struct", [["c0", ["Flag"]], ["c1", ["BitsInteger", 3, False, False]]]]]]]],
            ["Bitwise", ["Struct", [["b0", ["Array", 4, ["Struct", [["c0", ["Flag"]], ["c1", ["BitsInteger", 1, False, False, "Bit"]]]]]]]]],
            ["Bitwise", ["Array", 8, ["Flag"]]],
            ["Struct", [["h0", BYTE], ["h1", G.I(2, False, "l")]]],
            ["Pointer", 1, BYTE], ["Pointer", 3, G.I(2, False, "b")]]
    return out


def wide_flags():
    """FlagsEnum over every integer width and byte order, with a flag in every byte of the integer"""
    out = []
    for w in (1, 2, 3, 4, 8):
        for e in "bl":
            flags = [["lo", 1], ["top", 1 << (8 * w - 1)]]
            for byte in range(1, w):
                flags.append(["y%d" % byte, 1 << (8 * byte + 1)])
            out.append(["FlagsEnum", G.I(w, False, e), flags])
    return out


def namers():
    """leaves that declare something schema-global (an enumeration, a sub-type, an instance): every ordered pair of them is
    put into one schema, so a declaration that is shared, shadowed or numbered wrongly shows"""
    return [["Enum", BYTE, [["a", 0], ["b", 1], ["c", 2]]], ["Enum", BYTE, [["u", 0], ["v", 1], ["w", 2]]], ["Enum", BYTE, [["a", 2], ["b", 1], ["c", 0]]],
            ["Enum", G.I(2, False, "l"), [["a", 0], ["b", 1], ["c", 2]]], ["Enum", BYTE, [["p", 1], ["q", 2]]],
            ["FlagsEnum", BYTE, [["a", 1], ["b", 2]]], ["FlagsEnum", BYTE, [["u", 1], ["v", 2]]], ["FlagsEnum", BYTE, [["a", 2], ["b", 1]]],
            ["Struct", [["h0", BYTE], ["h1", G.I(2, False, "l")]]], ["Struct", [["h0", G.I(2, False, "b")], ["h1", BYTE]]],
            ["Prefixed", BYTE, ["Struct", [["h0", BYTE], ["h1", ["GreedyBytes"]]]], False], ["Prefixed", BYTE, ["GreedyBytes"], False],
            ["Pointer", 1, BYTE], ["Pointer", 2, G.I(2, False, "b")],
            ["Bitwise", ["Struct", [["b0", ["BitsInteger", 3, False, False]], ["b1", ["BitsInteger", 5, False, False]]]]],
            ["Bitwise", ["Struct", [["b0", ["BitsInteger", 5, False, False]], ["b1", ["BitsInteger", 3, False, False]]]]],
            ["Array", 2, ["Struct", [["h0", BYTE]]]], ["RepeatUntil", ["objcmp", "==", 0], BYTE], ["PrefixedArray", BYTE, BYTE],
            ["PascalString", BYTE, "utf8"], ["CString", "ascii"],
            # the same singleton / shape at byte level and inside a bit region of one schema
            ["Array", 2, ["Flag"]], ["Bitwise", ["Struct", [["b0", ["Array", 3, ["Flag"]]], ["b1", ["BitsInteger", 5, False, False]]]]],
            ["Array", 2, BYTE], ["Bitwise", ["Array", 8, ["BitsInteger", 1, False, False, "Bit"]]], ["Flag"], ["Padding", 1],
            ["Bitwise", ["Struct", [["b0", ["Flag"]], [None, ["Padding", 7]]]]]]


def greedy_leaves():
    return [["GreedyBytes"], ["GreedyString", "utf8"], ["GreedyRange", BYTE], ["GreedyRange", G.I(2, False, "l")], ["GreedyRange", ["VarInt"]],
            ["GreedyRange", ["Struct", [["h0", BYTE], ["h1", BYTE]]]]]


def shapes(tier):
    out = []
    L = leaves()
    for x in L:
        out.append(["Struct", [["f0", x], ["f1", BYTE]]])
        out.append(["Struct", [["f0", G.I(2, False, "b")], ["f1", x], ["f2", BYTE]]])
    for x in wide_flags():
        out.append(["Struct", [["f0", x], ["f1", BYTE]]])
        out.append(["Struct", [["f0", BYTE], ["f1", ["Array", 2, x]]]])
    N = namers()
    for x in N:
        for y in N:
            out.append(["Struct", [["f0", x], ["f1", y], ["f2", BYTE]]])
    for x in N[:8]:
        for y in N[:8]:
            out.append(["Struct", [["f0", ["Struct", [["g0", x]]]], ["f1", ["Array", 2, y]]]])
    for x in greedy_leaves():
        out.append(["Struct", [["f0", BYTE], ["f1", x]]])
    # context dependent
    for x in [BYTE, G.I(2, False, "l"), ["VarInt"], ["Struct", [["h0", BYTE]]], ["CString", "ascii"]]:
        out.append(["Struct", [["f0", BYTE], ["f1", ["Array", ["this", "f0"], x]], ["f2", BYTE]]])
        out.append(["Struct", [["f0", ["Flag"]], ["f1", ["If", ["this", "f0"], x]], ["f2", BYTE]]])
        out.append(["Struct", [["f0", BYTE], ["f1", ["IfThenElse", ["this", "f0"], x, G.I(2, False, "b")]], ["f2", BYTE]]])
    # conditions around conditions (each level must keep its own `if`), and a condition around a named field
    for x in [BYTE, G.I(2, False, "l"), ["Struct", [["h0", BYTE]]]]:
        out.append(["Struct", [["f0", ["Flag"]], ["f1", ["Flag"]], ["f2", ["If", ["this", "f0"], ["If", ["this", "f1"], x]]], ["f3", BYTE]]])
        out.append(["Struct", [["f0", ["Flag"]], ["f1", ["Flag"]], ["f2", ["If", ["this", "f0"], ["IfThenElse", ["this", "f1"], x, BYTE]]], ["f3", BYTE]]])
        out.append(["Struct", [["f0", ["Flag"]], ["f1", ["Flag"]], ["f2", ["IfThenElse", ["this", "f0"], ["If", ["this", "f1"], x], G.I(2, False, "b")]], ["f3", BYTE]]])
        out.append(["Struct", [["f0", ["Flag"]], ["f2", ["If", ["this", "f0"], ["Renamed", x, "inner"]]], ["f3", BYTE]]])
        out.append(["Struct", [["f0", BYTE], ["f1", ["Flag"]], ["f2", ["If", ["this", "f1"], ["Array", ["this", "f0"], x]]], ["f3", BYTE]]])
    # comparisons over float members (a NaN makes every ordered comparison false: the else branch of both spellings)
    for op in ("<", "<=", ">", ">=", "==", "!="):
        for fl in (["Float", 4, "b", "name"], ["Float", 8, "l", "name"]):
            cond = ["bin", op, ["this", "f0"], ["k", 1.0]]
            out.append(["Struct", [["f0", fl], ["f1", ["IfThenElse", cond, BYTE, G.I(2, False, "b")]], ["f2", BYTE]]])
            out.append(["Struct", [["f0", fl], ["f1", ["If", cond, G.I(2, False, "b")]], ["f2", BYTE]]])
    out.append(["Struct", [["f0", BYTE], ["f1", ["Bytes", ["this", "f0"]]], ["f2", BYTE]]])
    out.append(["Struct", [["f0", BYTE], ["f1", ["FixedSized", ["this", "f0"], ["GreedyBytes"]]], ["f2", BYTE]]])
    out.append(["Struct", [["f0", BYTE], ["f1", ["PaddedString", ["this", "f0"], "ascii"]], ["f2", BYTE]]])
    out.append(["Struct", [["f0", BYTE], ["f1", ["Pointer", ["this", "f0"], BYTE]], ["f2", BYTE]]])
    # constant targets: from the start, and (negative) from the end of the stream
    for off, sub in ((0, BYTE), (2, BYTE), (-1, BYTE), (-2, G.I(2, False, "b")), (-3, ["Bytes", 2])):
        out.append(["Struct", [["f0", BYTE], ["f1", ["Pointer", off, sub]], ["f2", G.I(2, False, "l")]]])
    out.append(["Struct", [[None, ["ConstB", b"MZ"]], ["f0", BYTE], [None, ["Padding", 2]], ["f1", G.I(2, False, "l")]]])
    # constants over every sub-construct that can encode them (the schema's contents are the ENCODING, not the value)
    from .c04 import const_over
    for cv in const_over():
        out.append(["Struct", [["f0", BYTE], [None, cv], ["f1", BYTE]]])
        out.append(["Struct", [["f0", cv], ["f1", G.I(2, False, "b")]]])
    out.append(["Sequence", [["f0", BYTE], ["f1", G.I(2, False, "l")]]])
    out.append(G.I(4, True, "b"))
    out.append(["Array", 2, BYTE])
    if INFO["bounds"][tier]["depth"] >= 2:
        inner = [["Struct", [["g0", x], ["g1", BYTE]]] for x in L[:60:3]]
        for s in inner:
            out.append(["Struct", [["f0", BYTE], ["f1", s], ["f2", BYTE]]])
            out.append(["Struct", [["f0", BYTE], ["f1", ["Array", 2, s]]]])
            out.append(["Struct", [["f0", ["Prefixed", BYTE, s, False]], ["f1", BYTE]]])
    if INFO["bounds"][tier]["depth"] >= 3:
        for x in L:
            out.append(["Struct", [["f0", BYTE], ["f1", ["Struct", [["g0", BYTE], ["g1", ["Struct", [["k0", x], ["k1", BYTE]]]]]]], ["f2", BYTE]]])
            out.append(["Struct", [["f0", BYTE], ["f1", ["Array", ["this", "f0"], ["Struct", [["g0", x], ["g1", BYTE]]]]]]])
    return out


def units(tier):
    return [{"terms": ch} for ch in chunks(shapes(tier), 10)]


def export(d):
    shim = os.path.join(os.path.dirname(os.path.dirname(os.path.abspath(__file__))), "shim")
    if shim not in sys.path:
        sys.path.insert(0, shim)
    import ruamel.yaml as Y
    Y.LAST.clear()
    d.export_ksy()
    return Y.LAST[-1]


SIG = [0x00, 0x01, 0x02, 0x03, 0x61, 0x80, 0xff]


def canon_inputs(t, d, limit=4, pool=60):
    out = []
    seen_vals = set()
    a = G.attrs(t)
    cands = []
    if a.ctxfree:
        try:
            for v, _ in G.values(t):
                try:
                    cands.append(d.build(v))
                except Exception:
                    pass
        except Exception:
            pass
    if t[0] == "Struct" and t[1] and t[1][0][1][0] == "Float":
        # float members: the special values (NaN, infinities, signed zero, subnormal, values around the constants used in conditions)
        import struct as _st
        w, e = t[1][0][1][1], t[1][0][1][2]
        fmt = (">" if e == "b" else "<") + {2: "e", 4: "f", 8: "d"}[w]
        specials = [float("nan"), float("inf"), float("-inf"), -0.0, 0.0, 1.0, 0.5, 1.5, -1.0, 5e-324 if w == 8 else 1e-45 if w == 4 else 6e-8]
        raws = [_st.pack(fmt, x) for x in specials] + [bytes.fromhex("7fc00001" if w == 4 else "7ff8000000000001" if w == 8 else "7e01")[::1 if e == "b" else -1]]
        for fr in raws:
            for n in range(0, 4):
                for tup in itertools.product([0x00, 0x42, 0x99], repeat=n):
                    cands.append(fr + bytes(tup))
    for n in range(0, 7):
        if len(cands) > 4000:
            break
        for tup in itertools.product([0x01, 0x00, 0x02, 0x61, 0x83] if n <= 4 else [0x01, 0x00, 0x02], repeat=n):
            cands.append(bytes(tup))
    for x in cands:
        try:
            s = io.BytesIO(x)
            v = d.parse_stream(s)
            if s.tell() != len(x) and G.attrs(t).extent != "greedy" and "Pointer" not in repr(t):
                continue
            b = d.build(v)
            if b != x:
                continue
            key = repr(T.norm(v))
            if key in seen_vals:
                continue
            seen_vals.add(key)
            out.append(x)
        except Exception:
            continue
        if len(out) >= pool:
            break
    if not out:
        return []
    # pick a diverse few: longest first, then whatever differs in most byte positions from those already chosen
    out.sort(key=lambda b: -len(b))
    chosen = [out[0]]
    if t[0] == "Struct" and t[1] and t[1][0][1][0] == "Float":
        # one encoding per special float value is always kept
        w = t[1][0][1][1]
        byhead = {}
        for b in out:
            byhead.setdefault(b[:w], b)
        chosen = list(dict.fromkeys(chosen + list(byhead.values())[:14]))
        limit = max(limit, len(chosen))
    while len(chosen) < limit and len(chosen) < len(out):
        def dist(b):
            return min(sum(1 for i in range(max(len(b), len(c))) if (b[i:i + 1] != c[i:i + 1])) for c in chosen)
        best = max((b for b in out if b not in chosen), key=dist)
        chosen.append(best)
    return chosen


def construct_fields(t, data):
    """-> {path tuple: (value, start, end)} for every named leaf, extents from the reference read log"""
    log = []
    v, end = R.parse(t, data, log=log)
    ext = {}
    for off, ln, path in log:
        names = tuple(p.strip() for p in path.split("->")[1:])
        ln2 = ln if ln is not None else None
        for i in range(1, len(names) + 1):
            k = names[:i]
            s0, e0 = ext.get(k, (None, None))
            st = off if s0 is None else min(s0, off)
            en_candidate = (off + ln2) if ln2 is not None else None
            ext[k] = (st, en_candidate if e0 is None else (max(e0, en_candidate) if en_candidate is not None else e0))
    return v, end, ext


def flatten(v, prefix=()):
    """construct value -> {path: scalar}"""
    out = {}
    if isinstance(v, dict):
        for k, x in v.items():
            out.update(flatten(x, prefix + (k,)))
    elif isinstance(v, list):
        for i, x in enumerate(v):
            out.update(flatten(x, prefix + (i,)))
    else:
        out[prefix] = v
    return out


def kflatten(v, prefix=()):
    """schema interpretation result -> {path: scalar}; the exporter's auxiliary ids are transparent, its length/count fields dropped"""
    out = {}
    if isinstance(v, dict):
        for k, x in v.items():
            if k in ("lengthfield", "countfield"):
                continue
            if k in AUX or (isinstance(k, str) and k.startswith("?anon")):
                out.update(kflatten(x, prefix))
            else:
                out.update(kflatten(x, prefix + (k,)))
    elif isinstance(v, list):
        for i, x in enumerate(v):
            out.update(kflatten(x, prefix + (i,)))
    else:
        out[prefix] = v
    return out


def const_paths(t, prefix=()):
    out = set()
    k = t[0]
    if k in ("ConstB", "ConstV"):
        out.add(prefix)
    elif k in ("Struct", "Sequence"):
        for i, (n, s) in enumerate(t[1]):
            if n is not None:
                out |= const_paths(s, prefix + ((n,) if k == "Struct" else (i,)))
    elif k == "Array" and isinstance(t[1], int):
        for i in range(t[1]):
            out |= const_paths(t[2], prefix + (i,))
    elif R.child(t) is not None and k not in ("Enum", "FlagsEnum", "Mapping"):
        out |= const_paths(R.child(t), prefix)
    return out


def strip_path(p):
    return tuple(x for x in p if not (isinstance(x, str) and (x in AUX or x.startswith("?anon"))))


def scalar_equal(cv, kv):
    if isinstance(cv, R.Label):
        # an enumeration label: same integer, and where the schema names the member it is the same name
        if not (isinstance(kv, int) and kv == cv.intvalue):
            return False
        return not isinstance(kv, K.EnumValue) or kv.label == str(cv)
    if isinstance(kv, K.EnumValue) and kv.label is not None:
        return False        # the schema names a member where construct returns a bare (unmapped) integer
    if isinstance(cv, bool):
        # Flag is exported as an integer byte (Kaitai has no byte-sized bool): compared by truth value, so a non-canonical
        # flag byte such as 02 (reachable where a Pointer overlaps the field) counts as True on both sides
        return isinstance(kv, int) and bool(kv) == cv
    if isinstance(cv, float):
        return isinstance(kv, float) and (cv == kv or (cv != cv and kv != kv))
    if cv is None:
        return kv in (None, b"", [], {})
    return type(cv) is type(kv) and cv == kv or (isinstance(cv, int) and isinstance(kv, int) and cv == kv)


def check(t, d, schema, data, tsig):
    out = []
    show = T.show(t)
    case = {"term": t, "data": data}
    def bad(kind, detail):
        out.append({"sig": "C19/%s/%s" % (kind, tsig), "case": case, "detail": "%s on %s: %s" % (show, data.hex(), detail)})
    try:
        cv, cend, ext = construct_fields(t, data)
    except Exception as e:
        return "ref-rejects", out
    try:
        with watchdog(3):
            kvals, kfields, kend = K.run(schema, data)
    except K.KsyError as e:
        bad("schema-" + classify(str(e)), "the exported schema cannot be interpreted: %s" % e)
        return "schema-error", out
    except K.KsyEOF:
        bad("schema-reads-past-end", "interpreting the schema runs out of data although construct parses these bytes")
        return "schema-error", out
    except Hang:
        bad("schema-hang", "interpretation did not terminate")
        return "schema-error", out
    except Exception as e:
        bad("schema-uninterpretable-" + type(e).__name__, repr(e))
        return "schema-error", out
    # ids in declaration order
    if t[0] in ("Struct", "Sequence"):
        names = [n for n, _ in t[1] if n is not None]
        ids = [f.get("id") for f in schema["seq"] if f.get("id") is not None]
        if ids != names:
            bad("ids-differ", "seq ids %r, declared member names %r" % (ids, names))
    if t[0] == "Sequence" and isinstance(cv, list):
        cv = {(n if n is not None else i): x for i, ((n, _), x) in enumerate(zip(t[1], cv))}
    cflat = flatten(cv)
    kflat = kflatten(kvals)
    kext = {}
    for f in sorted(kfields, key=lambda f: len(f.path)):
        if any(isinstance(x, str) and x in ("lengthfield", "countfield") for x in f.path):
            continue
        kext.setdefault(strip_path(tuple(f.path)), (f.start, f.end, f.bits))
    consts = const_paths(t)
    for p, val in cflat.items():
        if val is None or p in consts:
            continue        # a Const is stated as `contents`: it was checked by interpreting the schema
        if p not in kflat:
            bad("field-missing", "construct field %s = %r has no counterpart in the schema interpretation (fields: %s)" % (".".join(map(str, p)), val, sorted(map(str, kflat))[:12]))
            continue
        if not scalar_equal(val, kflat[p]):
            bad("value-differs", "field %s: construct parses %r, the schema yields %r" % (".".join(map(str, p)), val, kflat[p]))
    # extents of named members (byte level)
    for p, (st, en) in ext.items():
        if p in kext and not kext[p][2] and en is not None:
            ks, ke, _ = kext[p]
            if (ks, ke) != (st, en) and not _pointer_under(t, p):
                bad("extent-differs", "field %s: construct reads bytes [%d,%d), the schema assigns [%d,%d)" % (".".join(p), st, en, ks, ke))
    if kend != cend and "Pointer" not in repr(t):
        bad("total-extent-differs", "construct consumes %d bytes, the schema %d" % (cend, kend))
    return "ok", out


def _pointer_under(t, p):
    return "Pointer" in repr(t)


def classify(msg):
    if "enum" in msg and "used as a type" in msg:
        return "enum-without-integer-type"
    if "both size and size-eos" in msg:
        return "size-and-size-eos"
    if "terminator combined with size-eos" in msg:
        return "terminator-with-size-eos"
    if "cannot evaluate" in msg:
        return "unevaluable-expression"
    if "contents mismatch" in msg:
        return "contents-mismatch"
    return "error"


def run_unit(unit, tier):
    r = UnitResult()
    import construct as C
    for t in unit["terms"]:
        try:
            d = T.mk(t)
        except Exception:
            continue
        try:
            schema = export(d)
        except C.ConstructError as e:
            r.case(nontrivial=False, outcome="not-exportable", transitions=0)
            continue
        except Exception as e:
            r.states += 1
            r.violation("C19/export-raises-%s/%s" % (type(e).__name__, T.sig_of(t, 3)), {"term": t, "data": b""}, "%s.export_ksy() raised %r" % (T.show(t), e))
            continue
        tsig = T.sig_of(t, 3)
        datas = canon_inputs(t, d, INFO["bounds"][tier]["inputs"], INFO["bounds"][tier]["pool"])
        for data in datas:
            r.states += 1
            oc, vs = check(t, d, schema, data, tsig)
            r.case(nontrivial=oc == "ok", outcome=oc, transitions=2, validated=1)
            for v in vs:
                r.violation(v["sig"], v["case"], v["detail"])
        r.sample({"term": T.show(t), "encodings": [x.hex() for x in datas]}, cap=2)
    return r


def replay(case):
    t = case["term"]
    d = T.mk(t)
    try:
        schema = export(d)
    except Exception as e:
        return [{"sig": "C19/export-raises", "detail": repr(e)}]
    return check(t, d, schema, case["data"], T.sig_of(t, 3))[1]
