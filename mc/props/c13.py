"""C13 - constants, validators and label mappings are enforced in both directions."""
import itertools, enum
from ..engine import UnitResult, jkey, watchdog, Hang

INFO = {
    "rule": "Const (bytes and valued over Byte/Int16ul/VarInt/CString) x every 1-/2-byte input and a supplied-value alphabet; "
            "OneOf/NoneOf/Check/ExprValidator x predicate sets x all 256 byte values (all 65536 two-byte values in thorough) in "
            "both directions; Enum/FlagsEnum/Mapping instances (duplicates, zero flag, multi-bit flag, IntEnum/IntFlag merge, "
            "huge values over VarInt) x all 256 byte values x every label spelling; Error under every composition (depth <=2 quick, "
            "<=3 thorough) of wrappers that execute their child; validators and Check also through the instance compile() returns (when it accepts). non-trivial = the implementation's accept/reject decision (and "
            "value/bytes when accepted) was compared with the predicate; distinct = distinct (instance, direction, value)",
    "bounds": {"quick": {"two_byte_domains": "boundary", "error_depth": 2}, "thorough": {"two_byte_domains": "all 65536", "error_depth": 3}},
    "trusted_base": ["the predicates and tables as written in this module", "LEB128 reference (8 lines)"],
    "assumptions": ["values equal under Python == to a Const's constant count as that constant (True == 1)",
                    "Peek does not build its subcon (documented), so Error under Peek is claimed for parsing only",
                    "a dict label with a falsy value is not 'set' and is not looked up"],
}


def leb128(n):
    out = bytearray()
    while True:
        b = n & 0x7f
        n >>= 7
        if n:
            out.append(b | 0x80)
        else:
            out.append(b)
            return bytes(out)


def outcome(f, timeout=5):
    import construct as C
    try:
        with watchdog(timeout):
            return ("ok", f())
    except Hang:
        return ("hang",)
    except C.ConstructError as e:
        return ("cerr", type(e).__name__)
    except Exception as e:
        return ("foreign", type(e).__name__)


def two_byte_domain(tier):
    if tier == "thorough":
        return range(65536)
    s = set()
    for hi in (0, 1, 2, 0x7f, 0x80, 0xff):
        for lo in range(256):
            s.add(hi << 8 | lo); s.add(lo << 8 | hi)
    return sorted(s)


# --------------------------------------------------------------------------------------

def units(tier):
    us = [{"kind": "const"}, {"kind": "validators", "sub": "Byte"}, {"kind": "validators", "sub": "other"},
          {"kind": "check"}, {"kind": "enum"}, {"kind": "flags"}, {"kind": "mapping"}, {"kind": "validators-derived"}]
    if tier == "thorough":
        us.append({"kind": "validators", "sub": "Int16ul"})
    names = [w[0] for w in parse_wrappers()]
    for n in names:
        us.append({"kind": "error-parse", "outer": n})
    for n in [w[0] for w in build_wrappers()]:
        us.append({"kind": "error-build", "outer": n})
    us.append({"kind": "error-notexecuted"})
    return us


def run_unit(unit, tier):
    r = UnitResult()
    k = unit["kind"]
    if k == "const":
        run_const(tier, r)
    elif k == "validators":
        run_validators(unit["sub"], tier, r)
    elif k == "validators-derived":
        run_validators_derived(r)
    elif k == "check":
        run_check_(tier, r)
    elif k == "enum":
        run_enum(tier, r)
    elif k == "flags":
        run_flags(tier, r)
    elif k == "mapping":
        run_mapping(tier, r)
    elif k == "error-parse":
        run_error_parse(unit["outer"], tier, r)
    elif k == "error-build":
        run_error_build(unit["outer"], tier, r)
    elif k == "error-notexecuted":
        run_error_not_executed(r)
    return r


def V(r, sig, case, detail):
    r.violation("C13/" + sig, case, detail)


# ------------------------------------------------------------------------------- Const

def run_const(tier, r):
    import construct as C
    insts = [
        ("Const(b'ab')", lambda: C.Const(b"ab"), b"ab", b"ab", 2),
        ("Const(b'')", lambda: C.Const(b""), b"", b"", 0),
        ("Const(5,Byte)", lambda: C.Const(5, C.Byte), 5, b"\x05", 1),
        ("Const(0,Byte)", lambda: C.Const(0, C.Byte), 0, b"\x00", 1),
        ("Const(255,Int8ub)", lambda: C.Const(255, C.Int8ub), 255, b"\xff", 1),
        ("Const(-1,Int8sb)", lambda: C.Const(-1, C.Int8sb), -1, b"\xff", 1),
        ("Const(300,Int16ul)", lambda: C.Const(300, C.Int16ul), 300, b"\x2c\x01", 2),
        ("Const(1,Int16ub)", lambda: C.Const(1, C.Int16ub), 1, b"\x00\x01", 2),
        ("Const(127,VarInt)", lambda: C.Const(127, C.VarInt), 127, leb128(127), None),
        ("Const(128,VarInt)", lambda: C.Const(128, C.VarInt), 128, leb128(128), None),
        ("Const(1,VarInt)", lambda: C.Const(1, C.VarInt), 1, leb128(1), None),
        ("Const('hi',CString)", lambda: C.Const("hi", C.CString("ascii")), "hi", b"hi\x00", None),
        ("Const(b'\\x00\\x01',Bytes(2))", lambda: C.Const(b"\x00\x01", C.Bytes(2)), b"\x00\x01", b"\x00\x01", 2),
        ("Const(True,Flag)", lambda: C.Const(True, C.Flag), True, b"\x01", 1),
    ]
    for name, mk, c, enc, size in insts:
        d = mk()
        case0 = {"t": "const", "inst": name}
        # parse: every input of the relevant length(s)
        inputs = []
        if size == 0:
            inputs = [b"", b"\x00"]
        elif size == 1:
            inputs = [bytes([b]) for b in range(256)] + [b""]
        elif size == 2:
            inputs = [v.to_bytes(2, "big") for v in two_byte_domain(tier)] + [b"", b"a"]
        else:
            S = [0, 1, 2, 0x7f, 0x80, 0x81, 0xff, 0x68, 0x69]
            inputs = [bytes(t) for n in range(0, 4) for t in itertools.product(S, repeat=n)]
        sub = d.subcon
        for x in inputs:
            r.states += 1
            # reference: the sub-construct's own reading of x decides the value; Const accepts iff value == c
            subres = outcome(lambda: sub.parse(x))
            got = outcome(lambda: d.parse(x))
            exp_accept = subres[0] == "ok" and subres[1] == c and not (isinstance(c, bool) != isinstance(subres[1], bool) and False)
            r.case(nontrivial=True, outcome="accept" if exp_accept else "reject", validated=1)
            case = dict(case0, op="parse", data=x)
            if got[0] in ("foreign", "hang"):
                V(r, "const/parse-" + got[0], case, "%s.parse(%s): %r" % (name, x.hex(), got))
            elif exp_accept:
                if got != ("ok", c) and not (got[0] == "ok" and got[1] == c):
                    V(r, "const/parse-rejects-constant", case, "%s.parse(%s) = %r, expected %r" % (name, x.hex(), got, c))
            else:
                if got[0] == "ok":
                    V(r, "const/parse-accepts-other", case, "%s.parse(%s) returned %r although the encoded value is not the constant" % (name, x.hex(), got[1]))
                elif subres[0] == "ok" and got[1] != "ConstError":
                    V(r, "const/parse-wrong-error", case, "%s.parse(%s) raised %s, expected ConstError" % (name, x.hex(), got[1]))
        # the canonical encoding parses
        if outcome(lambda: d.parse(enc))[0] != "ok":
            V(r, "const/canonical-rejected", dict(case0, op="parse", data=enc), "%s rejects its own encoding" % name)
        # build: supplied value alphabet
        others = [c, None]
        if isinstance(c, bool):
            others += [False, 0, 2, "x"]
        elif isinstance(c, int):
            others += [c + 1, c - 1, 0 if c else 9, float(c), "x", b"x", True if c != 1 else False]
        elif isinstance(c, bytes):
            others += [c + b"x", c[:-1] if c else b"q", b"zz" if c != b"zz" else b"yy", bytearray(c), "ab", 5]
        else:
            others += [c + "x", "", b"hi", 5]
        for v in others:
            r.states += 1
            try:
                is_const = v is None or v == c
            except Exception:
                is_const = False
            got = outcome(lambda: d.build(v))
            r.case(key=("cb", name, repr(v)), outcome="accept" if is_const else "reject", validated=1)
            case = dict(case0, op="build", value=repr(v))
            if got[0] in ("foreign", "hang"):
                V(r, "const/build-" + got[0], case, "%s.build(%r): %r" % (name, v, got))
            elif is_const:
                if got != ("ok", enc):
                    V(r, "const/build-wrong-bytes", case, "%s.build(%r) = %r, the constant encodes as %s" % (name, v, got, enc.hex()))
            else:
                if got[0] == "ok":
                    V(r, "const/build-accepts-other", case, "%s.build(%r) returned %s instead of refusing" % (name, v, got[1].hex()))
                elif got[1] != "ConstError":
                    V(r, "const/build-wrong-error", case, "%s.build(%r) raised %s" % (name, v, got[1]))
        # inside a struct: omitted member is emitted
        st = C.Struct("a" / C.Byte, "c" / mk(), "b" / C.Byte)
        got = outcome(lambda: st.build(dict(a=1, b=2)))
        if got != ("ok", b"\x01" + enc + b"\x02"):
            V(r, "const/struct-omitted", dict(case0, op="struct"), "struct build gives %r" % (got,))
        r.sample({"const": name, "inputs": len(inputs), "supplied_values": len(others)}, cap=2)
    # "always emits that encoding": the encoding of the constant may depend on the context of the call, so one instance built
    # under every sequence of <= 3 contexts must emit, each time, what a fresh instance emits under that context
    this = C.this
    ctxinsts = [
        ("Const(0x0102, BytesInteger(2, swapped=this.le))", lambda: C.Const(0x0102, C.BytesInteger(2, swapped=this.le)), [dict(le=False), dict(le=True)]),
        ("Const(0x0102, Bitwise(BitsInteger(16, swapped=this.le)))", lambda: C.Const(0x0102, C.Bitwise(C.BitsInteger(16, swapped=this.le))), [dict(le=False), dict(le=True)]),
        ("Const(b'ab', Bytes(this.n))", lambda: C.Const(b"ab", C.Bytes(this.n)), [dict(n=2), dict(n=3)]),
        ("Const(1, BytesInteger(this.n))", lambda: C.Const(1, C.BytesInteger(this.n)), [dict(n=1), dict(n=2), dict(n=4)]),
        ("Const(b'ab', ProcessXor(this.k, Bytes(2)))", lambda: C.Const(b"ab", C.ProcessXor(this.k, C.Bytes(2))), [dict(k=0), dict(k=1), dict(k=0x20)]),
        ("Const(5, IfThenElse(this.w, Int16ub, Byte))", lambda: C.Const(5, C.IfThenElse(this.w, C.Int16ub, C.Byte)), [dict(w=True), dict(w=False)]),
        ("Struct(c/Const(258, BytesInteger(2, swapped=this._params.le)))", lambda: C.Struct("c" / C.Const(258, C.BytesInteger(2, swapped=this._params.le)), "t" / C.Byte), [dict(le=False), dict(le=True)]),
    ]
    for name, mk, ctxs in ctxinsts:
        value = {} if name.startswith("Struct") else None
        if name.startswith("Struct"):
            value = dict(t=7)
        fresh = [outcome(lambda c=c: mk().build(value, **c)) for c in ctxs]
        for n in (1, 2, 3):
            for seq in itertools.product(range(len(ctxs)), repeat=n):
                d = mk()
                r.states += 1
                for step, ci in enumerate(seq):
                    got = outcome(lambda: d.build(value, **ctxs[ci]))
                    if got != fresh[ci]:
                        V(r, "const/encoding-depends-on-earlier-build", {"t": "const", "inst": name, "contexts": [ctxs[i] for i in seq]},
                          "%s built under contexts %r: build #%d gives %r, a fresh instance under %r gives %r" % (name, [ctxs[i] for i in seq], step + 1, got, ctxs[ci], fresh[ci]))
                    elif got[0] == "ok":
                        back = outcome(lambda: d.parse(got[1], **ctxs[ci]))
                        if back[0] != "ok":
                            V(r, "const/own-encoding-refused", {"t": "const", "inst": name, "contexts": [ctxs[i] for i in seq]}, "parse of the emitted %s under %r: %r" % (got[1].hex(), ctxs[ci], back))
                r.case(key=("const-hist", name, seq), nontrivial=True, outcome="const-history", transitions=n, validated=n)
    r.sample({"const_context_histories": [c[0] for c in ctxinsts], "depth": 3})


# -------------------------------------------------------------------------- validators

PRED_SETS = {
    "empty": set(), "zero": {0}, "ff": {255}, "123": {1, 2, 3}, "evens": set(range(0, 256, 2)), "all": set(range(256)),
    "boundary": {0, 127, 128, 255}, "big": {256, 65535, 0x8000},
}


def compiled_twin(d):
    """the instance compile() returns, or None when it refuses or fails (then nothing is claimed)"""
    try:
        with watchdog(10):
            return d.compile()
    except Hang:
        return None
    except Exception:
        return None


def run_validators(sub, tier, r):
    import construct as C
    if sub == "Byte":
        domain = [(bytes([b]), b) for b in range(256)]
        subcon = C.Byte
        sets = ["empty", "zero", "ff", "123", "evens", "all", "boundary"]
    elif sub == "Int16ul":
        domain = [(v.to_bytes(2, "little"), v) for v in two_byte_domain(tier)]
        subcon = C.Int16ul
        sets = ["zero", "123", "big", "evens"]
    else:
        run_validators_other(r)
        return
    for sname in sets:
        S = PRED_SETS[sname]
        variants = [("OneOf", lambda: C.OneOf(subcon, S), lambda v: v in S),
                    ("NoneOf", lambda: C.NoneOf(subcon, S), lambda v: v not in S),
                    ("OneOf-list", lambda: C.OneOf(subcon, sorted(S)), lambda v: v in S),
                    ("ExprValidator-obj_", lambda: C.ExprValidator(subcon, (C.obj_ & 1) == 0), lambda v: v & 1 == 0),
                    ("ExprValidator-lambda", lambda: C.ExprValidator(subcon, lambda obj, ctx: obj in S), lambda v: v in S)]
        if sname != "evens":
            variants = variants[:3] + variants[4:]
        for vname, mk, pred in variants:
            d = mk()
            dc = compiled_twin(d)
            for data, val in domain:
                r.states += 1
                want = pred(val)
                gp = outcome(lambda: d.parse(data))
                gb = outcome(lambda: d.build(val))
                r.case(nontrivial=True, outcome="admit" if want else "refuse", transitions=2, validated=2)
                case = {"t": "validator", "sub": sub, "set": sname, "variant": vname, "value": val}
                ops = [("parse", gp, val), ("build", gb, data)]
                if dc is not None:
                    # the constraint binds the generated code as well: whatever compile() accepts must admit exactly the same values
                    ops += [("compiled-parse", outcome(lambda: dc.parse(data)), val), ("compiled-build", outcome(lambda: dc.build(val)), data)]
                for op, g, okval in ops:
                    if g[0] in ("foreign", "hang"):
                        V(r, "validator/%s-%s" % (op, g[0]), case, "%s(%s,%s) %s %r: %r" % (vname, sub, sname, op, val, g))
                    elif want and g != ("ok", okval):
                        V(r, "validator/%s-refuses-valid" % op, case, "%s(%s,%s) %s of %r gave %r" % (vname, sub, sname, op, val, g))
                    elif not want and g[0] == "ok":
                        V(r, "validator/%s-admits-invalid" % op, case, "%s(%s,%s) %s of %r returned %r" % (vname, sub, sname, op, val, g[1]))
                    elif not want and g[1] != "ValidationError":
                        V(r, "validator/%s-wrong-error" % op, case, "%s raised %s" % (op, g[1]))
            r.sample({"validator": vname, "sub": sub, "set": sname, "values": len(domain)}, cap=2)


def run_validators_other(r):
    import construct as C
    insts = [
        ("OneOf(Bytes(1))", lambda: C.OneOf(C.Bytes(1), {b"a", b"\x00"}), [(bytes([b]), bytes([b])) for b in range(256)], lambda v: v in {b"a", b"\x00"}),
        ("NoneOf(Bytes(1))", lambda: C.NoneOf(C.Bytes(1), [b"a", b"\x00"]), [(bytes([b]), bytes([b])) for b in range(256)], lambda v: v not in {b"a", b"\x00"}),
        ("OneOf(CString)", lambda: C.OneOf(C.CString("ascii"), {"a", "bc", ""}),
         [(s.encode() + b"\0", s) for s in ["", "a", "b", "bc", "abc", "c", "ab", "A"]], lambda v: v in {"a", "bc", ""}),
        ("OneOf(Int8sb)", lambda: C.OneOf(C.Int8sb, {-1, -128, 127}), [(bytes([b]), b - 256 if b > 127 else b) for b in range(256)], lambda v: v in {-1, -128, 127}),
        ("OneOf(VarInt)", lambda: C.OneOf(C.VarInt, {0, 127, 128, 1 << 70}), [(leb128(v), v) for v in [0, 1, 126, 127, 128, 129, 1 << 70, (1 << 70) + 1]],
         lambda v: v in {0, 127, 128, 1 << 70}),
    ]
    # collections whose membership test is not element-wise equality: the predicate is Python's `in` on the very object given
    class Mod3:
        def __contains__(self, x):
            return isinstance(x, int) and x % 3 == 0
        def __iter__(self):
            return iter([0])
    grown = [1, 2]
    bytes1 = [(bytes([b]), bytes([b])) for b in range(256)]
    colls = [
        ("OneOf(Bytes(1), b'RWX')", C.Bytes(1), b"RWX", bytes1, True), ("NoneOf(Bytes(1), b'\\x00\\xff')", C.Bytes(1), b"\x00\xff", bytes1, False),
        ("OneOf(Bytes(2), b'abcd')", C.Bytes(2), b"abcd", [(x, x) for x in (b"ab", b"bc", b"cd", b"ac", b"ad", b"ba", b"aa", b"dc")], True),
        ("OneOf(Bytes(1), bytearray)", C.Bytes(1), bytearray(b"RWX"), bytes1, True),
        ("OneOf(CString, 'abc')", C.CString("ascii"), "abc", [(x.encode() + b"\0", x) for x in ("", "a", "ab", "bc", "ac", "abc", "abcd", "c", "cb")], True),
        ("NoneOf(CString, 'abc')", C.CString("ascii"), "abc", [(x.encode() + b"\0", x) for x in ("", "a", "ab", "bc", "ac", "abc", "abcd", "c", "cb")], False),
        ("OneOf(Byte, range(3,9))", C.Byte, range(3, 9), [(bytes([b]), b) for b in range(256)], True),
        ("NoneOf(Byte, range(0,256,2))", C.Byte, range(0, 256, 2), [(bytes([b]), b) for b in range(256)], False),
        ("OneOf(Byte, dict)", C.Byte, {1: "x", 5: "y"}, [(bytes([b]), b) for b in range(256)], True),
        ("OneOf(Byte, Mod3())", C.Byte, Mod3(), [(bytes([b]), b) for b in range(256)], True),
        ("NoneOf(Byte, Mod3())", C.Byte, Mod3(), [(bytes([b]), b) for b in range(256)], False),
        ("OneOf(Byte, list grown later)", C.Byte, grown, [(bytes([b]), b) for b in range(256)], True),
        ("OneOf(Byte, tuple)", C.Byte, (4, 5, 6), [(bytes([b]), b) for b in range(256)], True),
        ("OneOf(Byte, frozenset)", C.Byte, frozenset((4, 5, 6)), [(bytes([b]), b) for b in range(256)], True),
        ("OneOf(Byte, [True])", C.Byte, [True], [(bytes([b]), b) for b in range(4)], True),
    ]
    for name, sub, coll, domain, positive in colls:
        d = (C.OneOf if positive else C.NoneOf)(sub, coll)
        if coll is grown:
            grown.append(7)
        insts.append((name, (lambda d=d: d), domain, (lambda v, coll=coll, positive=positive: (v in coll) == positive)))
    for name, mk, domain, pred in insts:
        d = mk()
        for data, val in domain:
            r.states += 1
            want = pred(val)
            r.case(nontrivial=True, outcome="admit" if want else "refuse", transitions=2, validated=2)
            case = {"t": "validator-other", "inst": name, "value": repr(val)}
            for op, g, okval in (("parse", outcome(lambda: d.parse(data)), val), ("build", outcome(lambda: d.build(val)), data)):
                if g[0] in ("foreign", "hang"):
                    V(r, "validator/%s-%s" % (op, g[0]), case, "%s %s %r: %r" % (name, op, val, g))
                elif want and g != ("ok", okval):
                    V(r, "validator/%s-refuses-valid" % op, case, "%s %s of %r gave %r" % (name, op, val, g))
                elif not want and g[0] == "ok":
                    V(r, "validator/%s-admits-invalid" % op, case, "%s %s of %r returned %r" % (name, op, val, g[1]))
        r.sample({"validator": name, "values": len(domain)}, cap=2)


def run_validators_derived(r):
    """validators (and Mapping/Enum) over fields that make up their own value when built from nothing (Default, Const, Rebuild):
    whatever build serialises, the same construct must admit on parse - for every derived value inside and outside the predicate,
    built directly from None and as a Struct member whose key is absent"""
    import construct as C
    subs = {"Default": lambda v: C.Default(C.Byte, v), "Const": lambda v: C.Const(v, C.Byte), "Rebuild": lambda v: C.Rebuild(C.Byte, v),
            "Rebuild-expr": lambda v: C.Rebuild(C.Byte, C.this._params.k + v), "Default(Default)": lambda v: C.Default(C.Default(C.Byte, 0), v)}
    S = [1, 2, 3]
    vals = [C.OneOf, C.NoneOf]
    makers = {
        "OneOf": lambda sub: C.OneOf(sub, S), "NoneOf": lambda sub: C.NoneOf(sub, S), "OneOf-set": lambda sub: C.OneOf(sub, set(S)),
        "ExprValidator": lambda sub: C.ExprValidator(sub, C.obj_ < 3), "ExprValidator-lambda": lambda sub: C.ExprValidator(sub, lambda obj, ctx: obj in S),
        "Mapping": lambda sub: C.Mapping(sub, {"a": 1, "b": 2}), "Enum": lambda sub: C.Enum(sub, a=1, b=2),
        "OneOf(Hex)": lambda sub: C.OneOf(C.Hex(sub), S),
    }
    for sname, mksub in subs.items():
        for vname, mkval in makers.items():
            for v in (0, 1, 2, 3, 4, 9, 255):
                d = mkval(mksub(v))
                for form, build, parse in (("direct", lambda: d.build(None, k=0), lambda b: d.parse(b, k=0)),
                                           ("struct-member", lambda: C.Struct("m" / d).build({}, k=0), lambda b: C.Struct("m" / d).parse(b, k=0)),
                                           ("struct-none", lambda: C.Struct("m" / d).build({"m": None}, k=0), lambda b: C.Struct("m" / d).parse(b, k=0))):
                    r.states += 1
                    g = outcome(build)
                    case = {"t": "validator-derived", "sub": sname, "validator": vname, "value": v, "form": form}
                    if g[0] == "hang":
                        V(r, "validator-derived/build-hang", case, "%s(%s(%d)) %s build from nothing did not terminate" % (vname, sname, v, form))
                        continue
                    # (a predicate applied to None may raise, e.g. None < 3: that is the user's expression, no claim)
                    if g[0] != "ok":
                        r.case(nontrivial=True, outcome="build-refuses", transitions=1, validated=1)
                        continue
                    back = outcome(lambda: parse(g[1]))
                    r.case(nontrivial=True, outcome="build-emits", transitions=2, validated=2)
                    if back[0] != "ok" and vname not in ("Enum",):
                        V(r, "validator-derived/build-serialises-what-parse-refuses/%s" % vname.split("-")[0].split("(")[0], case,
                          "%s(%s(%d)) built from nothing (%s) emits %s, which the same construct refuses to parse: %r" % (vname, sname, v, form, g[1].hex(), back))
    r.sample({"validators_over_derived_fields": sorted(makers), "derived": sorted(subs), "values": [0, 1, 2, 3, 4, 9, 255]})


def run_check_(tier, r):
    import construct as C
    this = C.this
    preds = [
        ("this.a == 5", lambda: this.a == 5, lambda a, k: a == 5),
        ("this.a > 3", lambda: this.a > 3, lambda a, k: a > 3),
        ("(this.a & 1) == 0", lambda: (this.a & 1) == 0, lambda a, k: a & 1 == 0),
        ("this.a != this._params.k", lambda: this.a != this._params.k, lambda a, k: a != k),
        ("this.a % 3", lambda: this.a % 3, lambda a, k: bool(a % 3)),
        ("~(this.a < 128)", lambda: ~(this.a < 128), lambda a, k: not (a < 128)),
        ("lambda", lambda: (lambda ctx: ctx.a * 2 < ctx._params.k), lambda a, k: a * 2 < k),
        # falsy answers other than False: None (a lookup that found nothing), 0, empty string / list
        ("lambda -> None", lambda: (lambda ctx: (ctx.a > 3) or None), lambda a, k: a > 3),
        ("lambda -> dict.get", lambda: (lambda ctx: {5: "five", 6: ""}.get(ctx.a)), lambda a, k: a == 5),
        ("lambda -> list", lambda: (lambda ctx: [ctx.a] * (ctx.a & 1)), lambda a, k: a & 1 == 1),
        ("True", lambda: True, lambda a, k: True),
        ("False", lambda: False, lambda a, k: False),
    ]
    for pname, mkp, pred in preds:
        d = C.Struct("a" / C.Byte, C.Check(mkp()), "z" / C.Byte)
        dc = compiled_twin(d)
        for a in range(256):
            for k in (7, 200):
                r.states += 1
                want = pred(a, k)
                gp = outcome(lambda: d.parse(bytes([a, 9]), k=k))
                gb = outcome(lambda: d.build(dict(a=a, z=9), k=k))
                r.case(nontrivial=True, outcome="admit" if want else "refuse", transitions=2, validated=2)
                case = {"t": "check", "pred": pname, "a": a, "k": k}
                ops = [("parse", gp), ("build", gb)]
                if dc is not None:
                    ops += [("compiled-parse", outcome(lambda: dc.parse(bytes([a, 9]), k=k))), ("compiled-build", outcome(lambda: dc.build(dict(a=a, z=9), k=k)))]
                for op, g in ops:
                    if g[0] in ("foreign", "hang"):
                        V(r, "check/%s-%s" % (op, g[0]), case, "Check(%s) %s a=%d: %r" % (pname, op, a, g))
                    elif want and g[0] != "ok":
                        V(r, "check/%s-refuses-valid" % op, case, "Check(%s) %s a=%d: %r" % (pname, op, a, g))
                    elif not want and g[0] == "ok":
                        V(r, "check/%s-admits-invalid" % op, case, "Check(%s) %s a=%d returned" % (pname, op, a))
                    elif not want and g[1] != "CheckError":
                        V(r, "check/%s-wrong-error" % op, case, "raised %s" % g[1])
                if want and gp[0] == "ok" and (gp[1].a != a or gp[1].z != 9 or gb != ("ok", bytes([a, 9]))):
                    V(r, "check/value-changed", case, "%r %r" % (gp, gb))
        r.sample({"check": pname, "values": 256, "k": [7, 200]}, cap=2)


# --------------------------------------------------------------------------- mappings

class E1(enum.IntEnum):
    one = 1
    two = 2
    big = 200


class F1(enum.IntFlag):
    r = 4
    w = 2
    x = 1


def run_enum(tier, r):
    import construct as C
    insts = [
        ("Enum(Byte,a=1,b=2)", lambda: C.Enum(C.Byte, a=1, b=2), {"a": 1, "b": 2}, "byte"),
        ("Enum(Byte)", lambda: C.Enum(C.Byte), {}, "byte"),
        ("Enum(Byte,a=1,c=1,z=0,m=255)", lambda: C.Enum(C.Byte, a=1, c=1, z=0, m=255), {"a": 1, "c": 1, "z": 0, "m": 255}, "byte"),
        ("Enum(Byte,E1)", lambda: C.Enum(C.Byte, E1), {"one": 1, "two": 2, "big": 200}, "byte"),
        ("Enum(Byte,E1,extra=7)", lambda: C.Enum(C.Byte, E1, extra=7), {"extra": 7, "one": 1, "two": 2, "big": 200}, "byte"),
        ("Enum(Int8sb,neg=-1,min=-128)", lambda: C.Enum(C.Int8sb, neg=-1, min=-128), {"neg": -1, "min": -128}, "sbyte"),
        ("Enum(Int16ul,a=256,b=1)", lambda: C.Enum(C.Int16ul, a=256, b=1), {"a": 256, "b": 1}, "u16"),
        ("Enum(VarInt,huge=2**100,a=1)", lambda: C.Enum(C.VarInt, huge=2 ** 100, a=1), {"huge": 2 ** 100, "a": 1}, "varint"),
    ]
    for name, mk, mapping, dom in insts:
        d = mk()
        rev = {}
        for k, v in mapping.items():
            rev[v] = k          # last label wins on parse
        if dom == "byte":
            domain = [(bytes([b]), b) for b in range(256)]
        elif dom == "sbyte":
            domain = [(bytes([b]), b - 256 if b > 127 else b) for b in range(256)]
        elif dom == "u16":
            domain = [(v.to_bytes(2, "little"), v) for v in two_byte_domain(tier)]
        else:
            domain = [(leb128(v), v) for v in [0, 1, 2, 127, 128, 2 ** 64, 2 ** 100 - 1, 2 ** 100, 2 ** 100 + 1, 2 ** 200]]
        for data, val in domain:
            r.states += 1
            g = outcome(lambda: d.parse(data))
            r.case(nontrivial=True, outcome="mapped" if val in rev else "unmapped", transitions=2, validated=2)
            case = {"t": "enum", "inst": name, "value": val}
            if g[0] != "ok":
                V(r, "enum/parse-raised", case, "%s.parse(%s): %r" % (name, data.hex(), g)); continue
            obj = g[1]
            if val in rev:
                if not (isinstance(obj, str) and str(obj) == rev[val] and int(obj) == val and obj == rev[val]):
                    V(r, "enum/parse-wrong-label", case, "%s.parse(%s) = %r, expected label %r with int %d" % (name, data.hex(), obj, rev[val], val))
            else:
                if not (isinstance(obj, int) and not isinstance(obj, bool) and int(obj) == val and not isinstance(obj, str)):
                    V(r, "enum/parse-unmapped-not-preserved", case, "%s.parse(%s) = %r, expected integer %d" % (name, data.hex(), obj, val))
            # the parse result builds back to the same bytes; so does the plain integer
            for spelled, v in (("parse-result", obj), ("int", val)):
                b = outcome(lambda: d.build(v))
                if b != ("ok", data):
                    V(r, "enum/build-%s-differs" % spelled, case, "%s.build(%r) = %r, expected %s" % (name, v, b, data.hex()))
        # labels
        sub = d.subcon
        for label, val in mapping.items():
            want = outcome(lambda: sub.build(val))
            # a label object is a str: it is looked up by name, whatever integer it carries (e.g. a label parsed by another Enum)
            spellings = [("str", label), ("attr", getattr(d, label)), ("EnumIntegerString", C.EnumIntegerString.new(val, label)),
                         ("foreign-label-object", C.EnumIntegerString.new(val + 1, label)), ("foreign-label-object-0", C.EnumIntegerString.new(0, label)),
                         ("str-subclass", type("S", (str,), {})(label))]
            for sp, v in spellings:
                r.states += 1
                b = outcome(lambda: d.build(v))
                r.case(key=("enum-label", name, label, sp), outcome="label", validated=1)
                if b != want:
                    V(r, "enum/build-label-differs", {"t": "enum", "inst": name, "label": label, "spelling": sp},
                      "%s.build(%r as %s) = %r, expected %r" % (name, label, sp, b, want))
        if "E1" in name:
            for m in E1:
                b = outcome(lambda: d.build(m))
                r.case(key=("enum-member", name, m.name), outcome="label", validated=1)
                if b != ("ok", bytes([m.value])):
                    V(r, "enum/build-intenum-member", {"t": "enum", "inst": name, "label": m.name, "spelling": "IntEnum"}, repr(b))
        for bad in ("nope", "", "A", b"a", 1.5, None, ("a",), C.EnumIntegerString.new(1, "nope"), C.EnumIntegerString.new(2, "A"),
                    C.Enum(C.Byte, other=1).other):
            if bad in mapping:
                continue
            r.states += 1
            b = outcome(lambda: d.build(bad))
            r.case(key=("enum-unknown", name, repr(bad)), outcome="unknown", validated=1)
            if b[0] == "ok":
                V(r, "enum/build-accepts-unknown-label", {"t": "enum", "inst": name, "label": repr(bad)}, "%s.build(%r) returned %r" % (name, bad, b[1]))
            elif b[0] != "cerr" or b[1] != "MappingError":
                V(r, "enum/build-unknown-label-wrong-error", {"t": "enum", "inst": name, "label": repr(bad)}, "%s.build(%r): %r (expected MappingError)" % (name, bad, b))
        r.sample({"enum": name, "domain": len(domain), "labels": list(mapping)}, cap=2)


def run_flags(tier, r):
    import construct as C
    insts = [
        ("FlagsEnum(Byte,a=1,b=2,c=4)", lambda: C.FlagsEnum(C.Byte, a=1, b=2, c=4), {"a": 1, "b": 2, "c": 4}, "byte"),
        ("FlagsEnum(Byte,z=0,m=6,hi=128,a=1)", lambda: C.FlagsEnum(C.Byte, z=0, m=6, hi=128, a=1), {"z": 0, "m": 6, "hi": 128, "a": 1}, "byte"),
        ("FlagsEnum(Byte)", lambda: C.FlagsEnum(C.Byte), {}, "byte"),
        ("FlagsEnum(Byte,F1)", lambda: C.FlagsEnum(C.Byte, F1), {"r": 4, "w": 2, "x": 1}, "byte"),
        ("FlagsEnum(Byte,F1,rwx=7)", lambda: C.FlagsEnum(C.Byte, F1, rwx=7), {"rwx": 7, "r": 4, "w": 2, "x": 1}, "byte"),
        ("FlagsEnum(Int16ul,lo=1,hi=0x8000,mid=0x0180)", lambda: C.FlagsEnum(C.Int16ul, lo=1, hi=0x8000, mid=0x0180), {"lo": 1, "hi": 0x8000, "mid": 0x0180}, "u16"),
        ("FlagsEnum(VarInt,huge=1<<70,a=1)", lambda: C.FlagsEnum(C.VarInt, huge=1 << 70, a=1), {"huge": 1 << 70, "a": 1}, "varint"),
    ]
    for name, mk, flags, dom in insts:
        d = mk()
        sub = d.subcon
        if dom == "byte":
            domain = [(bytes([b]), b) for b in range(256)]
        elif dom == "u16":
            domain = [(v.to_bytes(2, "little"), v) for v in two_byte_domain(tier)]
        else:
            domain = [(leb128(v), v) for v in [0, 1, 2, 3, 1 << 70, (1 << 70) | 1, (1 << 71), (1 << 100) | (1 << 70)]]
        for data, val in domain:
            r.states += 1
            want = {k: (val & f) == f for k, f in flags.items()}
            g = outcome(lambda: d.parse(data))
            r.case(nontrivial=True, outcome="flags", transitions=3, validated=3)
            case = {"t": "flags", "inst": name, "value": val}
            if g[0] != "ok":
                V(r, "flags/parse-raised", case, "%s.parse(%s): %r" % (name, data.hex(), g)); continue
            obj = g[1]
            got = {k: v for k, v in dict.items(obj) if not k.startswith("_")}
            if got != want or [k for k in got] != list(flags) or any(type(v) is not bool for v in got.values()):
                V(r, "flags/parse-differs", case, "%s.parse(%s) = %r, expected %r" % (name, data.hex(), got, want))
            # integer passes through unchanged
            b = outcome(lambda: d.build(val))
            if b != ("ok", data):
                V(r, "flags/build-int-differs", case, "%s.build(%d) = %r" % (name, val, b))
            # parse result (and equal plain dict) builds to the OR of the set flags
            orv = 0
            for k, f in flags.items():
                if want[k]:
                    orv |= f
            wantb = outcome(lambda: sub.build(orv))
            for sp, v in (("parse-result", obj), ("dict", dict(want)), ("dict+private", dict(want, _x=1, _flagsenum=True))):
                b = outcome(lambda: d.build(v))
                if b != wantb:
                    V(r, "flags/build-%s-differs" % sp, case, "%s.build(%r) = %r, expected %r" % (name, v, b, wantb))
        # label spellings: every subset of labels as "a|b", with spaces and empty parts, dict, attribute |
        labels = list(flags)
        for n in range(0, len(labels) + 1):
            for combo in itertools.permutations(labels, n) if n <= 2 else itertools.combinations(labels, n):
                orv = 0
                for k in combo:
                    orv |= flags[k]
                wantb = outcome(lambda: sub.build(orv))
                spellings = [("a|b", "|".join(combo)), ("spaces", " | ".join(combo) + " "), ("empty-parts", "||".join(combo) + "|"),
                             ("dict", {k: True for k in combo}), ("dict-mixed", dict({k: 1 for k in combo}, **{k: 0 for k in labels if k not in combo}))]
                if combo:
                    x = getattr(d, combo[0])
                    for k in combo[1:]:
                        x = x | getattr(d, k)
                    spellings.append(("attr|", x))
                for sp, v in spellings:
                    r.states += 1
                    b = outcome(lambda: d.build(v))
                    r.case(key=("flags-label", name, combo, sp), outcome="labels", validated=1)
                    if b != wantb:
                        V(r, "flags/build-labels-differs", {"t": "flags", "inst": name, "labels": list(combo), "spelling": sp},
                          "%s.build(%r) = %r, expected %r" % (name, v, b, wantb))
        for bad in ("nope", "a|nope", {"nope": True}, {"a": True, "nope": 1}, 1.5, None, ["a"], b"a"):
            if isinstance(bad, str) and all(p.strip() in flags or not p.strip() for p in bad.split("|")):
                continue
            if isinstance(bad, dict) and all(k in flags for k in bad):
                continue
            r.states += 1
            b = outcome(lambda: d.build(bad))
            r.case(key=("flags-unknown", name, repr(bad)), outcome="unknown", validated=1)
            if b[0] == "ok":
                V(r, "flags/build-accepts-unknown-label", {"t": "flags", "inst": name, "label": repr(bad)}, "%s.build(%r) returned %r" % (name, bad, b[1]))
            elif b != ("cerr", "MappingError"):
                V(r, "flags/build-unknown-label-wrong-error", {"t": "flags", "inst": name, "label": repr(bad)}, "%s.build(%r): %r" % (name, bad, b))
        # a falsy entry for an unknown label is never looked up (documented behaviour of the dict form)
        r.sample({"flagsenum": name, "domain": len(domain), "labels": labels}, cap=2)


def run_mapping(tier, r):
    import construct as C
    insts = [
        ("Mapping(Byte,{x:1,y:2})", lambda: C.Mapping(C.Byte, {"x": 1, "y": 2}), {"x": 1, "y": 2}),
        ("Mapping(Byte,{x:1,dup:1,z:0})", lambda: C.Mapping(C.Byte, {"x": 1, "dup": 1, "z": 0}), {"x": 1, "dup": 1, "z": 0}),
        ("Mapping(Byte,{})", lambda: C.Mapping(C.Byte, {}), {}),
        ("Mapping(Byte,{True:1,False:0,None:255})", lambda: C.Mapping(C.Byte, {True: 1, False: 0, None: 255}), {True: 1, False: 0, None: 255}),
        ("Mapping(Byte,{b'k':7,5:5})", lambda: C.Mapping(C.Byte, {b"k": 7, 5: 5}), {b"k": 7, 5: 5}),
    ]
    for name, mk, mapping in insts:
        d = mk()
        rev = {}
        for k, v in mapping.items():
            rev[v] = k
        for b in range(256):
            r.states += 1
            g = outcome(lambda: d.parse(bytes([b])))
            r.case(nontrivial=True, outcome="mapped" if b in rev else "unmapped", validated=1)
            case = {"t": "mapping", "inst": name, "value": b}
            if b in rev:
                if g[0] != "ok" or g[1] != rev[b] or type(g[1]) is not type(rev[b]):
                    V(r, "mapping/parse-differs", case, "%s.parse(%02x) = %r, expected %r" % (name, b, g, rev[b]))
                elif outcome(lambda: d.build(g[1])) != ("ok", bytes([b])):
                    V(r, "mapping/rebuild-differs", case, "build(parse(%02x)) differs" % b)
            else:
                if g[0] == "ok":
                    V(r, "mapping/parse-accepts-unmapped", case, "%s.parse(%02x) returned %r" % (name, b, g[1]))
                elif g != ("cerr", "MappingError"):
                    V(r, "mapping/parse-wrong-error", case, "%s.parse(%02x): %r" % (name, b, g))
        for k, v in mapping.items():
            r.states += 1
            g = outcome(lambda: d.build(k))
            r.case(key=("map-label", name, repr(k)), outcome="label", validated=1)
            if g != ("ok", bytes([v])):
                V(r, "mapping/build-label-differs", {"t": "mapping", "inst": name, "label": repr(k)}, "%s.build(%r) = %r" % (name, k, g))
        for bad in ("nope", 77, 1.5, ["x"], {"x": 1}, b"zz"):
            if bad.__hash__ is not None and bad in mapping:
                continue
            r.states += 1
            g = outcome(lambda: d.build(bad))
            r.case(key=("map-unknown", name, repr(bad)), outcome="unknown", validated=1)
            if g[0] == "ok":
                V(r, "mapping/build-accepts-unknown", {"t": "mapping", "inst": name, "label": repr(bad)}, "%s.build(%r) returned %r" % (name, bad, g[1]))
            elif g != ("cerr", "MappingError"):
                V(r, "mapping/build-unknown-wrong-error", {"t": "mapping", "inst": name, "label": repr(bad)}, "%s.build(%r): %r" % (name, bad, g))
        r.sample({"mapping": name, "domain": 256}, cap=2)


# ------------------------------------------------------------------------------- Error

# descending so that nested length prefixes always describe a region that exists
DATA = bytes([12, 10, 8, 6, 4, 2, 1, 1, 1, 1, 1, 1, 1, 1])


def parse_wrappers():
    """(name, wrap(X) -> construct that executes X when parsing DATA-like input)"""
    import construct as C
    return [
        ("Select(X)", lambda X: C.Select(X)),
        ("Select(Const-miss,X)", lambda X: C.Select(C.Const(b"\xff"), X)),
        ("Select(X,Byte)", lambda X: C.Select(X, C.Byte)),
        ("Optional(X)", lambda X: C.Optional(X)),
        ("GreedyRange(X)", lambda X: C.GreedyRange(X)),
        ("GreedyRange(Struct(Byte,X))", lambda X: C.GreedyRange(C.Struct("a" / C.Byte, "m" / X))),
        ("Select(Byte,X)", lambda X: C.Select(C.Byte, X)),
        ("Peek(X)", lambda X: C.Peek(X)),
        ("Peek(Struct(Short,X))", lambda X: C.Peek(C.Struct("a" / C.Short, "m" / X))),
        ("If(this._params.get('c'),X)", lambda X: C.If(lambda ctx: ctx._params.get("c"), X)),
        ("If(True,X)", lambda X: C.If(True, X)),
        ("IfThenElse(False,Byte,X)", lambda X: C.IfThenElse(False, C.Byte, X)),
        ("Switch(1,{1:X})", lambda X: C.Switch(1, {1: X})),
        ("Switch(9,{1:Byte},X)", lambda X: C.Switch(9, {1: C.Byte}, default=X)),
        ("Union(None,m/X)", lambda X: C.Union(None, "m" / X)),
        ("Union(0,a/Byte,m/X)", lambda X: C.Union(0, "a" / C.Byte, "m" / X)),
        ("Array(2,X)", lambda X: C.Array(2, X)),
        ("RepeatUntil(True,X)", lambda X: C.RepeatUntil(True, X)),
        ("Prefixed(Byte,X)", lambda X: C.Prefixed(C.Byte, X)),
        ("FixedSized(2,X)", lambda X: C.FixedSized(2, X)),
        ("Padded(3,X)", lambda X: C.Padded(3, X)),
        ("Aligned(2,X)", lambda X: C.Aligned(2, X)),
        ("Struct(a/Byte,m/X)", lambda X: C.Struct("a" / C.Byte, "m" / X)),
        ("Sequence(X,Byte)", lambda X: C.Sequence(X, C.Byte)),
        ("FocusedSeq(m,m/X)", lambda X: C.FocusedSeq("m", "m" / X)),
        ("Renamed", lambda X: "n" / X),
        ("Default(X,0)", lambda X: C.Default(X, 0)),
        ("RawCopy(X)", lambda X: C.RawCopy(X)),
        ("Pointer(-1,X)", lambda X: C.Pointer(-1, X)),
        ("NullTerminated(X,require=False)", lambda X: C.NullTerminated(X, require=False)),
    ]


def build_wrappers():
    """(name, wrap(X), value(v)) - constructs that execute X when building value(v)"""
    import construct as C
    return [
        ("Select(X)", lambda X: C.Select(X), lambda v: v),
        ("Select(Const-miss,X)", lambda X: C.Select(C.OneOf(C.Byte, [250]), X), lambda v: v),
        ("Optional(X)", lambda X: C.Optional(X), lambda v: v),
        ("GreedyRange(X)", lambda X: C.GreedyRange(X), lambda v: [v]),
        ("If(True,X)", lambda X: C.If(True, X), lambda v: v),
        ("IfThenElse(False,Byte,X)", lambda X: C.IfThenElse(False, C.Byte, X), lambda v: v),
        ("Switch(1,{1:X})", lambda X: C.Switch(1, {1: X}), lambda v: v),
        ("Switch(9,{1:Byte},X)", lambda X: C.Switch(9, {1: C.Byte}, default=X), lambda v: v),
        ("Union(None,m/X)", lambda X: C.Union(None, "m" / X), lambda v: {"m": v}),
        ("Array(2,X)", lambda X: C.Array(2, X), lambda v: [v, v]),
        ("RepeatUntil(True,X)", lambda X: C.RepeatUntil(True, X), lambda v: [v]),
        ("Prefixed(Byte,X)", lambda X: C.Prefixed(C.Byte, X), lambda v: v),
        ("FixedSized(2,X)", lambda X: C.FixedSized(2, X), lambda v: v),
        ("Padded(3,X)", lambda X: C.Padded(3, X), lambda v: v),
        ("Aligned(2,X)", lambda X: C.Aligned(2, X), lambda v: v),
        ("Struct(a/Byte,m/X)", lambda X: C.Struct("a" / C.Byte, "m" / X), lambda v: {"a": 1, "m": v}),
        ("Sequence(X,Byte)", lambda X: C.Sequence(X, C.Byte), lambda v: [v, 1]),
        ("FocusedSeq(m,m/X)", lambda X: C.FocusedSeq("m", "m" / X), lambda v: v),
        ("Renamed", lambda X: "n" / X, lambda v: v),
        ("Default(X,0)", lambda X: C.Default(X, 0), lambda v: v),
        ("Rebuild(X,f)", None, lambda v: v),
        ("RawCopy(X)", lambda X: C.RawCopy(X), lambda v: {"value": v}),
        ("Pointer(0,X)", lambda X: C.Pointer(0, X), lambda v: v),
        ("NullTerminated(X)", lambda X: C.NullTerminated(X), lambda v: v),
    ]


def _build_chain(chain, leaf):
    import construct as C
    d, v = leaf, None
    for w in reversed(chain):
        if w[1] is None:        # Rebuild: computes the value its child needs
            d = C.Rebuild(d, (lambda vv: (lambda ctx: vv))(v))
        else:
            d = w[1](d)
        v = w[2](v)
    return d, v


def _compose(ws, depth):
    for combo in itertools.product(ws, repeat=depth):
        yield combo


DATAS = [DATA, b"\x01" * 12, b"\x02\x00\x01", b""]


class Reached(BaseException):
    """raised by the probe: like Error it aborts the run, but nothing in the library may catch it"""


def mk_probe(log):
    """zero-width stand-in with Error's flags: records that it was executed and aborts the run"""
    import construct as C

    class Probe(C.Construct):
        def __init__(self):
            super().__init__()
            self.flagbuildnone = True

        def _parse(self, stream, context, path):
            log.append("p")
            raise Reached()

        def _build(self, obj, stream, context, path):
            log.append("b")
            raise Reached()

        def _sizeof(self, context, path):
            raise C.SizeofError(path=path)
    return Probe()


def _parse_chain(chain, leaf):
    d = leaf
    for w in reversed(chain):
        d = w[1](d)
    return d


def judge_error(op, names, executed, g, data_desc):
    """the oracle: ExplicitError escapes iff the field in Error's position is executed"""
    if executed and g != ("cerr", "ExplicitError"):
        return [{"sig": "C13/error/%s-not-aborted/" % op + "/".join(n.split("(")[0] for n in names[:2]),
                 "detail": "%s through %s on %s: the field in Error's position is executed, but the outcome is %r (expected ExplicitError)"
                           % (op, " > ".join(names), data_desc, g)}]
    if not executed and g == ("cerr", "ExplicitError"):
        return [{"sig": "C13/error/%s-fired-unexecuted/" % op + "/".join(n.split("(")[0] for n in names[:2]),
                 "detail": "%s through %s on %s: ExplicitError although the field is never executed" % (op, " > ".join(names), data_desc)}]
    if g[0] in ("foreign", "hang") and executed:
        return [{"sig": "C13/error/%s-%s" % (op, g[0]), "detail": repr(g)}]
    return []


def error_parse_case(chain, data):
    import construct as C
    names = [w[0] for w in chain]
    log = []
    try:
        outcome(lambda: _parse_chain(chain, mk_probe(log)).parse(data), 0.25)
    except Reached:
        pass
    g = outcome(lambda: _parse_chain(chain, C.Error).parse(data), 0.25)
    return bool(log), g, judge_error("parse", names, bool(log), g, data.hex())


def error_build_case(chain):
    import construct as C
    names = [w[0] for w in chain]
    log = []
    d, v = _build_chain(chain, mk_probe(log))
    try:
        outcome(lambda: d.build(v))
    except Reached:
        pass
    d, v = _build_chain(chain, C.Error)
    g = outcome(lambda: d.build(v))
    return bool(log), g, judge_error("build", names, bool(log), g, repr(v))


def run_error_parse(outer, tier, r):
    ws = parse_wrappers()
    depth = INFO["bounds"][tier]["error_depth"]
    o = [w for w in ws if w[0] == outer][0]
    for inner_depth in range(0, depth):
        for combo in _compose(ws, inner_depth):
            chain = (o,) + combo
            for data in DATAS:
                r.states += 1
                ex, g, vs = error_parse_case(chain, data)
                r.case(nontrivial=ex, outcome=("executed:" if ex else "not-executed:") + (g[0] if g[0] != "cerr" else g[1]), transitions=2, validated=1)
                for v in vs:
                    V(r, v["sig"][4:], {"t": "error-parse", "chain": [w[0] for w in chain], "data": data}, v["detail"])
    r.sample({"outer": outer, "depth": depth, "wrappers": len(ws), "inputs": len(DATAS)})


def run_error_build(outer, tier, r):
    ws = build_wrappers()
    depth = INFO["bounds"][tier]["error_depth"]
    o = [w for w in ws if w[0] == outer][0]
    for inner_depth in range(0, depth):
        for combo in _compose(ws, inner_depth):
            chain = (o,) + combo
            r.states += 1
            ex, g, vs = error_build_case(chain)
            r.case(nontrivial=ex, outcome=("executed:" if ex else "not-executed:") + (g[0] if g[0] != "cerr" else g[1]), transitions=2, validated=1)
            for v in vs:
                V(r, v["sig"][4:], {"t": "error-build", "chain": [w[0] for w in chain]}, v["detail"])
    r.sample({"outer": outer, "depth": depth, "wrappers": len(ws)})


def run_error_not_executed(r):
    """the converse, so that the oracle above is not vacuous: an Error that is not reached must not fire"""
    import construct as C
    cases = [
        ("Select(Byte,Error)", lambda: C.Select(C.Byte, C.Error).parse(b"\x01"), 1),
        ("If(False,Error)", lambda: C.If(False, C.Error).parse(b""), None),
        ("Switch(2,{1:Error},Byte)", lambda: C.Switch(2, {1: C.Error}, default=C.Byte).parse(b"\x05"), 5),
        ("GreedyRange(Struct(Byte,Error)) on empty", lambda: list(C.GreedyRange(C.Struct("a" / C.Byte, C.Error)).parse(b"")), []),
        ("Peek(Struct(Byte,Error)) on empty", lambda: C.Peek(C.Struct("a" / C.Byte, C.Error)).parse(b""), None),
        ("Array(0,Error)", lambda: list(C.Array(0, C.Error).parse(b"")), []),
        ("GreedyRange(Error).build([])", lambda: C.GreedyRange(C.Error).build([]), b""),
        ("Peek(Error).build", lambda: C.Peek(C.Error).build(None), b""),
        ("Union(a/Byte,e/Error).build(a)", lambda: C.Union(None, "a" / C.Byte, "e" / C.Error).build(dict(a=3)), b"\x03"),
        ("StopIf before Error", lambda: dict(C.Struct("a" / C.Byte, C.StopIf(True), C.Error).parse(b"\x01"))["a"], 1),
    ]
    for name, f, want in cases:
        r.states += 1
        g = outcome(f)
        r.case(key=("notexec", name), outcome="not-executed", validated=1)
        if g != ("ok", want):
            V(r, "error/fired-without-being-executed", {"t": "error-notexec", "name": name}, "%s: %r, expected %r" % (name, g, want))
    r.sample({"not_executed_cases": [c[0] for c in cases]})


def replay(case):
    r = UnitResult()
    t = case["t"]
    if t == "const":
        run_const("thorough", r)
        return [v for v in r.violations if v["case"].get("inst") == case["inst"]]
    if t == "validator":
        run_validators(case["sub"], "thorough", r)
    elif t == "validator-other":
        run_validators_other(r)
    elif t == "validator-derived":
        run_validators_derived(r)
        return [v for v in r.violations if v["case"] == case]
    elif t == "check":
        run_check_("thorough", r)
    elif t == "enum":
        run_enum("thorough", r)
    elif t == "flags":
        run_flags("thorough", r)
    elif t == "mapping":
        run_mapping("thorough", r)
    elif t == "error-parse":
        ws = {w[0]: w for w in parse_wrappers()}
        return error_parse_case([ws[n] for n in case["chain"]], case["data"])[2]
    elif t == "error-build":
        ws = {w[0]: w for w in build_wrappers()}
        return error_build_case([ws[n] for n in case["chain"]])[2]
    elif t == "error-notexec":
        run_error_not_executed(r)
    return r.violations
