"""C17 - constructs are stateless: results do not depend on call history, schedule or entry point."""
import io, os, sys, itertools, hashlib, types, tempfile
from ..engine import UnitResult, jkey, watchdog, Hang, REPO
from .. import terms as T, gen as G, sched

INFO = {
    "rule": "(a) histories: a pool of constructs sharing sub-constructs and library singletons (shared inner Struct, shared Enum, VarInt/"
            "Byte/Flag/Pass, compiled twins, context-parameterised ProcessXor/ProcessRotateLeft/Switch, Rebuild with a user lambda, a "
            "re-entrant Computed that parses mid-parse) x an alphabet of ~45 calls (parse/build/sizeof/compile, succeeding and failing at "
            "first/middle/last member, inside Select/GreedyRange/Bitwise): every history of length <=2 (quick) / <=3 (thorough) is run on a "
            "fresh pool and each call's result is compared with the same call on a pristine pool; after every single call the deep "
            "fingerprint of all pool objects, module globals and class attributes must equal the initial one (one reachable state, closed "
            "under every event). (b) schedules: 2 threads x collision-forced call pairs on shared objects under a line-granularity "
            "scheduler, every schedule with <=1 (quick) / <=2 (thorough) preemptions at every position; each thread's result must equal its "
            "sequential result. (c) entry points: parse on bytes/bytearray/memoryview, parse_stream at offsets 0/1/3 (value and consumed "
            "length), parse_file; build/build_stream/build_file, for tier T1-T2 terms and extras x values; with a keyword context: every context-parameter slot (31 classes) x "
            "{this.k, this._params.k} x {top level, Struct member} x keyword values x 4 inputs through all eight entry points. non-trivial = a call whose "
            "result was compared after at least one other call / under a schedule with a preemption / through a second entry point",
    "bounds": {"quick": {"repeat": 200, "history_depth": 2, "preemptions": 1}, "thorough": {"history_depth": 3, "preemptions": 2}},
    "trusted_base": ["mc/sched.py (sys.settrace line scheduler)", "the fingerprint walk in this module"],
    "assumptions": ["documented exceptions: Rebuffered.stream2, Debugger.retval (not in the pool); gzip output is time-stamped (not in the pool)",
                    "preemption inside a source line and free-threaded memory effects are not modelled"],
}


# --------------------------------------------------------------------------------- pool

class Pool:
    def __init__(self):
        import construct as C
        this = C.this
        self.C = C
        self.inner = C.Struct("a" / C.Byte, "b" / C.VarInt)
        self.enum = C.Enum(C.Byte, x=1, y=2)
        self.P1 = C.Struct("h" / C.Byte, "in" / self.inner, "t" / C.Flag)
        self.P2 = C.Sequence(self.inner, C.Pass, C.Byte)
        self.P3 = C.Select(C.Const(b"\x01\x02"), self.inner)
        self.P4 = C.GreedyRange(self.enum)
        self.P5 = C.Bitwise(C.Struct("u" / C.BitsInteger(4), "v" / C.Nibble, "w" / C.GreedyRange(C.Bit)))
        self.P6 = self.P1.compile()
        self.P7 = C.ProcessXor(this.key, C.GreedyBytes)
        self.P7b = C.ProcessRotateLeft(this.amount, this.group, C.GreedyBytes)
        self.P8 = C.Switch(this.k, {1: C.Byte, 2: self.inner}, default=C.VarInt)
        self.f9 = lambda ctx: len(ctx.d)
        self.P9 = C.Struct("n" / C.Rebuild(C.Byte, self.f9), "d" / C.Bytes(this.n))
        self.P9c = self.P9.compile()
        self.P10 = C.Struct("x" / C.Byte, "r" / C.Computed(lambda ctx: T.norm(self.inner.parse(b"\x05\x06"))), "y" / self.inner)
        self.P11 = C.Struct("len" / C.Byte, "s" / C.PaddedString(4, "ascii"), "e" / self.enum, "f" / C.FlagsEnum(C.Byte, a=1, b=2))
        self.P12 = C.Prefixed(C.VarInt, C.GreedyRange(self.inner))
        self.P13 = C.Struct("u" / C.Union(0, "a" / C.Int16ub, "b" / C.Byte), "t" / C.Byte)
        self.P14 = C.Struct("c" / C.Const(b"\x07"), "o" / C.Optional(C.Const(b"\x08")), "p" / C.Peek(C.Byte), "v" / C.Byte)
        # twins that differ only in signedness (a value valid for one is invalid for the other)
        self.P15u = C.Bitwise(C.Struct("a" / C.BitsInteger(4), "b" / C.Nibble))
        self.P15s = C.Bitwise(C.Struct("a" / C.BitsInteger(4, signed=True), "b" / C.Nibble))
        self.P15bu = C.BytesInteger(1)
        self.P15bs = C.BytesInteger(1, signed=True)
        # sizes that depend on the keyword context, asked of the generated code and of the original
        self.P20 = C.Struct("h" / C.Byte, "d" / C.Bytes(this._params.n), "a" / C.Array(this._params.m, C.Int16ub))
        self.P20c = self.P20.compile()
        self.P20m = C.Struct("x" / C.Byte, "c" / self.P20c)        # a compiled member inside an interpreted struct
        # recursion through LazyBound
        self.P16 = C.Struct("value" / C.Byte, "next" / C.If(this.value > 0, C.LazyBound(lambda: self.P16)))
        self.P16o = C.Struct("value" / C.Byte, "next" / C.Optional(C.LazyBound(lambda: self.P16o)))
        # encodings that depend on the keyword context, under Const / Default / Rebuild
        self.P17 = C.Const(0x0102, C.BytesInteger(2, swapped=this.le))
        self.P18 = C.Struct("c" / C.Const(1, C.BytesInteger(2, swapped=this._params.le)), "d" / C.Default(C.BytesInteger(2, swapped=this._params.le), 0x0304), "e" / C.Byte)
        # the same region construct used for payloads of different length
        self.P19 = C.Prefixed(C.Byte, C.GreedyBytes)
        self.P19s = C.Array(2, C.PascalString(C.Byte, "utf8"))
        self.P19c = C.Struct("z" / C.Prefixed(C.Byte, C.Compressed(C.GreedyBytes, "zlib")), "t" / C.Byte)
        self.objects = {k: v for k, v in vars(self).items() if k.startswith("P") or k in ("inner", "enum")}


_LAST_RAW = [None]


def scramble(v, depth=0):
    """what a caller may do with a value it was handed: edit it in place, at every depth"""
    if depth > 6:
        return
    if isinstance(v, dict):
        for k in list(v.keys()):
            x = v[k]
            if isinstance(k, str) and k.startswith("_"):
                continue
            if isinstance(x, bool):
                dict.__setitem__(v, k, not x)
            elif isinstance(x, int) and type(x) is int:
                dict.__setitem__(v, k, x + 1)
            elif isinstance(x, (dict, list)):
                scramble(x, depth + 1)
        dict.__setitem__(v, "scrambled", 1)
    elif isinstance(v, list):
        for i, x in enumerate(list(v)):
            if isinstance(x, (dict, list)):
                scramble(x, depth + 1)
            elif isinstance(x, int) and type(x) is int:
                list.__setitem__(v, i, x + 1)
        list.append(v, 99)


def calls():
    """name -> function(pool) performing one public call; results are normalised / exceptions named"""
    def P(attr, data, **kw):
        def call(p):
            raw = getattr(p, attr).parse(data, **kw)
            _LAST_RAW[0] = raw
            return T.norm(raw)
        return call
    def B(attr, v, **kw):
        return lambda p: getattr(p, attr).build(v, **kw)
    def S(attr, **kw):
        return lambda p: getattr(p, attr).sizeof(**kw)
    c = {}
    c["P1.parse ok"] = P("P1", b"\x01\x02\x83\x01\x01")
    c["P1.parse fail@first"] = P("P1", b"")
    c["P1.parse fail@middle"] = P("P1", b"\x01\x02\x83")
    c["P1.parse fail@last"] = P("P1", b"\x01\x02\x03")
    c["P1.build ok"] = B("P1", dict(h=1, **{"in": dict(a=2, b=300)}, t=True))
    c["P1.build bad"] = B("P1", dict(h=1, **{"in": dict(a=2, b=-1)}, t=True))
    c["P1.build bad-first"] = B("P1", dict(h=300, **{"in": dict(a=2, b=1)}, t=True))
    c["P1.sizeof"] = S("P1")
    c["inner.parse ok"] = P("inner", b"\x09\x0a")
    c["inner.parse fail"] = P("inner", b"\x09\x80")
    c["inner.build ok"] = B("inner", dict(a=1, b=128))
    c["P2.parse ok"] = P("P2", b"\x01\x02\x03")
    c["P2.parse fail"] = P("P2", b"\x01\x82")
    c["P2.build ok"] = B("P2", [dict(a=1, b=2), None, 3])
    c["P3.parse first"] = P("P3", b"\x01\x02")
    c["P3.parse second"] = P("P3", b"\x01\x03")
    c["P3.parse fail"] = P("P3", b"\x01")
    c["P3.build"] = B("P3", dict(a=5, b=6))
    c["P4.parse"] = P("P4", b"\x01\x02\x03")
    c["P4.parse empty"] = P("P4", b"")
    c["P4.build labels"] = B("P4", ["x", "y", 7])
    c["P4.build bad"] = B("P4", ["x", "nope"])
    c["enum.parse"] = P("enum", b"\x02")
    c["enum.build"] = B("enum", "y")
    c["P5.parse"] = P("P5", b"\xa5\x0f")
    c["P5.parse fail"] = P("P5", b"")
    c["P5.build"] = B("P5", dict(u=3, v=12, w=[1, 0, 1, 1, 0, 0, 0, 1]))
    c["P5.build bad"] = B("P5", dict(u=3, v=12, w=[1, 0, 1]))
    c["P6.parse ok"] = P("P6", b"\x01\x02\x83\x01\x00")
    c["P6.parse fail"] = P("P6", b"\x01")
    c["P6.build ok"] = B("P6", dict(h=9, **{"in": dict(a=2, b=3)}, t=False))
    c["P1.compile+parse"] = lambda p: T.norm(p.P1.compile().parse(b"\x01\x02\x03\x01"))
    c["P7.parse key=0x10"] = P("P7", b"\x01\x02\x03", key=0x10)
    c["P7.parse key=0x20"] = P("P7", b"\x01\x02\x03", key=0x20)
    c["P7.parse key=bytes"] = P("P7", b"\x01\x02\x03", key=b"\x01\x02")
    c["P7.parse key=0"] = P("P7", b"\x01\x02\x03", key=0)
    c["P7.build key=0x20"] = B("P7", b"abc", key=0x20)
    c["P7.build key=0x10"] = B("P7", b"abc", key=0x10)
    c["P7b.parse 3/1"] = P("P7b", b"\x01\x02\x03\x04", amount=3, group=1)
    c["P7b.parse 5/2"] = P("P7b", b"\x01\x02\x03\x04", amount=5, group=2)
    c["P7b.parse 8/4"] = P("P7b", b"\x01\x02\x03\x04", amount=8, group=4)
    c["P7b.build 3/1"] = B("P7b", b"\x01\x02", amount=3, group=1)
    c["P7b.parse bad"] = P("P7b", b"\x01\x02\x03", amount=3, group=2)
    c["P8.parse k=1"] = P("P8", b"\x05\x06", k=1)
    c["P8.parse k=2"] = P("P8", b"\x05\x06", k=2)
    c["P8.parse k=3"] = P("P8", b"\x85\x06", k=3)
    c["P8.sizeof k=1"] = S("P8", k=1)
    c["P8.sizeof nokey"] = S("P8")
    c["P9.build"] = B("P9", dict(d=b"abc"))
    c["P9c.build"] = B("P9c", dict(d=b"abcd"))
    c["P9c.parse"] = P("P9c", b"\x02xy")
    c["P9.compile other lambda, then P9c.build"] = lambda p: (p.C.Struct("n" / p.C.Rebuild(p.C.Byte, lambda ctx: 77), "d" / p.C.Bytes(p.C.this.n)).compile() and None, p.P9c.build(dict(d=b"ab")))[1]
    c["P10.parse reentrant"] = P("P10", b"\x01\x02\x03")
    c["P11.parse"] = P("P11", b"\x01ab\x00\x00\x01\x03")
    c["P11.build"] = B("P11", dict(len=1, s="xy", e="x", f=dict(a=True, b=False)))
    c["P11.build bad"] = B("P11", dict(len=1, s="toolong", e="x", f=0))
    c["P12.parse"] = P("P12", b"\x04\x01\x02\x03\x04\xff")
    c["P12.build"] = B("P12", [dict(a=1, b=2)])
    c["P13.parse"] = P("P13", b"\x01\x02\x03")
    c["P13.build"] = B("P13", dict(u=dict(a=5), t=1))
    c["P14.parse with optional"] = P("P14", b"\x07\x08\x09")
    c["P14.parse without"] = P("P14", b"\x07\x09")
    c["P14.parse bad const"] = P("P14", b"\x06\x09")
    for tw in ("P15u", "P15s"):
        for a in (12, 7, -4, 8, 15, 16):
            c["%s.build a=%d" % (tw, a)] = B(tw, dict(a=a, b=1))
        c["%s.parse" % tw] = P(tw, b"\xc1")
    for tw in ("P15bu", "P15bs"):
        for a in (200, 127, 128, -1, -128, 255):
            c["%s.build %d" % (tw, a)] = B(tw, a)
    c["P16.parse shallow"] = P("P16", b"\x02\x01\x00")
    c["P16.parse truncated"] = P("P16", b"\x03\x02\x01")
    c["P16.parse long truncated"] = P("P16", bytes(range(60, 0, -1)))
    c["P16.build"] = B("P16", dict(value=2, next=dict(value=1, next=dict(value=0, next=None))))
    c["P16.build bad"] = B("P16", dict(value=2, next=dict(value=1, next=dict(value=300, next=None))))
    c["P16o.parse"] = P("P16o", b"\x01\x02\x03")
    c["P16o.parse long"] = P("P16o", bytes(40))
    for le in (False, True):
        c["P17.build le=%s" % le] = B("P17", None, le=le)
        c["P17.parse le=%s" % le] = P("P17", b"\x01\x02", le=le)
        c["P18.build le=%s" % le] = B("P18", dict(e=9), le=le)
        c["P18.parse le=%s" % le] = P("P18", b"\x00\x01\x03\x04\x09", le=le)
    c["P19.build long"] = B("P19", b"abcdef")
    c["P19.build short"] = B("P19", b"xy")
    c["P19.build empty"] = B("P19", b"")
    c["P19.parse"] = P("P19", b"\x02ab")
    c["P19s.build long,short"] = B("P19s", ["hello", "hi"])
    c["P19s.build short,long"] = B("P19s", ["a", "bcdef"])
    c["P19c.build long"] = B("P19c", dict(z=bytes(200), t=1))
    c["P19c.build short"] = B("P19c", dict(z=b"", t=1))
    c["P20c.sizeof n=3,m=0"] = S("P20c", n=3, m=0)
    c["P20c.sizeof n=5,m=2"] = S("P20c", n=5, m=2)
    c["P20c.sizeof no kw"] = S("P20c")
    c["P20.sizeof n=1,m=1"] = S("P20", n=1, m=1)
    c["P20m.sizeof n=2,m=2"] = S("P20m", n=2, m=2)
    c["P20c.parse n=1,m=1"] = P("P20c", b"\x01\x02\x00\x03", n=1, m=1)
    c["P20c.build n=2,m=0"] = B("P20c", dict(h=1, d=b"ab", a=[]), n=2, m=0)
    c["VarInt.parse"] = lambda p: p.C.VarInt.parse(b"\xac\x02")
    c["VarInt.build"] = lambda p: p.C.VarInt.build(300)
    c["VarInt.build bad"] = lambda p: p.C.VarInt.build(-1)
    return c


def do(pool, f):
    try:
        with watchdog(5):
            return ("ok", f(pool))
    except Hang:
        return ("hang",)
    except Exception as e:
        return ("exc", type(e).__name__, getattr(e, "path", None))


# --------------------------------------------------------------------------- fingerprint

def fingerprint(pool, aux=False):
    """deep structural hash of the construct objects a call could mutate: instance attributes of every pool construct (through
    subcons, dicts, lists), the module-level construct singletons, data attributes of the construct classes.
    aux=True: hash of the remaining module-level data (tables, memo dictionaries) instead - a change there is not by itself a
    violation (a correct memo is allowed), it is recorded and the histories decide"""
    h = hashlib.blake2b(digest_size=16)
    seen = {}
    def feed(s):
        h.update(s.encode() if isinstance(s, str) else s)
        h.update(b"|")
    def walk(o, depth=0):
        if depth > 40:
            feed("DEEP"); return
        if o is None or isinstance(o, (bool, int, float, str, bytes)):
            feed(type(o).__name__ + ":" + repr(o)); return
        oid = id(o)
        if oid in seen:
            feed("REF%d" % seen[oid][0]); return
        seen[oid] = (len(seen), o)      # the reference keeps temporaries alive: a freed object's id could otherwise be reused within one walk
        if isinstance(o, (list, tuple)):
            feed(type(o).__name__ + "[%d]" % len(o))
            for x in o:
                walk(x, depth + 1)
            return
        if isinstance(o, (set, frozenset)):
            feed("set[%d]" % len(o))
            for x in sorted(map(repr, o)):
                feed(x)
            return
        if isinstance(o, dict):
            feed(type(o).__name__ + "{%d}" % len(o))
            for k in o:
                if isinstance(k, str) and k in ("__builtins__", "__doc__", "__loader__", "__spec__", "__cached__", "__file__"):
                    continue
                walk(k, depth + 1)
                walk(o[k], depth + 1)
            return
        if isinstance(o, types.FunctionType):
            feed("fn:" + o.__qualname__ + ":" + hashlib.md5(o.__code__.co_code).hexdigest()[:8])
            if o.__closure__:
                for c in o.__closure__:
                    try:
                        walk(c.cell_contents, depth + 1)
                    except ValueError:
                        feed("emptycell")
            walk(o.__defaults__, depth + 1)
            return
        if isinstance(o, (types.BuiltinFunctionType, types.MethodType, types.ModuleType, type)) or callable(o) and not hasattr(o, "__dict__"):
            feed("callable:" + getattr(o, "__qualname__", getattr(o, "__name__", type(o).__name__)))
            if isinstance(o, types.ModuleType) and o.__name__ not in sys.modules:
                walk({k: v for k, v in vars(o).items() if not isinstance(v, (types.FunctionType, type, types.ModuleType))}, depth + 1)
            return
        if hasattr(o, "__dict__") or hasattr(o, "__slots__"):
            feed("obj:" + type(o).__name__)
            try:
                d = dict(vars(o))
            except TypeError:
                d = {}
            for k in sorted(d):
                feed(k)
                walk(d[k], depth + 1)
            return
        feed("other:" + type(o).__name__)
    if not aux:
        for name in sorted(pool.objects):
            feed("POOL:" + name)
            walk(pool.objects[name])
    C = pool.C
    mods = [m for n, m in sorted(sys.modules.items()) if n == "construct" or n.startswith("construct.")]
    for m in mods:
        feed("MODULE:" + m.__name__)
        for k in sorted(vars(m)):
            v = vars(m)[k]
            if isinstance(v, (types.FunctionType, types.ModuleType, types.BuiltinFunctionType)) or k.startswith("__"):
                continue
            if isinstance(v, type):
                if aux:
                    continue
                if getattr(v, "__module__", "").startswith("construct"):
                    feed("CLASS:" + k)
                    for ak in sorted(vars(v)):
                        av = vars(v)[ak]
                        if callable(av) or isinstance(av, (staticmethod, classmethod, property)) or ak.startswith("__"):
                            continue
                        feed(ak)
                        walk(av)
                continue
            is_construct_object = isinstance(v, C.Construct) or isinstance(v, C.ExprMixin if hasattr(C, "ExprMixin") else ())
            if is_construct_object == aux:
                continue
            feed(k)
            walk(v)
    return h.hexdigest()


# ------------------------------------------------------------------------------- part (a)

def units(tier):
    names = list(calls())
    us = []
    for i in range(0, len(names), 4):
        us.append({"kind": "history", "first": names[i:i + 4]})
    for i in range(0, len(names), 8):
        us.append({"kind": "fresh", "names": names[i:i + 8]})
    for i, pair in enumerate(thread_pairs()):
        us.append({"kind": "schedule", "pair": i})
    ts = entry_terms()
    for i in range(0, len(ts), 40):
        us.append({"kind": "entry", "from": i, "to": i + 40})
    us.append({"kind": "entry-big"})
    us.append({"kind": "entry-kw"})
    return us


REPEAT = 200
_PRISTINE = {}


def pristine_results():
    if not _PRISTINE:
        for name, f in calls().items():
            _PRISTINE[name] = do(Pool(), f)
    return _PRISTINE


def run_history(unit, tier, r):
    cs = calls()
    names = list(cs)
    depth = INFO["bounds"][tier]["history_depth"]
    base = pristine_results()
    p0 = Pool()
    fp0 = fingerprint(p0)
    for first in unit["first"]:
        # single call: result + fingerprint closure
        p = Pool()
        fp_before = fingerprint(p)
        aux_before = fingerprint(p, aux=True)
        res = do(p, cs[first])
        fp_after = fingerprint(p)
        if fingerprint(p, aux=True) != aux_before:
            r.extra["module-level-data-changed-by:" + first.split(" ")[0]] += 1
        r.state("fp:" + fp_after)
        r.case(key=("h1", first), nontrivial=False, outcome="single", transitions=1, validated=1)
        if fp_after != fp_before:
            r.violation("C17/state-changed-by-call/" + first.split(" ")[0], {"history": [first]},
                        "the fingerprint of the construct objects / module globals changed after %r: %s" % (first, diff_fp(Pool(), cs[first])))
        if res != base[first]:
            r.violation("C17/nondeterministic-call/" + first.split(" ")[0], {"history": [first]}, "%r gives %r on one fresh pool and %r on another" % (first, res, base[first]))
        # the value handed out belongs to the caller: editing it in place must not change what the next call returns
        if ".parse" in first and res[0] == "ok" and isinstance(_LAST_RAW[0], (dict, list)):
            try:
                scramble(_LAST_RAW[0])
            except Exception:
                pass
            _LAST_RAW[0] = None
            again = do(p, cs[first])
            r.case(key=("alias", first), nontrivial=True, outcome="alias", transitions=2, validated=1)
            if again != base[first]:
                r.violation("C17/result-aliased-to-library-state/" + first.split(" ")[0], {"alias": first},
                            "%r, then editing the returned value in place, then %r again gives %r instead of %r" % (first, first, again, base[first]))
            for other in (n for n in names if n != first and n.split(".")[0] == first.split(".")[0] and ".parse" in n):
                o = do(p, cs[other])
                if o != base[other]:
                    r.violation("C17/result-aliased-to-library-state/" + other.split(" ")[0], {"alias": first, "then": other},
                                "after %r and editing its result in place, %r gives %r instead of %r" % (first, other, o, base[other]))
        # a long history: the same call 200 times on one pool (counters, growing caches, leaked nesting levels), then every call once
        p = Pool()
        for i in range(REPEAT):
            o = do(p, cs[first])
            if o != base[first]:
                r.violation("C17/result-depends-on-history/" + first.split(" ")[0], {"repeat": first, "times": i + 1},
                            "call #%d of %r on the same pool gives %r, the first gave %r" % (i + 1, first, o, base[first]))
                break
        r.transitions += REPEAT
        r.case(key=("repeat", first), nontrivial=True, outcome="repeat", transitions=0, validated=1)
        for n in names:
            o = do(p, cs[n])
            r.transitions += 1
            if o != base[n]:
                r.violation("C17/result-depends-on-history/" + n.split(" ")[0], {"repeat": first, "times": REPEAT, "then": n},
                            "after %d x %r the call %r gives %r, on a pristine pool %r" % (REPEAT, first, n, o, base[n]))
        # all histories starting with `first`
        seconds = names
        for second in seconds:
            thirds = [None] if depth < 3 else [None] + third_alphabet(names)
            for third in thirds:
                hist = [first, second] + ([third] if third else [])
                p = Pool()
                outs = [do(p, cs[n]) for n in hist]
                r.transitions += len(hist)
                for n, o in zip(hist[1:], outs[1:]):
                    r.case(nontrivial=True, outcome="history", transitions=0, validated=1)
                    if o != base[n]:
                        r.violation("C17/result-depends-on-history/" + n.split(" ")[0], {"history": hist},
                                    "after %r the call %r gives %r, on a pristine pool %r" % (hist[:hist.index(n)] if n in hist[1:] else hist, n, o, base[n]))
    r.sample({"first_calls": unit["first"], "alphabet": len(names), "depth": depth})


def third_alphabet(names):
    keep = ("P1.parse ok", "P6.parse ok", "P7.parse key=0x10", "P7.build key=0x20", "P9c.build", "P4.parse", "VarInt.build", "P8.parse k=2", "P13.parse", "P7b.parse 5/2")
    return [n for n in names if n in keep]


def diff_fp(pool, f):
    """which top-level object's fingerprint moved (diagnostics)"""
    out = []
    before = {}
    for name, o in pool.objects.items():
        q = Pool.__new__(Pool); q.objects = {name: o}; q.C = pool.C
        before[name] = fingerprint_objects_only(q)
    do(pool, f)
    for name, o in pool.objects.items():
        q = Pool.__new__(Pool); q.objects = {name: o}; q.C = pool.C
        if fingerprint_objects_only(q) != before[name]:
            out.append(name)
    return "changed objects: %s" % (out or "module/class level state")


def fingerprint_objects_only(q):
    h = hashlib.blake2b(digest_size=8)
    def walk(o, d=0, seen=None):
        seen = seen if seen is not None else set()
        if id(o) in seen or d > 30:
            return
        seen.add(id(o))
        if isinstance(o, (bool, int, float, str, bytes, type(None))):
            h.update(repr(o).encode()); return
        if isinstance(o, dict):
            for k, v in o.items():
                h.update(repr(k).encode()); walk(v, d + 1, seen)
        elif isinstance(o, (list, tuple)):
            for x in o:
                walk(x, d + 1, seen)
        elif hasattr(o, "__dict__") and not isinstance(o, (types.FunctionType, type, types.ModuleType)):
            h.update(type(o).__name__.encode())
            for k in sorted(vars(o)):
                h.update(k.encode()); walk(vars(o)[k], d + 1, seen)
    for o in q.objects.values():
        walk(o)
    return h.hexdigest()


# ------------------------------------------------------------------------------- part (b)

def thread_pairs():
    """collision-forced pairs: (name, call A, call B) on the same pool"""
    return [
        ("shared inner via P1 and P2", "P1.parse ok", "P2.parse ok"),
        ("same struct parse vs build", "P1.parse ok", "P1.build ok"),
        ("same struct ok vs failing", "P1.parse fail@middle", "P1.parse ok"),
        ("shared enum parse vs build", "P4.parse", "P4.build labels"),
        ("singleton VarInt", "VarInt.parse", "VarInt.build"),
        ("compiled module parse vs build", "P6.parse ok", "P6.build ok"),
        ("ProcessXor two keys", "P7.parse key=0x10", "P7.parse key=0x20"),
        ("ProcessXor parse vs build", "P7.parse key=0x10", "P7.build key=0x20"),
        ("rotate two parameters", "P7b.parse 3/1", "P7b.parse 5/2"),
        ("switch two keys", "P8.parse k=1", "P8.parse k=2"),
        ("bitwise parse vs build", "P5.parse", "P5.build"),
        ("select vs inner", "P3.parse second", "inner.build ok"),
        ("compile while in use", "P1.compile+parse", "P1.parse ok"),
        ("compiled rebuild lambda", "P9c.build", "P9.build"),
        ("re-entrant computed", "P10.parse reentrant", "inner.parse ok"),
        ("union vs struct", "P13.parse", "P13.build"),
        ("region construct, long vs short payload", "P19.build long", "P19.build short"),
        ("array of prefixed strings, two value lists", "P19s.build long,short", "P19s.build short,long"),
        ("const under two contexts", "P17.build le=False", "P17.build le=True"),
        ("struct with context-dependent const, parse vs build", "P18.parse le=True", "P18.build le=False"),
        ("lazybound recursion ok vs failing", "P16.parse shallow", "P16.parse truncated"),
        ("lazybound parse vs build", "P16.parse shallow", "P16.build"),
        ("signedness twins", "P15u.build a=12", "P15s.build a=12"),
        ("compressed region long vs empty", "P19c.build long", "P19c.build short"),
    ]


def run_schedule(unit, tier, r):
    name, an, bn = thread_pairs()[unit["pair"]]
    cs = calls()
    bound = INFO["bounds"][tier]["preemptions"]
    base = pristine_results()
    prefix = os.path.join(REPO, "construct") + os.sep
    def run(first, preempt):
        p = Pool()
        il = sched.Interleaver([lambda: cs[an](p), lambda: cs[bn](p)], preempt_at=preempt, first=first, trace_prefix=prefix)
        res = il.run()
        return p, il, res
    def conv(x):
        if x is None:
            return ("none",)
        if x[0] == "ok":
            return ("ok", x[1])
        return ("exc", x[1], None)
    def same(a, b):
        if a[0] != b[0]:
            return False
        if a[0] == "ok":
            return a[1] == b[1] if not isinstance(a[1], (dict, list)) else T.eqv(a[1], b[1])
        return a[1] == b[1]
    # fault-free runs give the step counts
    p, il, res = run(0, [])
    n0, n1 = il.steps_by_thread
    if il.error:
        r.violation("C17/schedule-machinery", {"pair": unit["pair"]}, il.error)
        return
    outcomes = set()
    scheds = sched.schedules(n0, n1, bound)
    if bound >= 2 and n0 * n1 > 60000:
        # keep every 1-preemption schedule, thin the 2-preemption grid (reported as a cap)
        keep = [s for s in scheds if len(s[1]) < 2]
        two = [s for s in scheds if len(s[1]) == 2]
        stride = max(1, len(two) // 30000)
        scheds = keep + two[::stride]
        r.extra["two-preemption-grid-thinned-by-%d" % stride] += 1
    fp0 = None
    for first, preempt in scheds:
        r.states += 1
        p, il, res = run(first, preempt)
        got = [conv(res[0]), conv(res[1])]
        want = [(base[an][0],) + tuple(base[an][1:2]), (base[bn][0],) + tuple(base[bn][1:2])]
        outcomes.add(repr(got))
        r.case(nontrivial=len(il.switches) > 0, outcome="switches-%d" % len(il.switches), transitions=il.step, validated=1)
        case = {"pair": unit["pair"], "first": first, "preempt": list(preempt)}
        if il.error:
            r.violation("C17/schedule-deadlock/" + name, case, "schedule first=%d preempt=%r: %s" % (first, preempt, il.error))
            continue
        for i, nm in enumerate((an, bn)):
            if not same(got[i], want[i]):
                # confirm by replaying the same schedule: identical observations are required before reporting
                p2, il2, res2 = run(first, preempt)
                again = [conv(res2[0]), conv(res2[1])]
                if repr(again) != repr(got):
                    r.violation("C17/schedule-machinery-nondeterministic", case, "replay of the same schedule diverged: %r vs %r" % (got, again))
                else:
                    r.violation("C17/result-depends-on-schedule/" + name, case,
                                "threads (%r | %r), first=%d, preempted at global steps %r: thread %d returned %r, sequentially %r" % (an, bn, first, preempt, i, got[i], want[i]))
    r.extra["distinct-observed-outcomes:%s" % name] = len(outcomes)
    r.sample({"pair": name, "calls": [an, bn], "steps": [n0, n1], "schedules": len(scheds), "distinct_outcomes": len(outcomes)})


# ------------------------------------------------------------------------------- part (c)

def entry_terms():
    ts = [t for t in G.tier1() if G.attrs(t).ctxfree] + [t for t in G.tier2() if G.attrs(t).ctxfree]
    B = G.BYTE
    ts += [["Struct", [["u", ["Union", 0, [["a", G.I(2, False, "b")], ["b", B]]]], ["t", B]]],
           ["Struct", [["u", ["Union", "b", [["a", G.I(2, False, "b")], ["b", ["VarInt"]]]]], ["t", B]]],
           ["Struct", [["u", ["Union", None, [["a", G.I(2, False, "b")], ["b", B]]]], ["t", B]]],
           ["Struct", [["p", ["Peek", B]], ["v", ["VarInt"]]]], ["Struct", [["o", ["Optional", ["ConstB", b"\x07"]]], ["v", B]]],
           ["Struct", [["a", ["RawCopy", G.I(2, False, "b")]], ["b", B]]], ["GreedyRange", ["Struct", [["a", B], ["b", ["CString", "ascii"]]]]]]
    # end-relative positioning is independent of where the record starts, also inside the sub-streams of region constructs
    I16 = G.I(2, False, "b")
    body = ["Struct", [["body", ["OffsettedEnd", -2, ["GreedyBytes"]]], ["trailer", I16]]]
    ts += [["FixedSized", 6, body], ["Prefixed", B, body, False], ["Struct", [["h", B], ["r", ["FixedSized", 5, body]], ["t", B]]],
           ["NullTerminated", body, b"\x00", False, True, True],
           ["Prefixed", B, ["Struct", [["last", ["Pointer", -1, B]], ["r", ["GreedyBytes"]]]], False],
           ["FixedSized", 4, ["Struct", [["last2", ["Pointer", -2, I16]], ["a", B]]]],
           ["Struct", [["h", B], ["f", ["FixedSized", 4, ["Struct", [[None, ["Seek", -1, 2]], ["last", B]]]]], ["t", B]]],
           ["Array", 2, ["FixedSized", 3, ["Struct", [["e", ["OffsettedEnd", -1, ["GreedyBytes"]]], ["l", B]]]]],
           ["ProcessXor", 1, ["Struct", [["e", ["OffsettedEnd", -1, ["GreedyBytes"]]], ["l", B]]]],
           ["Prefixed", B, ["Prefixed", B, body, False], False]]
    return ts


def uses_offsets(t):
    """the term reads or reports an absolute stream position (its result legitimately depends on the starting offset)"""
    if isinstance(t, list):
        if t and t[0] in ("RawCopy", "Tell"):
            return True
        if t and t[0] == "Pointer" and not (isinstance(t[1], int) and t[1] < 0):
            return True
        if t and t[0] == "Seek" and not (len(t) > 2 and t[2] in (1, 2)):
            return True
        return any(uses_offsets(x) for x in t)
    return False


def run_entry(unit, tier, r):
    import construct as C
    tmpdir = tempfile.mkdtemp(prefix="verif-c17-", dir="/var/tmp")
    try:
        for t in entry_terms()[unit["from"]:unit["to"]]:
            d = T.mk(t)
            tsig = T.sig_of(t)
            try:
                vals = [v for v, _ in G.values(t)][:3]
            except Exception:
                vals = []
            encs = []
            for v in vals:
                try:
                    encs.append((v, d.build(v)))
                except Exception:
                    pass
            for x in (b"\x00\x01\x02\x03", b"\x01\x02\x03\x00\x07", b"\x07\x01\x61\x00\x02\x62\x00"):
                try:
                    d.parse(x)
                    encs.append((None, x))
                except Exception:
                    pass
            for v, b in encs[:4]:
                r.states += 1
                base = do_parse(lambda: d.parse(b))
                s0 = io.BytesIO(b + b"\xee\xee")
                base_stream = do_parse(lambda: d.parse_stream(s0))
                consumed = s0.tell()
                variants = {"bytearray": lambda: d.parse(bytearray(b)), "memoryview": lambda: d.parse(memoryview(b))}
                fn = os.path.join(tmpdir, "in.bin")
                with open(fn, "wb") as f:
                    f.write(b)
                variants["parse_file"] = lambda: d.parse_file(fn)
                for nm, f in variants.items():
                    got = do_parse(f)
                    r.case(nontrivial=True, outcome="entry-parse", validated=1)
                    if not same_res(got, base):
                        r.violation("C17/entry-point-differs/%s/%s" % (nm, tsig), {"entry": nm, "term": t, "data": b},
                                    "%s: parse(bytes %s) = %r, via %s %r" % (T.show(t), b.hex(), base, nm, got))
                if not uses_offsets(t):
                    for start in (1, 3):
                        s = io.BytesIO(b"\xdd" * start + b + b"\xee\xee")
                        s.seek(start)
                        got = do_parse(lambda: d.parse_stream(s))
                        adv = s.tell() - start
                        r.case(nontrivial=True, outcome="entry-offset", validated=1)
                        if not same_res(got, base_stream) or (got[0] == "ok" and adv != consumed):
                            r.violation("C17/entry-point-differs/parse_stream@%d/%s" % (start, tsig), {"entry": "parse_stream", "start": start, "term": t, "data": b},
                                        "%s on %s: parse_stream at offset 0 gives %r consuming %d, at offset %d %r consuming %d" % (T.show(t), b.hex(), base_stream, consumed, start, got, adv))
                if v is not None:
                    s = io.BytesIO()
                    bs = do_parse(lambda: (d.build_stream(v, s), s.getvalue())[1])
                    fn2 = os.path.join(tmpdir, "out.bin")
                    bf = do_parse(lambda: (d.build_file(v, fn2), open(fn2, "rb").read())[1])
                    s3 = io.BytesIO(b"\xdd\xdd\xdd")
                    s3.seek(3)
                    bo = do_parse(lambda: (d.build_stream(v, s3), s3.getvalue()[3:])[1])
                    for nm, got in (("build_stream", bs), ("build_file", bf), ("build_stream@3", bo)):
                        if nm == "build_stream@3" and uses_offsets(t):
                            continue
                        r.case(nontrivial=True, outcome="entry-build", validated=1)
                        if got != ("ok", b):
                            r.violation("C17/entry-point-differs/%s/%s" % (nm, tsig), {"entry": nm, "term": t, "data": b},
                                        "%s: build(%r) = %s, via %s %r" % (T.show(t), v, b.hex(), nm, got))
            r.sample({"term": T.show(t), "encodings": len(encs[:4])}, cap=2)
    finally:
        for f in os.listdir(tmpdir):
            os.unlink(os.path.join(tmpdir, f))
        os.rmdir(tmpdir)


def do_parse(f):
    try:
        with watchdog(3):
            v = f()
        return ("ok", T.norm(v) if not isinstance(v, bytes) else v)
    except Hang:
        return ("hang",)
    except Exception as e:
        return ("exc", type(e).__name__)


def same_res(a, b):
    if a[0] != b[0]:
        return False
    if a[0] == "ok":
        return T.eqv(a[1], b[1])
    return a[1:] == b[1:]


def run_entry_big(r):
    """entry points agree on large inputs too (files of 2**20 bytes and more; positions behind 2**32 reached through a window
    stream that reports absolute offsets), including seeks beyond the end"""
    import construct as C
    from .. import scale
    this = C.this
    tmpdir = tempfile.mkdtemp(prefix="verif-c17big-", dir="/var/tmp")
    try:
        for n in scale.BIG[:2] + [70000]:
            data = scale.payload(n, "ramp")
            shapes = [
                ("pointer-beyond-eof", C.Struct("p" / C.Pointer(this._params.off, C.GreedyRange(C.Int32ub)), "first" / C.Bytes(8)), dict(off=n + 10)),
                ("pointer-near-end", C.Struct("p" / C.Pointer(this._params.off, C.GreedyRange(C.Int32ub)), "first" / C.Bytes(8)), dict(off=n - 7)),
                ("seek-beyond-eof", C.Struct("a" / C.Bytes(16), C.Seek(this._params.off), "r" / C.GreedyBytes), dict(off=n + 5)),
                ("end-relative", C.Struct("h" / C.Byte, "tail" / C.Pointer(-4, C.Bytes(4)), "body" / C.OffsettedEnd(-8, C.GreedyBytes)), dict(off=0)),
                ("padding-then-byte", C.Struct(C.Padding(n - 1), "b" / C.Byte), dict(off=0)),
                ("prefixed-region", C.Struct("r" / C.Prefixed(C.Int32ub, C.Struct("x" / C.Bytes(5), "rest" / C.GreedyBytes))), dict(off=0)),
                ("lazy", C.Struct("lz" / C.LazyArray(n // 4, C.Int32ub), "t" / C.GreedyBytes), dict(off=0)),
            ]
            for name, d, kw in shapes:
                x = data if name != "prefixed-region" else (n - 4).to_bytes(4, "big") + data[4:]
                def summary(v):
                    v = T.norm(v)
                    if name == "lazy":
                        return (v["lz"][0], v["lz"][-1], len(v["lz"]), v["t"])
                    return repr(v)[:200] + str(hash(repr(v)))
                base = do_parse(lambda: summary(d.parse(x, **kw)))
                fn = os.path.join(tmpdir, "big.bin")
                with open(fn, "wb") as f:
                    f.write(x)
                variants = {"bytearray": lambda: summary(d.parse(bytearray(x), **kw)), "memoryview": lambda: summary(d.parse(memoryview(x), **kw)),
                            "parse_stream": lambda: summary(d.parse_stream(io.BytesIO(x), **kw)), "parse_file": lambda: summary(d.parse_file(fn, **kw))}
                if name == "lazy":
                    del variants["parse_file"]          # parse_file closes the file before a lazy result can be read (by design)
                    def viaopen():
                        with open(fn, "rb") as fh:
                            return summary(d.parse_stream(fh, **kw))
                    variants["parse_stream(open file)"] = viaopen
                if name in ("padding-then-byte", "prefixed-region", "lazy"):
                    # a window that reports positions behind 2**32 and 2**63 (no 4 GiB of data needed)
                    for off in (2 ** 32 + 5, 2 ** 63 + 1):
                        variants["window@%d" % off] = lambda off=off: summary(d.parse_stream(C.BytesIOWithOffsets(x, None, off), **kw))
                for vn, f in variants.items():
                    r.states += 1
                    got = do_parse(f)
                    r.case(nontrivial=True, outcome="entry-big", transitions=2, validated=1)
                    if got != base:
                        r.violation("C17/entry-point-differs/%s/big:%s" % (vn.split("@")[0], name), {"entrybig": [name, n, vn]},
                                    "%s on %d bytes: parse(bytes) gives %r, via %s %r" % (name, n, base, vn, got))
                os.unlink(fn)
    finally:
        for f in os.listdir(tmpdir):
            os.unlink(os.path.join(tmpdir, f))
        os.rmdir(tmpdir)
    r.sample({"entry_big_sizes": scale.BIG[:2] + [70000], "shapes": 7})


KW_VALUES = {"len": [0, 1, 2, 3], "len1": [1, 2], "mod": [2, 3], "bool": [False, True], "key": [1, 2, 3]}


def run_entry_kw(r, only=None, prop="C17"):
    """the keyword context is an argument of every entry point: each class that takes a context parameter (the slot list of C05),
    referring to a keyword at top level (this.k, this._params.k) and from inside a Struct (this._.k), under every keyword value -
    parse / parse_stream / parse_file / bytearray / memoryview give one result, build / build_stream / build_file one byte string"""
    from .c05 import slots, up
    tmpdir = tempfile.mkdtemp(prefix="verif-c17kw-", dir="/var/tmp")
    inputs = [b"\x00\x01\x02\x03\x04\x05", b"\x01\x02\x03\x00\x07\x08", b"\x02\x61\x62\x63\x00\x00", b"\x61\x61\x00\x00\x00\x00\x00\x00"]
    try:
        for name, mk, kind in slots():
            for pn, P in (("this.k", ["this", "k"]), ("_params.k", ["path", ["_params", "k"]])):
                for en, t in (("top", mk(P)), ("struct", ["Struct", [["h", G.BYTE], ["m", mk(up(P))], ["z", G.BYTE]]])):
                    label = "%s/%s/%s" % (name, pn, en)
                    if only is not None and label != only:
                        continue
                    d = T.mk(t)
                    for kv in KW_VALUES[kind]:
                        kw = {"k": kv}
                        for x in inputs:
                            r.states += 1
                            base = do_parse(lambda: d.parse(x, **kw))
                            fn = os.path.join(tmpdir, "in.bin")
                            with open(fn, "wb") as f:
                                f.write(x)
                            variants = {"parse_stream": lambda: d.parse_stream(io.BytesIO(x), **kw), "parse_file": lambda: d.parse_file(fn, **kw),
                                        "bytearray": lambda: d.parse(bytearray(x), **kw), "memoryview": lambda: d.parse(memoryview(x), **kw)}
                            if name == "LazyArray":
                                del variants["parse_file"]      # parse_file closes the file before a lazy result can be read (by design)
                            for vn, f in variants.items():
                                got = do_parse(f)
                                r.case(nontrivial=base[0] == "ok", outcome="entrykw-parse", validated=1)
                                if not same_res(got, base):
                                    r.violation("%s/entry-point-differs/%s/kw:%s" % (prop, vn, name), {"entrykw": label, "k": kv, "data": x},
                                                "%s with k=%r on %s: parse gives %r, %s gives %r" % (T.show(t), kv, x.hex(), base, vn, got))
                            if base[0] != "ok":
                                continue
                            v = T.denorm(base[1])
                            bb = do_parse(lambda: d.build(v, **kw))
                            s = io.BytesIO()
                            bs = do_parse(lambda: (d.build_stream(v, s, **kw), s.getvalue())[1])
                            fn2 = os.path.join(tmpdir, "out.bin")
                            bf = do_parse(lambda: (d.build_file(v, fn2, **kw), open(fn2, "rb").read())[1])
                            for vn, got in (("build_stream", bs), ("build_file", bf)):
                                r.case(nontrivial=bb[0] == "ok", outcome="entrykw-build", validated=1)
                                if got != bb:
                                    r.violation("%s/entry-point-differs/%s/kw:%s" % (prop, vn, name), {"entrykw": label, "k": kv, "data": x},
                                                "%s with k=%r: build(%r) gives %r, %s gives %r" % (T.show(t), kv, v, bb, vn, got))
    finally:
        for f in os.listdir(tmpdir):
            os.unlink(os.path.join(tmpdir, f))
        os.rmdir(tmpdir)
    r.sample({"entry_kw_slots": len(slots()), "references": 2, "embeddings": 2})


def fresh_result(name):
    """the call in a brand-new interpreter (nothing has run before it in that process)"""
    import subprocess
    code = ("import sys; sys.path.insert(0, %r)\n"
            "from mc.engine import load_construct; load_construct()\n"
            "from mc.props import c17\n"
            "print('RESULT ' + repr(c17.do(c17.Pool(), c17.calls()[%r])))\n") % (os.path.dirname(os.path.dirname(os.path.dirname(os.path.abspath(__file__)))), name)
    env = dict(os.environ, PYTHONHASHSEED="0")
    p = subprocess.run([sys.executable, "-c", code], env=env, stdout=subprocess.PIPE, stderr=subprocess.PIPE, text=True, timeout=120)
    for line in p.stdout.splitlines():
        if line.startswith("RESULT "):
            return line[7:]
    raise RuntimeError("fresh interpreter for %r produced no result: %s" % (name, p.stderr[-400:]))


def run_fresh(unit, tier, r):
    """process history: the result of every call in a brand-new interpreter equals its result in this long-lived worker, which has
    executed the whole call alphabet (and other units) before - whatever module-level tables the library keeps"""
    cs = calls()
    pristine_results()          # make sure every call has run at least once in this process
    for name in unit["names"]:
        r.states += 1
        fresh = fresh_result(name)
        here = repr(do(Pool(), cs[name]))
        r.case(key=("fresh", name), nontrivial=True, outcome="fresh-vs-warm", transitions=2, validated=1)
        if fresh != here:
            r.violation("C17/result-depends-on-history/" + name.split(" ")[0], {"fresh": name},
                        "%r gives %s in a brand-new interpreter and %s in a process that has executed the other calls before" % (name, fresh, here))
    r.sample({"fresh_interpreter_calls": unit["names"]})


def run_unit(unit, tier):
    r = UnitResult()
    k = unit["kind"]
    if k == "fresh":
        run_fresh(unit, tier, r)
        return r
    if k == "entry-big":
        run_entry_big(r)
        return r
    if k == "entry-kw":
        run_entry_kw(r)
        return r
    if k == "history":
        r.export_states = True
        run_history(unit, tier, r)
    elif k == "schedule":
        run_schedule(unit, tier, r)
    else:
        run_entry(unit, tier, r)
    return r


def replay(case):
    r = UnitResult()
    if "entrykw" in case:
        run_entry_kw(r, only=case["entrykw"])
        return [v for v in r.violations if v["case"]["k"] == case["k"] and v["case"]["data"] == case["data"]] or r.violations
    if "entrybig" in case:
        run_entry_big(r)
        return [v for v in r.violations if v["case"]["entrybig"][0] == case["entrybig"][0]]
    if "repeat" in case:
        run_history({"first": [case["repeat"]]}, "quick", r)
        return [v for v in r.violations if "repeat" in v["case"]]
    if "alias" in case:
        run_history({"first": [case["alias"]]}, "quick", r)
        return [v for v in r.violations if "alias" in v["case"]]
    if "fresh" in case:
        run_fresh({"names": [case["fresh"]]}, "quick", r)
        return r.violations
    if "history" in case:
        cs = calls()
        base = pristine_results()
        p = Pool()
        out = []
        fp = fingerprint(p)
        for n in case["history"]:
            o = do(p, cs[n])
            if o != base[n]:
                out.append({"sig": "C17/result-depends-on-history/" + n.split(" ")[0], "detail": "%r gives %r, pristine %r" % (n, o, base[n])})
        if len(case["history"]) == 1 and fingerprint(p) != fp:
            out.append({"sig": "C17/state-changed-by-call", "detail": "fingerprint changed"})
        return out
    if "pair" in case:
        unit = {"pair": case["pair"]}
        name, an, bn = thread_pairs()[case["pair"]]
        cs = calls()
        base = pristine_results()
        prefix = os.path.join(REPO, "construct") + os.sep
        outs = []
        for _ in range(2):
            p = Pool()
            il = sched.Interleaver([lambda: cs[an](p), lambda: cs[bn](p)], preempt_at=case["preempt"], first=case["first"], trace_prefix=prefix)
            outs.append(repr(il.run()))
        if outs[0] != outs[1]:
            raise RuntimeError("machinery error: replaying the schedule twice gave different observations")
        res = eval(outs[0], {"Label": T.Label})
        bad = []
        for i, nm in enumerate((an, bn)):
            want = base[nm]
            got = res[i]
            if got is None or got[0] != want[0] or (got[0] == "ok" and not T.eqv(got[1], want[1])) or (got[0] == "exc" and got[1] != want[1]):
                bad.append({"sig": "C17/result-depends-on-schedule/" + name, "detail": "thread %d: %r, sequentially %r" % (i, got, want)})
        return bad
    if "entry" in case:
        ts = entry_terms()
        idx = [i for i, t in enumerate(ts) if t == case["term"]]
        if not idx:
            return []
        run_entry({"from": idx[0], "to": idx[0] + 1}, "quick", r)
        return r.violations
    return []
