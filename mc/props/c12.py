"""C12 - documented construct equivalences hold extensionally (both sides run on the same inputs)."""
import itertools, enum
from ..engine import UnitResult, jkey, watchdog, Hang
from .. import terms as T
from .c03 import sigma, S6

INFO = {
    "rule": "every <--> law of the docstrings/docs plus the documented operator spellings, instantiated for every parameter combination "
            "(widths 1..8 quick / 1..16 thorough x signed x swapped, moduli, counts 0..3, label sets), each side parsed on every byte string "
            "of the relevant length +-1 over S6 (lengths <= 4 quick / <= 6 thorough; all 65536 strings for widths <= 2; patterns beyond) and built from the integer/value alphabet including "
            "out-of-range values and non-integers. Oracle: both sides accept with equal value / identical bytes or both reject; sizeof "
            "equal or both SizeofError. non-trivial = both sides accepted and values/bytes were compared; distinct = (law instance, input)",
    "bounds": {"quick": {"max_width": 8, "s6_upto": 4}, "thorough": {"max_width": 16, "s6_upto": 6}},
    "trusted_base": ["none beyond the two sides of each law (pure differential)"],
    "assumptions": ["display subclasses (HexDisplayedInteger etc.) are compared by value; the Restreamed docstring's spelling of Bitwise/"
                    "Bytewise lists decoder and encoder in the opposite order to the code of Bitwise() - a documentation slip, not compared"],
}


def out(f):
    import construct as C
    try:
        with watchdog(3):
            return ("ok", f())
    except Hang:
        return ("hang",)
    except C.ConstructError as e:
        return ("rej", type(e).__name__)
    except Exception as e:
        return ("rej", "foreign:" + type(e).__name__)


_S6_UPTO = [4]      # all strings over S6 up to this length (thorough: 6); longer ones by pattern


def strings_len(n, exhaustive_upto=2):
    res = []
    for m in (n - 1, n, n + 1):
        if m < 0:
            continue
        if m <= exhaustive_upto:
            res += [v.to_bytes(m, "big") for v in range(256 ** m)] if m else [b""]
        else:
            if m <= _S6_UPTO[0]:
                res += [bytes(t) for t in itertools.product(S6, repeat=m)]
            else:
                pats = [bytes(m), b"\xff" * m, b"\x80" + bytes(m - 1), bytes(m - 1) + b"\x01", b"\x7f" + b"\xff" * (m - 1), bytes((i * 37 + 11) % 256 for i in range(m)),
                        b"\x01" + bytes(m - 1), b"\xff" * (m - 1) + b"\x00", b"\x80" * m, bytes(range(1, m + 1))]
                for i in range(m):
                    b = bytearray(m); b[i] = 0x80; pats.append(bytes(b))
                    b = bytearray(b"\xff" * m); b[i] = 0x7f; pats.append(bytes(b))
                res += pats
    return list(dict.fromkeys(res))


def int_values(n, signed):
    bits = 8 * n
    lo, hi = (-(1 << (bits - 1)), (1 << (bits - 1)) - 1) if signed else (0, (1 << bits) - 1)
    vals = {lo, lo + 1, -2, -1, 0, 1, 2, 126, 127, 128, 255, 256, hi - 1, hi, lo - 1, hi + 1, 1 << (bits - 1), (1 << (bits - 1)) - 1, -(1 << (bits - 1))}
    k = 8
    while k < bits:
        vals |= {(1 << k) - 1, 1 << k, -(1 << k)}
        k += 8
    return sorted(vals) + [1.0, 1.5, "1", None, b"\x01", True]


def laws(tier):
    """-> list of (family, name, mkA, mkB, inputs, values, kw)"""
    import construct as C
    _S6_UPTO[0] = INFO["bounds"][tier]["s6_upto"]
    W = INFO["bounds"][tier]["max_width"]
    L = []
    # plus the size axis: widths around 2^5, 2^6, 2^7 bytes (256, 512, 1024 bits), pattern inputs only
    widths = list(range(1, W + 1)) + [31, 32, 33, 40, 64, 65, 128, 129]
    for n in widths:
        for signed in (False, True):
            for swapped in (False, True):
                ins, vals = strings_len(n), int_values(n, signed)
                nm = "n=%d,signed=%s,swapped=%s" % (n, signed, swapped)
                L.append(("BytesInteger<->Bitwise(BitsInteger)", nm, (lambda n=n, s=signed, w=swapped: C.BytesInteger(n, s, w)),
                          (lambda n=n, s=signed, w=swapped: C.Bitwise(C.BitsInteger(8 * n, s, w))), ins, vals, {}))
                L.append(("BitsInteger<->Bytewise(BytesInteger)", nm, (lambda n=n, s=signed, w=swapped: C.Bitwise(C.BitsInteger(8 * n, s, w))),
                          (lambda n=n, s=signed, w=swapped: C.Bitwise(C.Bytewise(C.BytesInteger(n, s, w)))), ins, vals, {}))
                L.append(("BytesInteger(expr params)<->BytesInteger", nm, (lambda n=n, s=signed, w=swapped: C.BytesInteger(C.this.n, s, C.this.w)),
                          (lambda n=n, s=signed, w=swapped: C.BytesInteger(n, s, w)), ins, vals, {"n": n, "w": swapped}))
                if swapped:
                    L.append(("BytesInteger(swapped)<->ByteSwapped(BytesInteger)", nm, (lambda n=n, s=signed: C.BytesInteger(n, s, True)),
                              (lambda n=n, s=signed: C.ByteSwapped(C.BytesInteger(n, s, False))), ins, vals, {}))
    # Int24
    for signed in (False, True):
        s = "s" if signed else "u"
        ins, vals = strings_len(3), int_values(3, signed)
        for a, b in (("Int24%sl" % s, lambda sg=signed: C.ByteSwapped(getattr(C, "Int24%sb" % ("s" if sg else "u")))),
                     ("Int24%sl" % s, lambda sg=signed: C.BytesInteger(3, sg, True)),
                     ("Int24%sl" % s, lambda sg=signed: C.ByteSwapped(C.BytesInteger(3, sg))),
                     ("Int24%sb" % s, lambda sg=signed: C.BytesInteger(3, sg, False)),
                     ("Int24%sn" % s, lambda sg=signed: C.BytesInteger(3, sg, True))):
            L.append(("Int24 aliases", "%s<->%d" % (a, len(L)), (lambda a=a: getattr(C, a)), b, ins, vals, {}))
    # fixed-width names vs FormatField / BytesInteger, aliases
    fmts = {1: "b", 2: "h", 4: "l", 8: "q"}
    for n in (1, 2, 4, 8):
        for signed in (False, True):
            for e, ch in (("b", ">"), ("l", "<"), ("n", "=")):
                name = "Int%d%s%s" % (8 * n, "s" if signed else "u", e)
                f = fmts[n] if signed else fmts[n].upper()
                ins, vals = strings_len(n), int_values(n, signed)
                L.append(("Int names<->FormatField", name, (lambda nm=name: getattr(C, nm)), (lambda ch=ch, f=f: C.FormatField(ch, f)), ins, vals, {}))
                L.append(("Int names<->BytesInteger", name, (lambda nm=name: getattr(C, nm)),
                          (lambda n=n, sg=signed, e=e: C.BytesInteger(n, sg, e != "b")), ins, [v for v in vals if v is not True and not isinstance(v, float)], {}))
    for alias, name in (("Byte", "Int8ub"), ("Short", "Int16ub"), ("Int", "Int32ub"), ("Long", "Int64ub"), ("Half", "Float16b"), ("Single", "Float32b"), ("Double", "Float64b")):
        n = {"Byte": 1, "Short": 2, "Int": 4, "Long": 8, "Half": 2, "Single": 4, "Double": 8}[alias]
        L.append(("aliases", "%s<->%s" % (alias, name), (lambda a=alias: getattr(C, a)), (lambda nm=name: getattr(C, nm)), strings_len(n), int_values(n, False) + [0.5, -0.0, 1e300], {}))
    for n, ffmt in ((2, "e"), (4, "f"), (8, "d")):
        for e, ch in (("b", ">"), ("l", "<"), ("n", "=")):
            name = "Float%d%s" % (8 * n, e)
            L.append(("Float names<->FormatField", name, (lambda nm=name: getattr(C, nm)), (lambda ch=ch, f=ffmt: C.FormatField(ch, f)), strings_len(n),
                      [0.0, -0.0, 1.0, 0.1, 1e-8, 65504.0, 65520.0, 3.4e38, 3.5e38, 1e308, float("inf"), 1, 2 ** 70, "1", None], {}))
    # Bit / Nibble / Octet
    for nm, w in (("Bit", 1), ("Nibble", 4), ("Octet", 8)):
        pad = (-w) % 8
        L.append(("Bit/Nibble/Octet<->BitsInteger", nm,
                  (lambda nm=nm, pad=pad: C.Bitwise(C.Struct("v" / getattr(C, nm), C.Padding(pad)))), (lambda w=w, pad=pad: C.Bitwise(C.Struct("v" / C.BitsInteger(w), C.Padding(pad)))),
                  strings_len(1), [{"v": v} for v in (0, 1, 2, 15, 16, 255, 256, -1, 1.0, None)], {}))
    # macros
    subs = [("Byte", lambda: C.Byte), ("Int16ul", lambda: C.Int16ul), ("VarInt", lambda: C.VarInt), ("CString", lambda: C.CString("ascii")),
            ("Const", lambda: C.Const(b"\x01\x02")), ("Struct", lambda: C.Struct("a" / C.Byte, "b" / C.VarInt))]
    genvals = [0, 1, 255, 256, 300, "ab", b"\x01\x02", None, {"a": 1, "b": 200}, [1, 2], -1]
    for sn, mk in subs:
        L.append(("Optional<->Select(x,Pass)", sn, (lambda mk=mk: C.Optional(mk())), (lambda mk=mk: C.Select(mk(), C.Pass)), sigma(4), genvals, {}))
        for cond in (True, False):
            L.append(("If<->IfThenElse(c,x,Pass)", "%s,%s" % (sn, cond), (lambda mk=mk, c=cond: C.If(c, mk())), (lambda mk=mk, c=cond: C.IfThenElse(c, mk(), C.Pass)), sigma(3), genvals, {}))
        L.append(("If<->IfThenElse(c,x,Pass)", "%s,this.c" % sn, (lambda mk=mk: C.If(C.this.c, mk())), (lambda mk=mk: C.IfThenElse(C.this.c, mk(), C.Pass)), sigma(3), genvals, {"c": 1}))
        for cf in ("Byte", "VarInt", "Int16ul", "Int8sb"):
            L.append(("PrefixedArray<->FocusedSeq expansion", "%s,%s" % (cf, sn), (lambda mk=mk, cf=cf: C.PrefixedArray(getattr(C, cf), mk())),
                      (lambda mk=mk, cf=cf: C.FocusedSeq("items", "count" / C.Rebuild(getattr(C, cf), C.len_(C.this.items)), "items" / mk()[C.this.count])),
                      sigma(4), [[], [1], [1, 2], [0] * 3, ["ab"], [b"\x01\x02"] * 2, [None], [{"a": 1, "b": 2}], None, 5], {}))
        for n in (0, 1, 2, 3):
            L.append(("x[n]<->Array", "%s[%d]" % (sn, n), (lambda mk=mk, n=n: mk()[n]), (lambda mk=mk, n=n: C.Array(n, mk())), sigma(4),
                      [[], [1], [1, 2], [1, 2, 3], ["ab"] * n, [b"\x01\x02"] * n, [None] * n, [{"a": 1, "b": 2}] * n], {}))
        L.append(("x[this.n]<->Array", sn, (lambda mk=mk: mk()[C.this.n]), (lambda mk=mk: C.Array(C.this.n, mk())), sigma(3), [[1, 2], [None] * 2, ["ab"] * 2], {"n": 2}))
        L.append(("name/x<->Renamed", sn, (lambda mk=mk: C.Struct("f" / mk())), (lambda mk=mk: C.Struct(C.Renamed(mk(), newname="f"))), sigma(3),
                  [{"f": v} for v in genvals], {}))
        L.append(("x*doc<->Renamed", sn, (lambda mk=mk: C.Struct("f" / mk() * "docs")), (lambda mk=mk: C.Struct(C.Renamed(C.Renamed(mk(), newname="f"), newdocs="docs"))), sigma(3),
                  [{"f": v} for v in genvals], {}))
        for m in (2, 4):
            L.append(("AlignedStruct<->Struct(Aligned)", "%s,%d" % (sn, m), (lambda mk=mk, m=m: C.AlignedStruct(m, "a" / mk(), "b" / C.Byte)),
                      (lambda mk=mk, m=m: C.Struct("a" / C.Aligned(m, mk()), "b" / C.Aligned(m, C.Byte))), sigma(4), [{"a": v, "b": 7} for v in genvals], {}))
    for n in (0, 1, 3):
        for pat in (b"\x00", b"\xff"):
            L.append(("Padding<->Padded(n,Pass)", "%d,%r" % (n, pat), (lambda n=n, p=pat: C.Padding(n, p)), (lambda n=n, p=pat: C.Padded(n, C.Pass, p)), sigma(4), [None, 1, b"x"], {}))
    L.append(("a+b<->Struct", "2", (lambda: ("a" / C.Byte) + ("b" / C.Int16ul)), (lambda: C.Struct("a" / C.Byte, "b" / C.Int16ul)), sigma(4), [{"a": 1, "b": 2}, {"a": 1}, {"a": 256, "b": 0}, None], {}))
    L.append(("a+b<->Struct", "3", (lambda: ("a" / C.Byte) + ("b" / C.Int16ul) + ("c" / C.VarInt)), (lambda: C.Struct("a" / C.Byte, "b" / C.Int16ul, "c" / C.VarInt)), sigma(4),
              [{"a": 1, "b": 2, "c": 300}, {"a": 1}], {}))
    L.append(("a>>b<->Sequence", "2", (lambda: C.Byte >> C.Int16ul), (lambda: C.Sequence(C.Byte, C.Int16ul)), sigma(4), [[1, 2], [1], [1, 2, 3], [256, 0], None], {}))
    L.append(("a>>b<->Sequence", "3", (lambda: C.Byte >> C.VarInt >> C.Flag), (lambda: C.Sequence(C.Byte, C.VarInt, C.Flag)), sigma(4), [[1, 300, True], [1, 2]], {}))
    bit_members = lambda: ("a" / C.BitsInteger(3), "b" / C.BitsInteger(5, signed=True), "c" / C.Flag, "d" / C.BitsInteger(7))
    L.append(("BitStruct<->Bitwise(Struct)", "3+5+1+7", (lambda: C.BitStruct(*bit_members())), (lambda: C.Bitwise(C.Struct(*bit_members()))), strings_len(2),
              [{"a": a, "b": b, "c": c, "d": d} for a in (0, 7, 8) for b in (-16, 15, 16) for c in (0, 1) for d in (0, 127, 128)], {}))
    # Enum / FlagsEnum from enum classes vs keywords
    class E(enum.IntEnum):
        one = 1
        two = 2
        big = 200
    class F(enum.IntFlag):
        r = 4
        w = 2
        x = 1
    class E2(enum.Enum):
        a = 1
        b = 7
    labels = ["one", "two", "big", "nope", 1, 2, 3, 200, 255, 256, E.one, None, 1.5]
    L.append(("Enum(IntEnum)<->keywords", "Byte", (lambda: C.Enum(C.Byte, E)), (lambda: C.Enum(C.Byte, one=1, two=2, big=200)), strings_len(1), labels, {}))
    L.append(("Enum(IntEnum)<->keywords", "VarInt", (lambda: C.Enum(C.VarInt, E)), (lambda: C.Enum(C.VarInt, one=1, two=2, big=200)), sigma(3), labels, {}))
    L.append(("Enum(Enum)<->keywords", "Byte", (lambda: C.Enum(C.Byte, E2)), (lambda: C.Enum(C.Byte, a=1, b=7)), strings_len(1), ["a", "b", 1, 7, 9, "c"], {}))
    L.append(("Enum(IntEnum+kw)<->keywords", "Byte", (lambda: C.Enum(C.Byte, E, extra=9)), (lambda: C.Enum(C.Byte, extra=9, one=1, two=2, big=200)), strings_len(1), labels + ["extra"], {}))
    flabels = ["r", "w", "x", "r|w", "x|nope", "", 0, 1, 7, 8, 255, {"r": True}, {"r": True, "x": False, "w": 1}, {"nope": True}, None, F.r, F.r | F.x]
    L.append(("FlagsEnum(IntFlag)<->keywords", "Byte", (lambda: C.FlagsEnum(C.Byte, F)), (lambda: C.FlagsEnum(C.Byte, r=4, w=2, x=1)), strings_len(1), flabels, {}))
    L.append(("FlagsEnum(IntFlag)<->keywords", "Int16ul", (lambda: C.FlagsEnum(C.Int16ul, F)), (lambda: C.FlagsEnum(C.Int16ul, r=4, w=2, x=1)), strings_len(2), flabels, {}))
    # a zoo of enum classes (zero-valued, negative, aliased, single, composite flag members): merging a class means merging
    # name -> value of every member that iterating the class yields (the documented meaning), so the keyword twin is spelled from that
    class EZ(enum.IntEnum):
        none = 0
        read = 1
        write = 2
    class EN(enum.IntEnum):
        neg = -1
        zero = 0
        pos = 1
        low = -128
    class EA(enum.IntEnum):
        a = 1
        b = 1
        c = 2
    class E1(enum.IntEnum):
        single = 5
    class EP(enum.Enum):
        off = 0
        on = 1
    class FZ(enum.IntFlag):
        none = 0
        r = 4
        w = 2
        x = 1
        rw = 6
    class F1(enum.IntFlag):
        hi = 128
    for cls, subs in ((EZ, ("Byte", "VarInt")), (EN, ("Int8sb", "ZigZag")), (EA, ("Byte",)), (E1, ("Byte",)), (EP, ("Byte",))):
        kw = {m.name: m.value for m in cls}
        labs = list(cls.__members__) + sorted({m.value for m in cls} | {0, 1, 2, 3, -1, 127}) + ["nope", None] + list(cls)[:2]
        for sn in subs:
            L.append(("Enum(class)<->keywords", "%s/%s" % (cls.__name__, sn), (lambda cls=cls, sn=sn: C.Enum(getattr(C, sn), cls)),
                      (lambda kw=kw, sn=sn: C.Enum(getattr(C, sn), **kw)), strings_len(1) if sn != "VarInt" else sigma(2), labs, {}))
            L.append(("Enum(class+kw)<->keywords", "%s/%s" % (cls.__name__, sn), (lambda cls=cls, sn=sn: C.Enum(getattr(C, sn), cls, extra=9)),
                      (lambda kw=kw, sn=sn: C.Enum(getattr(C, sn), **dict(kw, extra=9))), strings_len(1) if sn != "VarInt" else sigma(2), labs + ["extra"], {}))
    for cls in (FZ, F1, EZ):
        kw = {m.name: m.value for m in cls}
        labs = list(cls.__members__) + ["|".join(list(cls.__members__)[:2]), "", 0, 1, 6, 7, 128, 255, {n: True for n in list(cls.__members__)[:2]},
                                        {n: False for n in cls.__members__}, {"nope": True}, None] + list(cls)[:2]
        L.append(("FlagsEnum(class)<->keywords", cls.__name__, (lambda cls=cls: C.FlagsEnum(C.Byte, cls)), (lambda kw=kw: C.FlagsEnum(C.Byte, **kw)), strings_len(1), labs, {}))
    # Hex / HexDump vs bare
    for n in widths:
        for signed in (False, True):
            L.append(("Hex(x)<->x", "BytesInteger(%d,%s)" % (n, signed), (lambda n=n, s=signed: C.Hex(C.BytesInteger(n, s))), (lambda n=n, s=signed: C.BytesInteger(n, s)),
                      strings_len(n), int_values(n, signed)[:24], {}))
    for nm in ("Int8sb", "Int16ul", "Int32sb", "Int64ul", "VarInt", "ZigZag"):
        L.append(("Hex(x)<->x", nm, (lambda nm=nm: C.Hex(getattr(C, nm))), (lambda nm=nm: getattr(C, nm)), sigma(4), [0, 1, -1, 127, 128, 255, 300, 2 ** 40, None, "x", True], {}))
    bvals = [b"", b"a", b"ab", b"abc", "ab", 5, None, bytearray(b"ab")]
    for wrapper in ("Hex", "HexDump"):
        for nm, mk in (("Bytes(2)", lambda: C.Bytes(2)), ("GreedyBytes", lambda: C.GreedyBytes), ("Prefixed", lambda: C.Prefixed(C.Byte, C.GreedyBytes)), ("Bytes(this.n)", lambda: C.Bytes(C.this.n))):
            L.append(("%s(x)<->x" % wrapper, nm, (lambda mk=mk, w=wrapper: getattr(C, w)(mk())), mk, sigma(4), bvals, {"n": 2}))
        L.append(("%s(x)<->x" % wrapper, "RawCopy(Int16ul)", (lambda w=wrapper: getattr(C, w)(C.RawCopy(C.Int16ul))), (lambda: C.RawCopy(C.Int16ul)), sigma(3),
                  [{"value": 1}, {"data": b"ab"}, {"value": 70000}, {}, None], {}))
        L.append(("%s(x)<->x" % wrapper, "Struct", (lambda w=wrapper: C.Struct("a" / getattr(C, w)(C.Bytes(1)), "b" / getattr(C, w)(C.Byte))), (lambda: C.Struct("a" / C.Bytes(1), "b" / C.Byte)), sigma(3),
                  [{"a": b"x", "b": 1}, {"a": b"xy", "b": 1}], {}))
    return L


def units(tier):
    fams = []
    for i, l in enumerate(laws(tier)):
        fams.append({"law": l[0], "index": i})
    return fams


_LAWS = {}


EMBED_CAP = 24


def check_law(law, data=None, value=None, embed=None):
    fam, name, mkA, mkB, ins, vals, kw = law
    A, B = mkA(), mkB()
    out_v = []
    def bad(kind, case, detail):
        out_v.append({"sig": "C12/%s/%s" % (fam, kind), "case": case, "detail": "%s [%s]: %s" % (fam, name, detail)})
    n_nt = 0
    n_emb = 0
    for x in (ins if data is None and value is None and not embed else ([data] if data is not None else [])):
        a = out(lambda: T.norm(A.parse(x, **kw)))
        b = out(lambda: T.norm(B.parse(x, **kw)))
        if a[0] == "ok" and b[0] == "ok":
            n_nt += 1
            if not T.eqv(a[1], b[1]):
                bad("parse-values-differ", {"parse": x}, "parse(%s): left %r, right %r" % (x.hex(), a[1], b[1]))
        elif a[0] != b[0]:
            bad("parse-accept-differs", {"parse": x}, "parse(%s): left %r, right %r" % (x.hex(), a, b))
    for v in (vals if data is None and value is None and not embed else ([value[0]] if value is not None else [])):
        a = out(lambda: A.build(v, **kw))
        b = out(lambda: B.build(v, **kw))
        if a[0] == "ok" and b[0] == "ok":
            n_nt += 1
            if a[1] != b[1]:
                bad("build-bytes-differ", {"build": repr(v)}, "build(%r): left %s, right %s" % (v, a[1].hex(), b[1].hex()))
        elif a[0] != b[0]:
            bad("build-accept-differs", {"build": repr(v)}, "build(%r): left %r, right %r" % (v, a, b))
    if data is None and value is None or embed:
        # interchangeable also as a part: a Struct member (value given, None, key absent), a Sequence item, an Array element
        import construct as C
        hosts = {
            "struct": (lambda X: C.Struct("h" / C.Byte, "m" / X, "t" / C.Byte), lambda x: b"\x01" + x + b"\x02",
                       lambda v: [dict(h=1, m=v, t=2), dict(h=1, t=2)]),
            "sequence": (lambda X: C.Sequence(C.Byte, X), lambda x: b"\x01" + x, lambda v: [[1, v]]),
            "array": (lambda X: C.Array(2, X), lambda x: x + x, lambda v: [[v, v]]),
        }
        for hname, (mkH, wrap_in, wrap_vals) in hosts.items():
            if kw and hname != "array":
                continue        # the law's expressions refer to keyword arguments as this.<key>: a scope-pushing host would hide them
            HA, HB = mkH(A), mkH(B)
            for x in ins[:EMBED_CAP]:
                xx = wrap_in(x)
                case = {"embed": hname, "parse": xx}
                if embed and embed != case:
                    continue
                n_emb += 1
                a = out(lambda: T.norm(HA.parse(xx, **kw)))
                b = out(lambda: T.norm(HB.parse(xx, **kw)))
                if a[0] == "ok" and b[0] == "ok":
                    n_nt += 1
                    if not T.eqv(a[1], b[1]):
                        bad("embedded-parse-values-differ", case, "inside %s, parse(%s): left %r, right %r" % (hname, xx.hex(), a[1], b[1]))
                elif a[0] != b[0]:
                    bad("embedded-parse-accept-differs", case, "inside %s, parse(%s): left %r, right %r" % (hname, xx.hex(), a, b))
            for v in list(vals[:EMBED_CAP]) + [None]:
                for vv in wrap_vals(v):
                    case = {"embed": hname, "build": repr(vv)}
                    if embed and embed != case:
                        continue
                    n_emb += 1
                    a = out(lambda: HA.build(vv, **kw))
                    b = out(lambda: HB.build(vv, **kw))
                    if a[0] == "ok" and b[0] == "ok":
                        n_nt += 1
                        if a[1] != b[1]:
                            bad("embedded-build-bytes-differ", case, "inside %s, build(%r): left %s, right %s" % (hname, vv, a[1].hex(), b[1].hex()))
                    elif a[0] != b[0]:
                        bad("embedded-build-accept-differs", case, "inside %s, build(%r): left %r, right %r" % (hname, vv, a, b))
    if data is None and value is None and not embed:
        sa = out(lambda: A.sizeof(**kw))
        sb = out(lambda: B.sizeof(**kw))
        if sa[0] != sb[0] or (sa[0] == "ok" and sa[1] != sb[1]):
            bad("sizeof-differs", {"sizeof": True}, "sizeof: left %r, right %r" % (sa, sb))
    return out_v, n_nt, n_emb


def run_unit(unit, tier):
    r = UnitResult()
    if tier not in _LAWS:
        _LAWS[tier] = laws(tier)
    law = _LAWS[tier][unit["index"]]
    vs, n_nt, n_emb = check_law(law)
    n = len(law[4]) + len(law[5]) + 1 + n_emb
    r.states += n
    r.evals += n
    r.transitions += 2 * n
    r.validated += n
    r.nontrivial += n_nt
    r.outcomes["compared"] += n
    for v in vs:
        v["case"].update({"law": law[0], "name": law[1], "index": unit["index"], "tier": tier})
        r.violation(v["sig"], v["case"], v["detail"])
    r.sample({"law": law[0], "instance": law[1], "inputs": len(law[4]), "values": len(law[5])})
    return r


def replay(case):
    ls = laws(case.get("tier", "quick"))
    law = ls[case["index"]]
    if law[0] != case["law"] or law[1] != case["name"]:
        cands = [l for l in ls if l[0] == case["law"] and l[1] == case["name"]]
        if not cands:
            return []
        law = cands[0]
    if "embed" in case:
        return check_law(law, embed={k: case[k] for k in ("embed", "parse", "build") if k in case})[0]
    if "parse" in case:
        return check_law(law, data=case["parse"])[0]
    if "build" in case:
        vals = [v for v in law[5] if repr(v) == case["build"]]
        return check_law(law, value=(vals[0],))[0] if vals else []
    return [v for v in check_law(law)[0] if "sizeof" in v["case"]]
