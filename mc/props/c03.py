"""C03 - encodings match an independent executable specification (mc/ref.py)."""
import io, itertools
from ..engine import UnitResult, jkey, watchdog, Hang
from .. import ref as R, terms as T, gen as G

INFO = {
    "rule": "every term of tiers T1..T4 (+T5 thorough) x (a) every value of its value domain plus an invalid-value alphabet: "
            "reference bytes vs library bytes, reject vs reject; (b) every byte string over S6={00,01,02,7f,80,ff} up to length L: "
            "value, consumed byte count and accept/reject of library vs reference; exhaustive small domains: every 8- and 16-bit "
            "integer through every public spelling, all Float16 patterns, VarInt/ZigZag below 2^14 (quick) / 2^21 (thorough). "
            "non-trivial = both sides accepted and value/bytes were compared; distinct = distinct (term, input)",
    "bounds": {"quick": {"L_T1": 4, "L_T2": 4, "L_T3": 3, "varint_below": 1 << 14},
               "thorough": {"L_T1": 6, "L_T2": 5, "L_T3": 4, "L_T5": 3, "varint_below": 1 << 21}},
    "trusted_base": ["mc/ref.py (independent reference interpreter; does not import construct)", "CPython codecs for the codec step of strings"],
    "assumptions": ["reject kinds are compared coarsely (any exception = reject); which exception is C06's business",
                    "NaN payloads are not compared (platform float conversion), only NaN-ness"],
}

S6 = [0x00, 0x01, 0x02, 0x7f, 0x80, 0xff]
_SIGMA = {}


def sigma(L):
    if L not in _SIGMA:
        out = []
        for n in range(L + 1):
            for t in itertools.product(S6, repeat=n):
                out.append(bytes(t))
        _SIGMA[L] = out
    return _SIGMA[L]


INVALID = [None, 1.5, "1", b"\x01", [1], {"a": 1}, -1, 256, 1 << 64, -(1 << 63) - 1, 1 << 128]


def chunks(xs, n):
    for i in range(0, len(xs), n):
        yield xs[i:i + n]


def all_terms(tier):
    b = INFO["bounds"][tier]
    out = []
    out += [(t, "T1", b["L_T1"]) for t in G.tier1()]
    out += [(t, "T2", b["L_T2"]) for t in G.tier2(strict=False)]
    out += [(t, "T3", b["L_T3"]) for t in G.tier3(strict=False)]
    out += [(t, "T4", b["L_T2"]) for t in G.tier4()] + [(t, "TD", b["L_T2"]) for t in G.discard_terms() + G.select_records() + G.zero_size_terms() + G.sequence_twins()]
    # the same terms inside the streaming implementation of the bit/byte transforms (unsized content)
    out += [(t, "TSt", b["L_T3"]) for t in G.streaming_terms(1 if tier == "quick" else 2)]
    if tier == "thorough":
        out += [(t, "T5", b["L_T5"]) for t in G.tier5(strict=False)]
    return out


def units(tier):
    us = []
    terms = all_terms(tier)
    for i, ch in enumerate(chunks(terms, 8 if tier == "quick" else 4)):
        us.append({"kind": "terms", "terms": [[t, tn, L] for t, tn, L in ch]})
    for w in (1, 2):
        for signed in (False, True):
            for e in "bln":
                us.append({"kind": "smallint", "w": w, "signed": signed, "endian": e})
    for e in "bln":
        us.append({"kind": "float16", "endian": e})
    us.append({"kind": "floats"})
    us.append({"kind": "macros"})
    lim = INFO["bounds"][tier]["varint_below"]
    step = 1 << 12 if tier == "quick" else 1 << 15
    for lo in range(0, lim, step):
        us.append({"kind": "varint", "lo": lo, "hi": lo + step})
    us.append({"kind": "varint-extra"})
    us.append({"kind": "prefix-boundary"})
    for enc in TEXT_ENCODINGS:
        us.append({"kind": "text", "encoding": enc})
    from .. import scale
    for n in scale.sizes(tier):
        us.append({"kind": "scale", "sizes": [n]})
    us.append({"kind": "wideints"})
    us.append({"kind": "negative-lengths"})
    return us


_BUDGET = [3]      # CPU seconds per execution; the size axis raises it for its long inputs


def real_parse(d, data, kw):
    s = io.BytesIO(data)
    try:
        with watchdog(_BUDGET[0]):
            v = d.parse_stream(s, **kw)
        return ("ok", T.norm(v), s.tell())
    except Hang:
        return ("hang",)
    except Exception as e:
        return ("rej", type(e).__name__)


def ref_parse(t, data, kw):
    try:
        v, end = R.parse(t, data, **kw)
        return ("ok", v, end)
    except R.RefHang:
        return ("refhang",)
    except R.Stop:
        return ("rej", "StopFieldError")
    except R.Reject as r:
        return ("rej", r.kind)
    except Exception as e:
        return ("rej", "foreign:" + type(e).__name__)


def real_build(d, v, kw):
    try:
        with watchdog(_BUDGET[0]):
            return ("ok", d.build(v, **kw))
    except Hang:
        return ("hang",)
    except Exception as e:
        return ("rej", type(e).__name__)


def ref_build(t, v, kw):
    try:
        return ("ok", R.build(t, v, **kw))
    except R.Stop:
        return ("rej", "StopFieldError")
    except R.Reject as r:
        return ("rej", r.kind)
    except Exception as e:
        return ("rej", "foreign:" + type(e).__name__)


def cmp_parse(t, d, data, kw, tsig):
    a = ref_parse(t, data, kw)
    if a[0] == "refhang":
        return None, []
    b = real_parse(d, data, kw)
    case = {"term": t, "op": "parse", "data": data, "kw": kw}
    if b[0] == "hang":
        return a, [{"sig": "C03/parse-hang/" + tsig, "case": case, "detail": "%s.parse(%s) did not terminate; reference: %s" % (T.show(t), shex(data), srepr(a[:2]))}]
    if a[0] == "ok" and b[0] == "ok":
        if not T.eqv(a[1], b[1]):
            return a, [{"sig": "C03/parse-value-differs/" + tsig, "case": case,
                        "detail": "%s.parse(%s) = %s, reference %s" % (T.show(t), shex(data), srepr(b[1]), srepr(a[1]))}]
        if a[2] != b[2]:
            return a, [{"sig": "C03/parse-consumed-differs/" + tsig, "case": case,
                        "detail": "%s.parse(%s) consumed %d bytes, reference %d" % (T.show(t), data.hex(), b[2], a[2])}]
        return a, []
    if a[0] == "ok" and b[0] == "rej":
        return a, [{"sig": "C03/parse-rejects-valid/" + tsig, "case": case,
                    "detail": "%s.parse(%s) raised %s, reference accepts with %s" % (T.show(t), shex(data), b[1], srepr(a[1]))}]
    if a[0] == "rej" and b[0] == "ok":
        return a, [{"sig": "C03/parse-accepts-invalid/" + tsig, "case": case,
                    "detail": "%s.parse(%s) = %s, reference rejects (%s)" % (T.show(t), shex(data), srepr(b[1]), a[1])}]
    return a, []


def cmp_build(t, d, v, kw, tsig):
    a = ref_build(t, v, kw)
    b = real_build(d, v, kw)
    case = {"term": t, "op": "build", "value": enc_value(v), "kw": kw}
    if b[0] == "hang":
        return a, [{"sig": "C03/build-hang/" + tsig, "case": case, "detail": "build did not terminate"}]
    if a[0] == "ok" and b[0] == "ok":
        if a[1] != b[1]:
            return a, [{"sig": "C03/build-bytes-differ/" + tsig, "case": case,
                        "detail": "%s.build(%s) = %s, reference %s" % (T.show(t), srepr(v), shex(b[1]), shex(a[1]))}]
        return a, []
    if a[0] == "ok" and b[0] == "rej":
        return a, [{"sig": "C03/build-rejects-valid/" + tsig, "case": case,
                    "detail": "%s.build(%s) raised %s, reference emits %s" % (T.show(t), srepr(v), b[1], shex(a[1]))}]
    if a[0] == "rej" and b[0] == "ok":
        return a, [{"sig": "C03/build-accepts-invalid/" + tsig, "case": case,
                    "detail": "%s.build(%s) = %s, reference rejects (%s)" % (T.show(t), srepr(v), shex(b[1]), a[1])}]
    return a, []


def srepr(v, limit=300):
    """repr that survives integers beyond the interpreter's int->str digit limit and stays short"""
    try:
        s = repr(v)
    except ValueError:
        s = "<%s holding an integer of more than 4300 digits>" % type(v).__name__
    return s if len(s) <= limit else s[:limit] + "...(%d chars)" % len(s)


def shex(b, limit=80):
    h = bytes(b).hex()
    return h if len(h) <= 2 * limit else "%s...(%d bytes)" % (h[:2 * limit], len(b))


class MyInt(int):
    """an int subclass, as produced by user code or other libraries"""


class Colour(__import__("enum").IntEnum):
    one = 1
    big = 300


class MyStr(str):
    pass


# legal but unusual spellings of ordinary values: every field is built from each of them and compared with the reference
EXOTIC = {"True": True, "False": False, "MyInt(1)": MyInt(1), "MyInt(255)": MyInt(255), "MyInt(-1)": MyInt(-1), "Colour.one": Colour.one, "Colour.big": Colour.big,
          "MyStr(a)": MyStr("a"), "bytearray(ab)": bytearray(b"ab"), "memoryview(ab)": memoryview(b"ab"), "tuple(1,2)": (1, 2), "float 1.0": 1.0}


def enc_value(v):
    """JSON-able encoding of a build value (replay decodes it)"""
    for name, x in EXOTIC.items():
        if v is x:
            return {"$exotic": name}
    if isinstance(v, R.Label):
        return {"$label": [str.__str__(v), v.intvalue]}
    if isinstance(v, bool) or v is None or isinstance(v, (int, str)):
        if isinstance(v, int) and not isinstance(v, bool) and abs(v) > 1 << 53:
            return {"$int": hex(v)}
        return v
    if isinstance(v, float):
        return {"$float": v.hex()}
    if isinstance(v, bytes):
        return {"$b": v.hex()}
    if isinstance(v, bytearray):
        return {"$ba": bytes(v).hex()}
    if isinstance(v, dict):
        return {"$dict": [[enc_value(k), enc_value(x)] for k, x in v.items()]}
    if isinstance(v, (list, tuple)):
        return {"$list": [enc_value(x) for x in v]}
    return {"$repr": repr(v)}


def dec_value(e):
    if isinstance(e, dict):
        if "$int" in e:
            return int(e["$int"], 0)
        if "$label" in e:
            return R.Label(e["$label"][0], e["$label"][1])
        if "$float" in e:
            return float.fromhex(e["$float"])
        if "$b" in e:
            return bytes.fromhex(e["$b"])
        if "$ba" in e:
            return bytearray(bytes.fromhex(e["$ba"]))
        if "$dict" in e:
            return {dec_value(k): dec_value(x) for k, x in e["$dict"]}
        if "$list" in e:
            return [dec_value(x) for x in e["$list"]]
        if "$exotic" in e:
            return EXOTIC[e["$exotic"]]
        if "$repr" in e:
            return eval(e["$repr"])
    if isinstance(e, bytes):
        return e
    return e


NESTED_BAD = ["x", b"zz", -1, 1 << 70, 1.5, None, [1]]
# integers just outside / on the far side of the range of every narrow field width (a value valid for the unsigned reading of a
# signed field and vice versa): used where the leaf holds an integer
NESTED_BAD_INT = [2, 4, 7, 8, 9, 15, 16, 127, 128, 129, 255, 256, 32768, 65535, 65536, -2, -4, -5, -8, -9, -128, -129, -32768, -32769]


def boundary_invalids(t):
    """for an integer leaf term: the values around both ends of its range and of the range of the other signedness"""
    k = t[0]
    if k == "Int":
        w, signed = 8 * t[1], t[2]
    elif k == "BytesInteger" and isinstance(t[1], int):
        w, signed = 8 * t[1], t[2]
    elif k == "BitsInteger" and isinstance(t[1], int):
        w, signed = t[1], t[2]
    else:
        return []
    if w <= 0:
        return []
    half, full = 1 << (w - 1), 1 << w
    return sorted({-full, -half - 1, -half, -half + 1, -1, 0, half - 1, half, half + 1, full - 1, full, full + 1})


def _positions(v, prefix=()):
    out = []
    if isinstance(v, dict):
        for k, x in v.items():
            out += _positions(x, prefix + (k,))
    elif isinstance(v, list):
        out.append(("len",) + prefix)
        for i, x in enumerate(v):
            out += _positions(x, prefix + (i,))
    else:
        out.append(("leaf",) + prefix)
    return out


def _replace(v, pos, f):
    if not pos:
        return f(v)
    if isinstance(v, dict):
        return {k: (_replace(x, pos[1:], f) if k == pos[0] else x) for k, x in v.items()}
    return [(_replace(x, pos[1:], f) if i == pos[0] else x) for i, x in enumerate(v)]


def _get(v, pos):
    for p in pos:
        v = v[p]
    return v


def corruptions(v):
    out = []
    for p in _positions(v)[:12]:
        kind, pos = p[0], p[1:]
        if kind == "leaf":
            leaf = _get(v, pos)
            for b in NESTED_BAD + (NESTED_BAD_INT if isinstance(leaf, int) and not isinstance(leaf, bool) else []):
                out.append(_replace(v, pos, lambda _x, b=b: b))
        else:
            out.append(_replace(v, pos, lambda lst: lst[:-1]))
            out.append(_replace(v, pos, lambda lst: lst + (lst[:1] or [0])))
    return out


def macro_cases():
    """declaration spellings the term builder does not use: name -> (factory of the real construct, the term it must mean).
    Keyword members are members like positional ones (in keyword order, after the positional ones) for every composite that takes them."""
    import construct as C
    B, I16 = G.BYTE, G.I(2, False, "b")
    al = lambda x: ["Aligned", 4, x, b"\x00"]
    bit = lambda n: ["BitsInteger", n, False, False]
    return {
        "AlignedStruct(4, a/Byte, b/Int16ub)": (lambda: C.AlignedStruct(4, "a" / C.Byte, "b" / C.Int16ub), ["Struct", [["a", al(B)], ["b", al(I16)]]]),
        "AlignedStruct(4, a=Byte, b=Int16ub)": (lambda: C.AlignedStruct(4, a=C.Byte, b=C.Int16ub), ["Struct", [["a", al(B)], ["b", al(I16)]]]),
        "AlignedStruct(4, a/Byte, b=Int16ub, c=Byte)": (lambda: C.AlignedStruct(4, "a" / C.Byte, b=C.Int16ub, c=C.Byte), ["Struct", [["a", al(B)], ["b", al(I16)], ["c", al(B)]]]),
        "Struct(a=Byte, b=Int16ub)": (lambda: C.Struct(a=C.Byte, b=C.Int16ub), ["Struct", [["a", B], ["b", I16]]]),
        "Struct(a/Byte, b=VarInt)": (lambda: C.Struct("a" / C.Byte, b=C.VarInt), ["Struct", [["a", B], ["b", ["VarInt"]]]]),
        "Sequence(Byte, b=Int16ub)": (lambda: C.Sequence(C.Byte, b=C.Int16ub), ["Sequence", [[None, B], ["b", I16]]]),
        "BitStruct(a=BitsInteger(3), b=BitsInteger(5))": (lambda: C.BitStruct(a=C.BitsInteger(3), b=C.BitsInteger(5)), ["Bitwise", ["Struct", [["a", bit(3)], ["b", bit(5)]]]]),
        "BitStruct(a/Nibble, b=Nibble)": (lambda: C.BitStruct("a" / C.Nibble, b=C.Nibble), ["Bitwise", ["Struct", [["a", bit(4)], ["b", bit(4)]]]]),
        "FocusedSeq('b', a=Const, b=Byte)": (lambda: C.FocusedSeq("b", a=C.Const(b"\x01"), b=C.Byte), ["FocusedSeq", "b", [["a", ["ConstB", b"\x01"]], ["b", B]]]),
        "LazyStruct(a=Byte, b=Int16ub)": (lambda: C.LazyStruct(a=C.Byte, b=C.Int16ub), ["LazyStruct", [["a", B], ["b", I16]]]),
        "Select(a=Int16ub, b=Byte)": (lambda: C.Select(a=C.Int16ub, b=C.Byte), ["Select", [I16, B]]),
        "Union(0, a=Int16ub, b=Byte)": (lambda: C.Struct("u" / C.Union(0, a=C.Int16ub, b=C.Byte), "t" / C.Byte), ["Struct", [["u", ["Union", 0, [["a", I16], ["b", B]]]], ["t", B]]]),
        "Byte[2] / Array": (lambda: C.Byte[2], ["Array", 2, B]),
        "Padding(3, pattern)": (lambda: C.Struct("a" / C.Byte, C.Padding(3, b"\x7f"), "b" / C.Byte), ["Struct", [["a", B], [None, ["Padding", 3, b"\x7f"]], ["b", B]]]),
        "Optional(Const)": (lambda: C.Struct("o" / C.Optional(C.Const(b"\x01\x02")), "t" / C.Byte), ["Struct", [["o", ["Optional", ["ConstB", b"\x01\x02"]]], ["t", B]]]),
    }


def run_macros(r):
    for name, (mk, t) in macro_cases().items():
        n0 = len(r.violations)
        run_term(t, "TM", 4, r, d=mk())
        for v in r.violations[n0:]:
            v["case"]["macro"] = name
            v["detail"] = "[declared as %s] " % name + v["detail"]
    r.sample({"macro_spellings": len(macro_cases())})


def run_term(t, tn, L, r, d=None):
    try:
        d = T.mk(t) if d is None else d
    except Exception as e:
        r.violation("C03/construction-raised/" + T.sig_of(t), {"term": t, "op": "mk"}, "constructing %s raised %r" % (T.show(t), e))
        return
    tsig = T.sig_of(t)
    tk = jkey(t)
    for kw in G.kwargs_for(t):
        # ---- build direction
        try:
            vals = [v for v, _ in G.values(t)]
        except Exception:
            vals = []
        ctxdep = not G.attrs(t).ctxfree
        if ctxdep:
            vals = []
        seen = set()
        for v in vals + INVALID + boundary_invalids(t) + list(EXOTIC.values()):
            key = repr(v) + type(v).__name__
            if key in seen:
                continue
            seen.add(key)
            r.states += 1
            a, vs = cmp_build(t, d, v, kw, tsig)
            r.case(nontrivial=(a[0] == "ok" and not vs), outcome="build-" + a[0], validated=1)
            for x in vs:
                r.violation(x["sig"], x["case"], x["detail"])
        # ---- every member of a valid value made unbuildable in turn (wrong type, out of range, wrong list length)
        if not ctxdep or tn == "T4":
            base_vals = []
            for v in vals:
                if ref_build(t, v, kw)[0] == "ok" and isinstance(v, (dict, list)):
                    base_vals.append(v)
                if len(base_vals) >= 2:
                    break
            for v in base_vals:
                for v2 in corruptions(v):
                    key = repr(v2)
                    if key in seen:
                        continue
                    seen.add(key)
                    r.states += 1
                    a, vs = cmp_build(t, d, v2, kw, tsig)
                    r.case(nontrivial=(a[0] == "ok" and not vs), outcome="build-corrupted-" + a[0], validated=1)
                    for x in vs:
                        r.violation(x["sig"], x["case"], x["detail"])
        # ---- parse direction
        for data in sigma(L):
            r.states += 1
            a, vs = cmp_parse(t, d, data, kw, tsig)
            if a is None:
                r.case(nontrivial=False, outcome="ref-nonproductive-loop", transitions=0)
                continue
            r.case(nontrivial=(a[0] == "ok" and not vs), outcome="parse-" + a[0], validated=1)
            for x in vs:
                r.violation(x["sig"], x["case"], x["detail"])
            # context-dependent terms have no generated value domain: every value read from an accepted input is built as well
            if a[0] == "ok" and not vs and ctxdep:
                v = T.denorm(a[1])
                key = repr(v)
                if key not in seen:
                    seen.add(key)
                    r.states += 1
                    b, vs2 = cmp_build(t, d, v, kw, tsig)
                    r.case(nontrivial=(b[0] == "ok" and not vs2), outcome="build-parsed-" + b[0], validated=1)
                    for x in vs2:
                        r.violation(x["sig"], x["case"], x["detail"])
    r.sample({"term": T.show(t), "tier": tn, "L": L, "strings": len(sigma(L))}, cap=2)


def run_unit(unit, tier):
    r = UnitResult()
    k = unit["kind"]
    if k == "terms":
        for t, tn, L in unit["terms"]:
            run_term(t, tn, L, r)
    elif k == "macros":
        run_macros(r)
    elif k == "smallint":
        run_smallint(unit, r)
    elif k == "float16":
        run_float16(unit, r)
    elif k == "floats":
        run_floats(r)
    elif k == "varint":
        run_varint(unit["lo"], unit["hi"], r)
    elif k == "varint-extra":
        run_varint_extra(r)
    elif k == "prefix-boundary":
        run_prefix_boundary(r)
    elif k == "scale":
        run_scale(unit["sizes"], r)
    elif k == "text":
        run_text(unit["encoding"], r)
    elif k == "wideints":
        run_wideints(r)
    elif k == "negative-lengths":
        run_neglen(r)
    return r


def spellings(w, signed, e):
    sp = [G.I(w, signed, e, "name"), G.I(w, signed, e, "FormatField"), G.I(w, signed, e, "BytesInteger")]
    if (w, signed, e) in T.ALIASES:
        sp.append(G.I(w, signed, e, "alias"))
    return sp


def run_smallint(unit, r):
    w, signed, e = unit["w"], unit["signed"], unit["endian"]
    lo, hi = (-(1 << (8 * w - 1)), (1 << (8 * w - 1)) - 1) if signed else (0, (1 << (8 * w)) - 1)
    for t in spellings(w, signed, e):
        d = T.mk(t)
        tsig = T.sig_of(t)
        for n in range(1 << (8 * w)):
            data = n.to_bytes(w, "big")
            r.states += 1
            a, vs = cmp_parse(t, d, data, {}, tsig)
            for x in vs:
                r.violation(x["sig"], x["case"], x["detail"])
            if a[0] == "ok":
                b, vs2 = cmp_build(t, d, a[1], {}, tsig)
                for x in vs2:
                    r.violation(x["sig"], x["case"], x["detail"])
                if b[0] == "ok" and b[1] != data:
                    r.violation("C03/reference-self-inconsistent", {"term": t, "op": "parse", "data": data, "kw": {}}, "reference build(parse(x)) != x")
            r.case(nontrivial=a[0] == "ok", outcome="int-ok", transitions=2, validated=2)
        for v in (lo - 1, hi + 1, lo - 256, hi + 256):
            a, vs = cmp_build(t, d, v, {}, tsig)
            r.case(key=("oor", jkey(t), v), outcome="int-out-of-range", validated=1)
            for x in vs:
                r.violation(x["sig"], x["case"], x["detail"])
        r.sample({"term": T.show(t), "values": 1 << (8 * w)}, cap=4)


def run_float16(unit, r):
    for via in ("name", "FormatField"):
        t = ["Float", 2, unit["endian"], via]
        d = T.mk(t)
        tsig = T.sig_of(t)
        for n in range(65536):
            data = n.to_bytes(2, "big")
            r.states += 1
            a, vs = cmp_parse(t, d, data, {}, tsig)
            for x in vs:
                r.violation(x["sig"], x["case"], x["detail"])
            if a[0] == "ok" and a[1] == a[1]:
                b, vs2 = cmp_build(t, d, a[1], {}, tsig)
                for x in vs2:
                    r.violation(x["sig"], x["case"], x["detail"])
            r.case(nontrivial=a[0] == "ok", outcome="f16", transitions=2, validated=2)
        r.sample({"term": T.show(t), "patterns": 65536}, cap=2)


def run_floats(r):
    import struct
    mant32 = [0, 1, 2, 0x400000, 0x3fffff, 0x7fffff, 0x555555, 0x2aaaaa, 0x000100, 0x7ffffe, 0x100000, 0x0fffff]
    mant64 = [0, 1, 2, 1 << 51, (1 << 51) - 1, (1 << 52) - 1, 0x5555555555555, 0xaaaaaaaaaaaaa, 1 << 29, (1 << 52) - 2, 1 << 28, (1 << 29) - 1]
    for w, ebits, mants in ((4, 8, mant32), (8, 11, mant64)):
        mb = 23 if w == 4 else 52
        for e in "bl":
            t = ["Float", w, e, "name"]
            d = T.mk(t)
            tsig = T.sig_of(t)
            for ex in range(1 << ebits):
                for m in mants:
                    for sgn in (0, 1):
                        n = (sgn << (ebits + mb)) | (ex << mb) | m
                        data = n.to_bytes(w, "big" if e == "b" else "little")
                        r.states += 1
                        a, vs = cmp_parse(t, d, data, {}, tsig)
                        for x in vs:
                            r.violation(x["sig"], x["case"], x["detail"])
                        if a[0] == "ok" and a[1] == a[1]:
                            b, vs2 = cmp_build(t, d, a[1], {}, tsig)
                            for x in vs2:
                                r.violation(x["sig"], x["case"], x["detail"])
                        r.case(nontrivial=a[0] == "ok", outcome="float", transitions=2, validated=2)
            # doubles that must round when stored as narrower floats; overflow must be rejected
            for v in (0.1, 1 / 3, 1e-45, 1.4e-45, 7e-46, 3.4028234663852886e38, 3.4028235677973366e38, 3.5e38, 1e39, -1e39, 65504.0, 65519.9, 65520.0,
                      1e-8, 5.96e-8, 2.98e-8, 2.9802322387695312e-08, 2.0 ** -25, 2.0 ** -24, 6.1e-5, 1e308, 1.7976931348623157e308, 10 ** 400, -(10 ** 400), 2 ** 1024, 16777217, 2 ** 53 + 1):
                for ww in (2, 4, 8):
                    tt = ["Float", ww, e, "name"]
                    a, vs = cmp_build(tt, T.mk(tt), v, {}, T.sig_of(tt))
                    r.case(key=("frnd", ww, e, repr(v)), outcome="float-round-" + a[0], validated=1)
                    for x in vs:
                        r.violation(x["sig"], x["case"], x["detail"])
    # self-test of the reference against struct (machinery check, not a verdict on construct)
    for n in range(0, 65536, 97):
        if R.float_from_bits(n, 2) == R.float_from_bits(n, 2):
            assert struct.unpack(">e", n.to_bytes(2, "big"))[0] == R.float_from_bits(n, 2), "reference float decode self-test"
    r.sample({"float32": "256 exponents x 12 mantissas x 2 signs", "float64": "2048 x 12 x 2"})


def run_varint(lo, hi, r):
    for t in (["VarInt"], ["ZigZag"]):
        d = T.mk(t)
        tsig = T.sig_of(t)
        for n in range(lo, hi):
            vals = [n] if t[0] == "VarInt" else [n, -n - 1]
            for v in vals:
                r.states += 1
                a, vs = cmp_build(t, d, v, {}, tsig)
                for x in vs:
                    r.violation(x["sig"], x["case"], x["detail"])
                if a[0] == "ok":
                    b, vs2 = cmp_parse(t, d, a[1], {}, tsig)
                    for x in vs2:
                        r.violation(x["sig"], x["case"], x["detail"])
                    if b[0] == "ok" and b[1] != v:
                        r.violation("C03/reference-self-inconsistent", {"term": t, "op": "build", "value": v, "kw": {}}, "reference parse(build(v)) != v")
                r.case(nontrivial=a[0] == "ok", outcome="varint", transitions=2, validated=2)
    r.sample({"varint_range": [lo, hi]})


TEXT_ENCODINGS = ["ascii", "utf8", "utf_8", "u8", "utf16", "utf_16", "u16", "utf_16_be", "utf_16_le", "utf32", "utf_32", "u32", "utf_32_be", "utf_32_le"]
# the text axis: characters at every encoded length and at the codecs' special cases (byte-order marks, surrogates, combining
# marks, the last code points), and texts that cannot be encoded
TEXTS = ["", "a", "ab", "\ufeff", "\ufeffab", "ab\ufeff", "\ufffe", "\xe9", "\xff", "\u0100", "a\u20acb", "\uffff", "\U00010000", "\U0001d11e", "\U0010ffff",
         "e\u0301", "a\nb", " x ", "\x7f", "\x80", "\ud7ff", "\ue000", "A\U0001d11eB\xe9"]
BAD_TEXTS = ["\ud800", "a\udc00", "\udfff\ud800", "\ud800\udc00"]
# malformed or borderline byte sequences, per code unit size
RAW_TEXT = {
    1: [b"\xef\xbb\xbfa", b"\xef\xbb\xbf", b"\xef\xbb", b"\xed\xa0\x80", b"\xed\xb0\x80a", b"\xed\x9f\xbf", b"\xee\x80\x80", b"\xc0\x80", b"\xc1\xbf", b"\xc2\x80", b"\xdf\xbf",
        b"\xe0\x80\x80", b"\xe0\xa0\x80", b"\xf0\x80\x80\x80", b"\xf0\x90\x80\x80", b"\xf4\x8f\xbf\xbf", b"\xf4\x90\x80\x80", b"\xf8\x88\x80\x80\x80", b"\xfe", b"\xff\xfe",
        b"a\x80", b"\x80a", b"\xe2\x82", b"\xe2\x82\xac", b"\xef\xbf\xbe", b"\xef\xbf\xbf", b"\x7f\x80"],
    2: [b"\xff\xfe", b"\xfe\xff", b"\xff\xfea\x00", b"\xfe\xff\x00a", b"\xff\xfe\xff\xfea\x00", b"\xfe\xff\xfe\xff\x00a", b"\x00\xd8", b"\xd8\x00", b"\x00\xd8\x00\xdc", b"\xd8\x00\xdc\x00",
        b"\x00\xdc\x00\xd8", b"\x00\xd8a\x00", b"\xff\xdf", b"\xdf\xff", b"\xff\xff", b"\xfe\xff\xd8\x34\xdd\x1e", b"\x34\xd8\x1e\xdd", b"a\x00\xff\xfe", b"\xff\xd7", b"\x00\xe0", b"a"],
    4: [b"\xff\xfe\x00\x00", b"\x00\x00\xfe\xff", b"\xff\xfe\x00\x00a\x00\x00\x00", b"\x00\x00\xfe\xff\x00\x00\x00a", b"\x00\xd8\x00\x00", b"\x00\x00\xd8\x00", b"\xff\xff\x10\x00", b"\x00\x10\xff\xff",
        b"\x00\x00\x11\x00", b"\x00\x11\x00\x00", b"\xff\xff\xff\xff", b"\x1e\xd1\x01\x00", b"\x00\x01\xd1\x1e", b"a\x00\x00", b"\xff\xfe\x00\x00\xff\xfe\x00\x00"],
}


def text_space(enc):
    """-> (terms, frame(term, raw) -> bytes or None, value_for(term, text), raw byte sequences) for one encoding"""
    unit = {"ascii": 1, "utf8": 1, "utf_8": 1, "u8": 1}.get(enc, 2 if "16" in enc else 4)
    terms = [["GreedyString", enc], ["CString", enc], ["PascalString", G.BYTE, enc], ["PascalString", ["VarInt"], enc], ["PaddedString", 24, enc], ["PaddedString", 4, enc],
             ["Struct", [["s", ["CString", enc]], ["t", G.BYTE]]], ["Array", 2, ["PascalString", G.BYTE, enc]], ["FixedSized", 16, ["GreedyString", enc]],
             ["NullTerminated", ["GreedyString", enc], bytes(unit), False, True, True], ["Prefixed", G.BYTE, ["GreedyString", enc], False]]
    def frame(t, raw):
        k = t[0]
        if k == "GreedyString":
            return raw
        if k == "CString":
            return raw + bytes(unit)
        if k == "PascalString":
            return (bytes([len(raw)]) if t[1] == G.BYTE else R.leb128(len(raw))) + raw if len(raw) < 128 else None
        if k == "PaddedString":
            return raw + bytes(t[1] - len(raw)) if len(raw) <= t[1] else None
        if k == "Struct":
            return raw + bytes(unit) + b"\x07"
        if k == "Array":
            return bytes([len(raw)]) + raw + bytes([len(raw)]) + raw
        if k == "FixedSized":
            return raw + bytes(16 - len(raw)) if len(raw) <= 16 else None
        if k == "NullTerminated":
            return raw + bytes(unit)
        if k == "Prefixed":
            return bytes([len(raw)]) + raw
    def value_for(t, s):
        return {"Struct": {"s": s, "t": 7}, "Array": [s, s]}.get(t[0], s)
    raws = list(RAW_TEXT[unit])
    for s in TEXTS:
        try:
            raws.append(s.encode(enc))
        except UnicodeError:
            pass
        for other in ("utf8", "utf_16_le", "utf_16_be", "utf_32_le", "latin1"):
            try:
                raws.append(s.encode(other))
            except UnicodeError:
                pass
    raws = list(dict.fromkeys(raws))
    return terms, frame, value_for, raws


def run_text(enc, r):
    """the four string macros under one encoding: every text of the text axis built (reference = the codec plus the framing rules),
    unencodable texts refused, and every raw byte sequence of the list above (and the encoding of every text) parsed inside each
    framing, reference and library agreeing on value / rejection"""
    terms, frame, value_for, raws = text_space(enc)
    for t in terms:
        d = T.mk(t)
        tsig = "text:" + T.sig_of(t)
        for s in TEXTS + BAD_TEXTS:
            r.states += 1
            a, vs = cmp_build(t, d, value_for(t, s), {}, tsig)
            r.case(nontrivial=a[0] == "ok" and not vs, outcome="text-build-" + a[0], validated=1)
            for x in vs:
                r.violation(x["sig"], x["case"], x["detail"])
        for raw in raws:
            data = frame(t, raw)
            if data is None:
                continue
            r.states += 1
            pa, vs = cmp_parse(t, d, data, {}, tsig)
            r.case(nontrivial=bool(pa) and pa[0] == "ok" and not vs, outcome="text-parse-" + (pa[0] if pa else "refhang"), validated=1)
            for x in vs:
                r.violation(x["sig"], x["case"], x["detail"])
    r.sample({"text_encoding": enc, "texts": len(TEXTS) + len(BAD_TEXTS), "raw_sequences": len(raws), "framings": len(terms)})


def scale_cases(n):
    """(term, value) pairs holding n units of data"""
    from .. import scale
    B, I16 = G.BYTE, G.I(2, False, "b")
    S = lambda *ms: ["Struct", [list(m) for m in ms]]
    if True:
        ramp, nz, text = scale.payload(n, "ramp"), scale.payload(n, "nozero"), scale.payload(n, "text").decode()
        big = int.from_bytes(scale.payload(n, "nozero"), "big")
        cases = [
            (["Bytes", n], ramp), (["GreedyBytes"], ramp), (["GreedyString", "utf8"], text), (["GreedyString", "utf_16_le"], text),
            (["CString", "ascii"], text), (["CString", "utf_16_be"], text), (["PascalString", ["VarInt"], "utf8"], text), (["PaddedString", n + 3, "ascii"], text),
            (["Array", n, B], list(ramp)), (["GreedyRange", B], list(ramp)), (["PrefixedArray", ["VarInt"], I16], [(i * 257) & 0xffff for i in range(n)]),
            (["RepeatUntil", ["objcmp", "==", 0], B], list(nz[:-1]) + [0]), (["Padded", n + 5, ["Bytes", n], b"\x00"], ramp), (["Aligned", 4096, ["Bytes", n], b"\x00"], ramp),
            (S(("a", ["Padding", n]), ("b", B)), {"a": None, "b": 7}), (["VarInt"], big), (["ZigZag"], -big), (["BytesInteger", n, False, False], big),
            (["BytesInteger", n, True, True], -(big >> 1)), (S(("n", ["VarInt"]), ("d", ["Bytes", ["this", "n"]]), ("t", B)), {"n": n, "d": ramp, "t": 1}),
            (["Prefixed", ["VarInt"], ["GreedyRange", I16], False], [(i * 7) & 0xffff for i in range(n)]),
            (["NullTerminated", ["GreedyBytes"], b"\x00", False, True, True], nz), (["NullStripped", ["GreedyBytes"], b"\x00"], nz),
            (["FixedSized", n + 7, ["NullStripped", ["GreedyBytes"], b"\x00"]], nz), (["ProcessXor", 0x5a, ["GreedyBytes"]], ramp),
            (["Array", 3, ["Bytes", n]], [ramp, nz, ramp]),
        ]
    return cases


def run_scale(sizes, r):
    """the size axis (mc/scale.py): every wire format whose amount of data is a parameter, at each size of the alphabet"""
    _BUDGET[0] = 60
    for n in sizes:
        for t, v in scale_cases(n):
            d = T.mk(t)
            tsig = "scale:" + T.sig_of(t)
            r.states += 1
            a, vs = cmp_build(t, d, v, {}, tsig)
            r.case(nontrivial=a[0] == "ok" and not vs, outcome="scale-build-" + a[0], validated=1)
            for x in vs:
                x["case"] = {"scale": [T.show(t)[:60], n], "op": "build"}
                r.violation(x["sig"], x["case"], x["detail"][:500])
            if a[0] == "ok":
                for data in (a[1], a[1][:-1], a[1] + b"\x01", a[1][:len(a[1]) // 2]):
                    r.states += 1
                    pa, vs = cmp_parse(t, d, data, {}, tsig)
                    r.case(nontrivial=bool(pa) and pa[0] == "ok" and not vs, outcome="scale-parse", validated=1)
                    for x in vs:
                        x["case"] = {"scale": [T.show(t)[:60], n], "op": "parse", "len": len(data)}
                        r.violation(x["sig"], x["case"], x["detail"][:500])
    _BUDGET[0] = 3
    r.sample({"scale_sizes": sizes, "formats": 26})


def run_prefix_boundary(r):
    """payload sizes at the capacity of the length/count field: one below, exactly at, one above (build must refuse with the
    length field's error), for every length-prefixed construct and length field type, plus parsing of the largest prefix"""
    lfs = [(G.BYTE, 255), (G.I(1, True, "b"), 127), (G.I(2, False, "b"), 65535), (G.I(2, True, "l"), 32767), (["VarInt"], 70000)]
    for lf, cap in lfs:
        shapes = [(["Prefixed", lf, ["GreedyBytes"], False], lambda n: b"\x07" * n),
                  (["PascalString", lf, "ascii"], lambda n: "a" * n),
                  (["PrefixedArray", lf, G.BYTE], lambda n: [1] * n),
                  (["Struct", [["p", ["Prefixed", lf, ["GreedyBytes"], False]], ["t", G.BYTE]]], lambda n: {"p": b"\x07" * n, "t": 1})]
        if lf[0] == "Int":
            w = lf[1]
            shapes.append((["Prefixed", lf, ["GreedyBytes"], True], lambda n, w=w: b"\x07" * max(0, n - w)))
        for t, mkv in shapes:
            d = T.mk(t)
            tsig = T.sig_of(t)
            for n in (cap - 1, cap, cap + 1, cap + 2):
                v = mkv(n)
                r.states += 1
                a, vs = cmp_build(t, d, v, {}, tsig)
                r.case(nontrivial=a[0] == "ok", outcome="prefix-boundary-" + a[0], validated=1)
                for x in vs:
                    r.violation(x["sig"], x["case"], x["detail"])
                if a[0] == "ok":
                    # the largest encodings parse back, also when cut short by one byte
                    for data in (a[1], a[1][:-1], a[1] + b"\x00"):
                        r.states += 1
                        pa, vs = cmp_parse(t, d, data, {}, tsig)
                        r.case(nontrivial=bool(pa) and pa[0] == "ok", outcome="prefix-boundary-parse", validated=1)
                        for x in vs:
                            r.violation(x["sig"], x["case"], x["detail"])
    r.sample({"prefix_boundary": "5 length field types x 4-5 prefixed constructs x sizes cap-1..cap+2"})


def run_varint_extra(r):
    S = [0x00, 0x01, 0x7f, 0x80, 0x81, 0xff]
    for t in (["VarInt"], ["ZigZag"], ["Prefixed", ["VarInt"], ["GreedyBytes"], False], ["PrefixedArray", ["VarInt"], G.BYTE]):
        d = T.mk(t)
        tsig = T.sig_of(t)
        for n in range(0, 5):
            for tup in itertools.product(S, repeat=n):
                data = bytes(tup)
                r.states += 1
                a, vs = cmp_parse(t, d, data, {}, tsig)
                if a is None:
                    continue
                r.case(nontrivial=a[0] == "ok", outcome="varint-bytes-" + a[0], validated=1)
                for x in vs:
                    r.violation(x["sig"], x["case"], x["detail"])
        if t[0] in ("VarInt", "ZigZag"):
            vals = []
            for k in range(1, 13):
                vals += [(1 << (7 * k)) - 1, 1 << (7 * k), (1 << (7 * k)) + 1]
            vals += [(1 << 64) - 1, 1 << 64, (1 << 64) + 1, 1 << 100, (1 << 200) + 12345]
            if t[0] == "ZigZag":
                vals += [-v for v in vals] + [-(1 << 63), -(1 << 63) - 1, -(1 << 64), -(1 << 100)]
            for v in vals + [-1, None, 1.0, "1"]:
                r.states += 1
                a, vs = cmp_build(t, d, v, {}, tsig)
                r.case(key=("vx", t[0], repr(v)), outcome="varint-big-" + a[0], validated=1)
                for x in vs:
                    r.violation(x["sig"], x["case"], x["detail"])
                if a[0] == "ok":
                    b, vs2 = cmp_parse(t, d, a[1], {}, tsig)
                    for x in vs2:
                        r.violation(x["sig"], x["case"], x["detail"])
    r.sample({"varint_extra": "all byte strings <=4 over {00,01,7f,80,81,ff}; 2^(7k)-1..+1, 2^64+-1, 2^100"})


def run_wideints(r):
    for w in (3, 5, 8, 9, 16):
        for signed in (False, True):
            for swapped in (False, True):
                t = ["BytesInteger", w, signed, swapped]
                d = T.mk(t)
                tsig = T.sig_of(t)
                lo, hi = (-(1 << (8 * w - 1)), (1 << (8 * w - 1)) - 1) if signed else (0, (1 << (8 * w)) - 1)
                for v in G.int_alphabet(lo, hi) + [lo - 1, hi + 1, 1.0, None, "1"]:
                    r.states += 1
                    a, vs = cmp_build(t, d, v, {}, tsig)
                    r.case(key=("wi", jkey(t), repr(v)), nontrivial=a[0] == "ok", outcome="wide-" + a[0], validated=1)
                    for x in vs:
                        r.violation(x["sig"], x["case"], x["detail"])
                    if a[0] == "ok":
                        b, vs2 = cmp_parse(t, d, a[1], {}, tsig)
                        for x in vs2:
                            r.violation(x["sig"], x["case"], x["detail"])
    for w in (0, -1):
        t = ["BytesInteger", w, False, False]
        d = T.mk(t)
        for op, f in (("parse", lambda: cmp_parse(t, d, b"\x01\x02", {}, "BytesInteger")), ("build", lambda: cmp_build(t, d, 1, {}, "BytesInteger"))):
            a, vs = f()
            r.case(key=("w0", w, op), outcome="width<=0", validated=1)
            for x in vs:
                r.violation(x["sig"], x["case"], x["detail"])
    r.sample({"wide_widths": [3, 5, 8, 9, 16]})


def run_neglen(r):
    """negative values in signed length / count fields"""
    sb = G.I(1, True, "b")
    ts = [["Prefixed", sb, ["GreedyBytes"], False], ["Prefixed", sb, ["GreedyBytes"], True], ["PrefixedArray", sb, G.BYTE],
          ["PascalString", sb, "ascii"],
          ["Struct", [["n", sb], ["d", ["Array", ["this", "n"], G.BYTE]]]], ["Struct", [["n", sb], ["d", ["Bytes", ["this", "n"]]]]],
          ["Struct", [["n", sb], ["d", ["FixedSized", ["this", "n"], ["GreedyBytes"]]]]], ["Struct", [["n", sb], ["d", ["Padded", ["this", "n"], ["Pass"], b"\x00"]]]],
          ["Struct", [["n", sb], ["d", ["Padding", ["this", "n"]]]]], ["Struct", [["n", sb], ["d", ["PaddedString", ["this", "n"], "ascii"]]]],
          ["Struct", [["n", sb], ["d", ["BytesInteger", ["this", "n"], False, False]]]],
          ["Struct", [["n", sb], ["d", ["Aligned", ["this", "n"], G.BYTE, b"\x00"]]]]]
    for t in ts:
        d = T.mk(t)
        tsig = T.sig_of(t)
        for first in (0xff, 0x80, 0xfe, 0x00, 0x01, 0x02, 0x7f):
            for rest in (b"", b"\x01", b"\x01\x02", b"\x01\x02\x03"):
                data = bytes([first]) + rest
                r.states += 1
                a, vs = cmp_parse(t, d, data, {}, tsig)
                r.case(key=("nl", jkey(t), data), nontrivial=True, outcome="neglen-" + a[0], validated=1)
                for x in vs:
                    r.violation(x["sig"], x["case"], x["detail"])
    r.sample({"negative_length_terms": len(ts)})


def replay(case):
    if "scale" in case:
        r = UnitResult()
        run_scale([case["scale"][1]], r)
        return [v for v in r.violations if v["case"].get("scale") == case["scale"]]
    t = case["term"]
    kw = case.get("kw") or {}
    if case.get("op") == "mk":
        try:
            T.mk(t)
            return []
        except Exception as e:
            return [{"sig": "C03/construction-raised", "detail": repr(e)}]
    d = T.mk(t) if "macro" not in case else macro_cases()[case["macro"]][0]()
    if case["op"] == "parse":
        return cmp_parse(t, d, case["data"], kw, T.sig_of(t))[1]
    return cmp_build(t, d, dec_value(case["value"]), kw, T.sig_of(t))[1]
