"""C16 - lazy parsing is observationally equal to eager parsing under any access order.

Explicit-state BFS over access histories: a state is (set of cached member indices, stream
position) of a lazy result; each transition replays the history on a fresh parse (live objects
cannot be copied), performs one more access and compares its result and the stream position
with the eager parse.
"""
import io, itertools
from ..engine import UnitResult, jkey, watchdog, Hang
from .. import terms as T, gen as G

INFO = {
    "rule": "LazyStruct over every member list of length 1..3 (4 with <=2 kinds in thorough) from {Byte, Int16ub, Bytes(this._.n), "
            "Prefixed(Byte,GreedyBytes), Prefixed(Int16ul,..,includelength), PrefixedArray(Byte,Byte), VarInt, CString, anonymous Const}, "
            "LazyArray(n<=3 quick / 4 thorough) of each kind, Lazy(x) at first/middle/last position and directly around Prefixed / "
            "PrefixedArray; each embedded in an outer Struct with a leading length byte, a trailing Byte and Tell, and a variant whose "
            "later sibling reads a lazy member during the parse; inputs = canonical encodings and their single-byte mutations that the "
            "eager parse accepts; BFS over access histories (by name, index, attribute, keys/values/items/iter/len, slices, forcing a "
            "Lazy thunk, build) to depth members+2 with state = (cached indices, stream position), deduplicated. Invariants: every "
            "accessor equals the eager value, parse_stream ends where the eager parse ends, the stream position after an access equals "
            "the position before, trailing siblings equal the eager ones, build(lazy) == build(eager). non-trivial = transitions whose "
            "result was compared with the eager parse; distinct = (shape, input, canonical state, event)",
    "bounds": {"quick": {"max_members": 3, "array_n": 3, "mutations": [0x00, 0x02, 0x03, 0xff]}, "thorough": {"max_members": 4, "array_n": 4, "mutations": [0x00, 0x01, 0x02, 0x03, 0x04, 0x7f, 0xff]}},
    "trusted_base": ["the eager Struct/Array parse of the same members (differential oracle)"],
    "assumptions": ["no claim when the eager parse rejects (laziness may defer validation)", "== and in on lazy containers are not in the property's accessor list", "members do not cross-reference lazily skipped siblings (documented restriction)"],
}

BYTE = G.BYTE


def kinds():
    import construct as C
    return {
        "Byte": (lambda: C.Byte, [1, 200]),
        "Short": (lambda: C.Int16ub, [258, 0]),
        "CtxBytes": (lambda: C.Bytes(C.this._.n), [b"\xaa\xbb", b"\x01\x00"]),
        "Prefixed": (lambda: C.Prefixed(C.Byte, C.GreedyBytes), [b"xy", b""]),
        "PrefixedIncl": (lambda: C.Prefixed(C.Int16ul, C.GreedyBytes, includelength=True), [b"q", b"abc"]),
        "PrefixedArray": (lambda: C.PrefixedArray(C.Byte, C.Byte), [[7, 8], []]),
        "VarInt": (lambda: C.VarInt, [300, 1]),
        "CString": (lambda: C.CString("ascii"), ["hi", ""]),
        "Const": (lambda: C.Const(b"\x05\x06"), [None, None]),
        "Default": (lambda: C.Default(C.Byte, 7), [2, 9]),
        # measured by reading its count field, then not measurable (unsized elements): the fallback parse must start over
        "PrefixedArrayVar": (lambda: C.PrefixedArray(C.Byte, C.VarInt), [[7, 300], [1]]),
        "PrefixedCString": (lambda: C.Prefixed(C.Byte, C.CString("ascii")), ["hi", ""]),
        # the region may be longer than the fixed-size child needs (non-canonical but accepted): the prefix decides, not sizeof
        "PrefixedFixed": (lambda: C.Prefixed(C.Byte, C.Int16ub), [258, 0]),
        "ArrayOfPrefixedFixed": (lambda: C.Array(2, C.Prefixed(C.Byte, C.Int16ub)), [[258, 0], [1, 2]]),
        # counted elements that each carry their own length: measurable only element by element (if at all)
        "PrefixedArrayOfPrefixed": (lambda: C.PrefixedArray(C.Byte, C.Prefixed(C.Byte, C.GreedyBytes)), [[b"ab", b"z"], [b"", b"q", b"rs"]]),
        "PrefixedArrayNested": (lambda: C.PrefixedArray(C.Byte, C.PrefixedArray(C.Byte, C.Int16ub)), [[[1, 2], [3]], [[], [258]]]),
    }


TRIPLE_ALPHABET = ["Byte", "CtxBytes", "Prefixed", "PrefixedFixed", "VarInt", "Const", "Default"]      # quick tier: triples over these only
KIND_NAMES = ["Byte", "Short", "CtxBytes", "Prefixed", "PrefixedIncl", "PrefixedArray", "VarInt", "CString", "Const", "Default", "PrefixedArrayVar", "PrefixedCString", "PrefixedFixed", "ArrayOfPrefixedFixed", "PrefixedArrayOfPrefixed", "PrefixedArrayNested"]


def member_lists(tier):
    mm = INFO["bounds"][tier]["max_members"]
    out = []
    for n in range(1, min(mm, 3) + 1):
        alpha = KIND_NAMES if n < 3 or tier == "thorough" else TRIPLE_ALPHABET
        for combo in itertools.product(alpha, repeat=n):
            out.append(list(combo))
    if mm >= 4:
        for a, b in itertools.combinations_with_replacement(KIND_NAMES, 2):
            for arr in itertools.product([a, b], repeat=4):
                if list(arr) not in out:
                    out.append(list(arr))
    return out


def units(tier):
    us = []
    mls = member_lists(tier)
    for i in range(0, len(mls), 12):
        us.append({"kind": "lazystruct", "lists": mls[i:i + 12]})
    for k in KIND_NAMES:
        if k != "Const":
            us.append({"kind": "lazyarray", "elem": k})
    for k in KIND_NAMES:
        us.append({"kind": "lazy", "elem": k})
    us.append({"kind": "sibling-reads-lazy"})
    us.append({"kind": "index-members"})
    from .. import scale
    for n in scale.sizes(tier):
        if n <= 8193:
            us.append({"kind": "scale", "size": n})
    for name in interleaved_shapes():
        us.append({"kind": "interleaved", "shape": name})
    return us


# ------------------------------------------------------------------------------ shapes

HOSTS = ["plain", "prefixed", "nullstripped-after-header"]


def build_pair(kindname, spec, host="plain"):
    """-> (lazy construct, eager construct, value for building a canonical input, names)"""
    import construct as C
    K = kinds()
    if kindname == "lazystruct":
        names = [None if k == "Const" else "m%d" % i for i, k in enumerate(spec)]
        def members():
            return [(K[k][0]() if n is None else n / K[k][0]()) for n, k in zip(names, spec)]
        lazy_inner, eager_inner = C.LazyStruct(*members()), C.Struct(*members())
        vals = []
        for vi in (0, 1):
            vals.append({n: K[k][1][vi] for n, k in zip(names, spec) if n is not None})
    elif kindname == "lazyarray":
        n = spec["n"]
        lazy_inner, eager_inner = C.LazyArray(n, K[spec["elem"]][0]()), C.Array(n, K[spec["elem"]][0]())
        names = None
        vs = K[spec["elem"]][1]
        vals = [[vs[i % 2] for i in range(n)], [vs[(i + 1) % 2] for i in range(n)]]
    else:
        raise ValueError(kindname)
    if host == "plain":
        outer = lambda inner: C.Struct("n" / C.Byte, "lz" / inner, "t" / C.Byte, "pos" / C.Tell)
    elif host == "prefixed":
        # the lazy part lives in a sub-stream that starts at a non-zero offset of the real stream
        outer = lambda inner: C.Struct("n" / C.Byte, "pad" / C.Bytes(3), "lz" / C.Prefixed(C.Byte, inner), "t" / C.Byte, "pos" / C.Tell)
    else:
        outer = lambda inner: C.Struct("n" / C.Byte, "pad" / C.Bytes(2), "lz" / C.FixedSized(24, C.NullStripped(inner, pad=b"\xfe")), "t" / C.Byte, "pos" / C.Tell)
    values = [dict(n=2, pad=b"\x01\x02\x03"[:3 if host == "prefixed" else 2], lz=v, t=0x77) for v in vals]
    return outer(lazy_inner), outer(eager_inner), values, names


def lazy_pair(elem, position):
    """Struct with one member wrapped in Lazy at a position"""
    import construct as C
    K = kinds()
    mk = K[elem][0]
    if position == "first":
        ms = lambda w: ["n" / C.Byte, "z" / w(mk()), "b" / C.Byte, "pos" / C.Tell]
        order = ["n", "z", "b"]
    elif position == "middle":
        ms = lambda w: ["n" / C.Byte, "a" / C.Int16ub, "z" / w(mk()), "b" / C.Byte, "pos" / C.Tell]
        order = ["n", "a", "z", "b"]
    else:
        ms = lambda w: ["n" / C.Byte, "a" / C.Int16ub, "z" / w(mk()), "pos" / C.Tell]
        order = ["n", "a", "z"]
    inner = lambda w: C.Struct("n" / C.Computed(C.this._.n), *ms(w)[1:])
    # keep it flat: members refer to this._.n -> wrap in an outer struct providing n
    lazy = C.Struct("n" / C.Byte, "s" / C.Struct(*ms(C.Lazy)[1:]), "t" / C.Byte)
    eager = C.Struct("n" / C.Byte, "s" / C.Struct(*ms(lambda x: x)[1:]), "t" / C.Byte)
    vals = []
    for vi in (0, 1):
        s = {}
        for name in order[1:]:
            s[name] = {"a": 513, "b": 9, "z": K[elem][1][vi]}[name]
        vals.append(dict(n=2, s=s, t=0x55))
    return lazy, eager, vals


def inputs_for(eager, values, tier):
    """canonical encodings and accepted single-byte mutations"""
    import construct as C
    out = []
    for v in values:
        try:
            b = eager.build(v)
        except Exception:
            continue
        out.append(b)
        for i in range(len(b)):
            for rb in INFO["bounds"][tier]["mutations"]:
                if b[i] != rb:
                    x = b[:i] + bytes([rb]) + b[i + 1:]
                    try:
                        eager.parse(x)
                    except Exception:
                        continue
                    out.append(x)
    return list(dict.fromkeys(out))


# ------------------------------------------------------------------------------- events

def struct_events(names, with_next=True):
    ev = []
    for i, n in enumerate(names):
        ev.append(("index", i))
        if n is not None:
            ev.append(("name", i))
            ev.append(("attr", i))
            ev.append(("get", i))
    ev += [("keys",), ("values",), ("items",), ("iter",), ("len",), ("build",)]
    # suspended iteration: two independent value iterators advanced one step at a time between other accesses
    if with_next:
        ev += [("next", 0), ("next", 1)]
    return ev


def array_events(n, with_next=True):
    ev = [("index", i) for i in range(n)] + [("index", -1), ("index", -n)]
    for a in (None, 0, 1, n - 1, n, n + 1):
        for b in (None, 0, 1, n, n + 1):
            for st in (None, 2, -1):
                ev.append(("slice", a, b, st))
    ev += [("iter",), ("len",), ("list",), ("build",)] + ([("next", 0), ("next", 1)] if with_next else [])
    seen, out = set(), []
    for e in ev:
        if e not in seen:
            seen.add(e)
            out.append(e)
    return out


_ITERS = {}


def apply_event(lz, names, ev, outer_lazy, outer_obj):
    """perform the access on the lazy object -> normalised result"""
    k = ev[0]
    if k == "next":
        key = (id(lz), ev[1])
        if key not in _ITERS:
            _ITERS[key] = [iter(lz.values()) if names is not None else iter(lz), 0, lz]
        it = _ITERS[key]
        it[1] += 1
        try:
            return T.norm(next(it[0]))
        except StopIteration:
            return "STOP"
    if k == "index":
        return T.norm(lz[ev[1]])
    if k == "name":
        return T.norm(lz[names[ev[1]]])
    if k == "attr":
        return T.norm(getattr(lz, names[ev[1]]))
    if k == "get":
        return T.norm(lz.get(names[ev[1]]))
    if k == "keys":
        return list(lz.keys())
    if k == "values":
        return [T.norm(x) for x in lz.values()]
    if k == "items":
        return [[a, T.norm(b)] for a, b in lz.items()]
    if k == "iter":
        return [T.norm(x) for x in iter(lz)] if names is None else list(iter(lz))
    if k == "len":
        return len(lz)
    if k == "list":
        return [T.norm(x) for x in list(lz)]
    if k == "slice":
        return [T.norm(x) for x in lz[slice(ev[1], ev[2], ev[3])]]
    if k == "build":
        return outer_lazy.build(outer_obj)
    raise ValueError(ev)


def eager_answer(ev, ev_names, eager_lz, eager_bytes, hist=()):
    k = ev[0]
    names = ev_names
    if k == "next":
        pos = sum(1 for h in hist if tuple(h) == tuple(ev))
        seq = [eager_lz[n] for n in names if n is not None] if names is not None else list(eager_lz)
        return seq[pos] if pos < len(seq) else "STOP"
    if k == "index":
        if names is not None:
            if names[ev[1]] is None:
                return "anon"
            return eager_lz[names[ev[1]]]
        return eager_lz[ev[1]]
    if k in ("name", "attr", "get"):
        return eager_lz[names[ev[1]]]
    if k == "keys" or (k == "iter" and names is not None):
        return [n for n in names if n is not None]
    if k == "values":
        return [eager_lz[n] for n in names if n is not None]
    if k == "items":
        return [[n, eager_lz[n]] for n in names if n is not None]
    if k in ("iter", "list"):
        return list(eager_lz)
    if k == "len":
        return len(names) if names is not None else len(eager_lz)
    if k == "slice":
        return list(eager_lz)[slice(ev[1], ev[2], ev[3])]
    if k == "build":
        return eager_bytes
    raise ValueError(ev)


def canon(lz, stream):
    vals = getattr(lz, "_values", None)
    cached = tuple(sorted(vals.keys())) if isinstance(vals, dict) else ()
    its = tuple(_ITERS[(id(lz), slot)][1] if (id(lz), slot) in _ITERS else -1 for slot in (0, 1))
    return (cached, stream.tell(), its)


def explore(outer_lazy, outer_eager, names, data, events, depth, sig, case0, r, get_lz=lambda o: o["lz"]):
    """BFS over access histories"""
    import construct as C
    out = []
    def bad(kind, hist, detail):
        out.append({"sig": "C16/%s/%s" % (kind, sig), "case": dict(case0, data=data, history=[list(e) for e in hist]), "detail": detail})
    try:
        ev = outer_eager.parse(data)
    except Exception:
        return out
    eager_val = T.norm(ev)
    eager_lz = get_lz(eager_val)
    se = io.BytesIO(data + b"\xee\xee")
    outer_eager.parse_stream(se)
    eager_end = se.tell()
    try:
        eager_bytes = outer_eager.build(ev)
    except Exception:
        eager_bytes = None

    def fresh():
        _ITERS.clear()
        s = io.BytesIO(data + b"\xee\xee")
        with watchdog(3):
            o = outer_lazy.parse_stream(s)
        return o, s

    # initial state
    try:
        o, s = fresh()
    except Hang:
        bad("parse-hang", [], "lazy parse did not terminate on %s" % data.hex())
        return out
    except Exception as e:
        bad("lazy-parse-raises-%s" % type(e).__name__, [], "lazy parse of %s raised %r, eager gives %r" % (data.hex(), e, eager_val))
        return out
    if s.tell() != eager_end:
        bad("final-position-differs", [], "lazy parse_stream of %s ends at %d, eager at %d" % (data.hex(), s.tell(), eager_end))
    for k in eager_val:
        if k in ("lz", "s"):
            continue
        try:
            if not T.eqv(T.norm(o[k]), eager_val[k]):
                bad("sibling-differs", [], "member %r after the lazy part: lazy parse gives %r, eager %r (input %s)" % (k, T.norm(o[k]), eager_val[k], data.hex()))
        except Exception as e:
            bad("sibling-raises", [], repr(e))
    if r is not None:
        r.state(jkey([sig, data.hex(), "init"]))
    seen = set()
    frontier = [()]
    seen.add(canon(get_lz(o), s))
    while frontier:
        nxt = []
        for hist in frontier:
            for e in events:
                if r is not None:
                    r.transitions += 1
                # replay
                try:
                    o, s = fresh()
                    lz = get_lz(o)
                    for h in hist:
                        apply_event(lz, names, h, outer_lazy, o)
                    before = s.tell()
                    with watchdog(3):
                        got = apply_event(lz, names, e, outer_lazy, o)
                    after = s.tell()
                except Hang:
                    bad("access-hang", hist + (e,), "history %r did not terminate" % (hist + (e,),))
                    continue
                except Exception as ex:
                    want = eager_answer(e, names, eager_lz, eager_bytes, hist)
                    if e[0] == "build" and eager_bytes is None:
                        continue
                    if want == "anon":
                        continue
                    bad("access-raises-%s" % type(ex).__name__, hist + (e,), "history %r on %s raised %r; eager value %r" % (list(hist + (e,)), data.hex(), ex, want))
                    continue
                want = eager_answer(e, names, eager_lz, eager_bytes, hist)
                if r is not None:
                    r.case(nontrivial=True, outcome="access", transitions=0, validated=1)
                if want != "anon" and not (e[0] == "build" and eager_bytes is None):
                    if not T.eqv(got, want):
                        bad("value-differs/" + e[0], hist + (e,), "history %r on %s: lazy gives %r, eager %r" % (list(hist + (e,)), data.hex(), got, want))
                if after != before and e[0] != "build":
                    bad("access-moves-stream/" + e[0], hist + (e,), "history %r on %s: stream position %d before the access, %d after" % (list(hist + (e,)), data.hex(), before, after))
                if e[0] == "build":
                    continue
                st = canon(lz, s)
                if st not in seen and len(hist) + 1 < depth:
                    seen.add(st)
                    if r is not None:
                        r.state(jkey([sig, data.hex(), list(st[0]), st[1]]))
                    nxt.append(hist + (e,))
        frontier = nxt
    return out


def index_member_shapes(lazy):
    """members / elements whose layout depends on the position in a repetition (this._index): the lazy variant must agree with the eager one"""
    import construct as C
    this = C.this
    S = C.LazyStruct if lazy else C.Struct
    A = C.LazyArray if lazy else C.Array
    return {
        "lazystruct-over-array/Bytes": S("x" / C.Byte, "in" / C.Array(2, C.Struct("y" / C.Byte, "m" / C.Bytes(this._index & 1), "z" / C.Byte)), "t" / C.Byte),
        "lazystruct-over-array/If": S("x" / C.Byte, "in" / C.Array(2, C.Struct("y" / C.Byte, "m" / C.If(this._index, C.Byte), "z" / C.Byte)), "t" / C.Byte),
        "lazystruct-over-array/Prefixed": S("x" / C.Byte, "in" / C.Array(2, C.Prefixed(C.Byte, C.GreedyBytes)), "t" / C.Byte),
        "array-over-lazystruct/Bytes": C.Struct("a" / C.Array(2, S("y" / C.Byte, "m" / C.Bytes(this._index & 1), "z" / C.Byte)), "t" / C.Byte),
        "array-over-lazystruct/If": C.Struct("a" / C.Array(2, S("y" / C.Byte, "m" / C.If(this._index, C.Byte), "z" / C.Byte)), "t" / C.Byte),
        "array-over-lazystruct/Computed": C.Struct("a" / C.Array(3, S("y" / C.Byte, "i" / C.Computed(this._index), "z" / C.Byte)), "t" / C.Byte),
        "array-over-lazystruct/nested": C.Struct("a" / C.Array(2, S("y" / C.Byte, "s" / C.Struct("m" / C.Bytes(this._._index & 1)), "z" / C.Byte)), "t" / C.Byte),
        "greedyrange-over-lazystruct/Computed": C.Struct("a" / C.Prefixed(C.Byte, C.GreedyRange(S("y" / C.Byte, "i" / C.Computed(this._index)))), "t" / C.Byte),
        "repeatuntil-over-lazystruct/Bytes": C.Struct("a" / C.RepeatUntil(lambda o, l, c: len(l) >= 2, S("y" / C.Byte, "m" / C.Bytes(this._index & 1))), "t" / C.Byte),
        "lazyarray/Bytes": C.Struct("a" / A(3, C.Bytes(this._index & 1)), "t" / C.Byte),
        "lazyarray/Struct-If": C.Struct("a" / A(2, C.Struct("y" / C.Byte, "m" / C.If(this._index, C.Byte))), "t" / C.Byte),
        "lazyarray/Computed": C.Struct("a" / A(3, C.Struct("y" / C.Byte, "i" / C.Computed(this._index))), "t" / C.Byte),
    }


def run_index_members(r, only=None):
    import construct as C
    datas = [bytes(range(1, 13)), bytes([3, 2, 1, 0] * 3), bytes([1] * 12), bytes([0] * 12)]
    eager, lazy = index_member_shapes(False), index_member_shapes(True)
    for name in eager:
        if only is not None and name != only:
            continue
        for data in datas:
            res = []
            for d in (eager[name], lazy[name]):
                s = io.BytesIO(data)
                try:
                    with watchdog(3):
                        v = d.parse_stream(s)
                        res.append(("ok", T.norm(force_all(v)), s.tell()))
                except Hang:
                    res.append(("hang",))
                except C.ConstructError as e:
                    res.append(("cerr", type(e).__name__))
                except Exception as e:
                    res.append(("foreign", type(e).__name__))
            r.states += 1
            r.case(nontrivial=res[0][0] == "ok", outcome="index-member", transitions=2, validated=1)
            if res[0][0] == "ok" and res[1] != res[0]:
                r.violation("C16/index-dependent-member-differs/" + name, {"kind": "index-members", "shape": name, "data": data},
                            "%s on %s: eager %r, lazy %r" % (name, data.hex(), res[0][1:], res[1]))
    r.sample({"index_member_shapes": list(eager)})


def force_all(v):
    """evaluate every lazy part of a parse result (members of lazy containers, elements of lazy lists, Lazy callables)"""
    import construct as C
    if isinstance(v, C.LazyContainer):
        return {k: force_all(v[k]) for k in v.keys()}
    if isinstance(v, C.LazyListContainer):
        return [force_all(v[i]) for i in range(len(v))]
    if isinstance(v, dict):
        return {k: force_all(x) for k, x in v.items() if not (isinstance(k, str) and k.startswith("_"))}
    if isinstance(v, list):
        return [force_all(x) for x in v]
    return v


def run_unit(unit, tier):
    r = UnitResult()
    r.export_states = True
    k = unit["kind"]
    if k == "index-members":
        run_index_members(r)
        return r
    if k == "lazystruct":
        for spec in unit["lists"]:
            for host in HOSTS:
                if host != "plain" and len(spec) > ((2 if host == "prefixed" else 1) if tier == "quick" else 3):
                    continue
                ol, oe, values, names = build_pair("lazystruct", spec, host)
                sig = "LazyStruct(%s)" % ",".join(spec)
                for data in inputs_for(oe, values, tier):
                    wn = (tier == "thorough" and len(spec) <= 2 and host == "plain") or (len(spec) <= 2 and host == "plain" and all(k in TRIPLE_ALPHABET for k in spec))
                    for v in explore(ol, oe, names, data, struct_events(names, wn), len(spec) + 2, sig, {"kind": "lazystruct", "spec": spec, "host": host}, r):
                        r.violation(sigshort(v["sig"]), v["case"], v["detail"])
                r.sample({"shape": sig, "host": host}, cap=2)
    elif k == "lazyarray":
        for n in range(1, INFO["bounds"][tier]["array_n"] + 1):
            spec = {"n": n, "elem": unit["elem"]}
            for host in HOSTS:
                ol, oe, values, names = build_pair("lazyarray", spec, host)
                sig = "LazyArray(%d,%s)" % (n, unit["elem"])
                for data in inputs_for(oe, values, tier):
                    wn = (tier == "thorough" and host == "plain") or (host == "plain" and n <= 2) or (host == "plain" and unit["elem"] in ("Byte", "Prefixed"))
                    for v in explore(ol, oe, None, data, array_events(n, wn), min(n + 2, 4), sig, {"kind": "lazyarray", "spec": spec, "host": host}, r):
                        r.violation(sigshort(v["sig"]), v["case"], v["detail"])
                r.sample({"shape": sig, "host": host}, cap=2)
    elif k == "lazy":
        for position in ("first", "middle", "last"):
            ol, oe, values = lazy_pair(unit["elem"], position)
            sig = "Lazy(%s)@%s" % (unit["elem"], position)
            for data in inputs_for(oe, values, tier):
                for v in explore_lazy(ol, oe, data, sig, {"kind": "lazy", "elem": unit["elem"], "position": position}, r):
                    r.violation(sigshort(v["sig"]), v["case"], v["detail"])
            r.sample({"shape": sig}, cap=2)
    elif k == "scale":
        run_scale(unit["size"], r)
    elif k == "interleaved":
        for v in run_interleaved(unit["shape"], tier, r):
            r.violation(v["sig"], v["case"], v["detail"])
    else:
        for v in sibling_reads_lazy(tier, r):
            r.violation(sigshort(v["sig"]), v["case"], v["detail"])
    return r


def run_scale(n, r):
    """many elements / long members (size axis): fixed access scripts on lazy results with n elements or n-byte members"""
    import construct as C
    from .. import scale
    data = scale.payload(2 * n + 8, "ramp")
    shapes = [
        ("LazyArray(n, Byte)", C.Struct("h" / C.Byte, "lz" / C.LazyArray(n, C.Byte), "t" / C.Byte), C.Struct("h" / C.Byte, "lz" / C.Array(n, C.Byte), "t" / C.Byte), "array"),
        ("LazyArray(n, Int16ub)", C.Struct("h" / C.Byte, "lz" / C.LazyArray(n, C.Int16ub), "t" / C.Byte), C.Struct("h" / C.Byte, "lz" / C.Array(n, C.Int16ub), "t" / C.Byte), "array"),
        ("LazyStruct(Bytes(n), Byte, Bytes(n))", C.Struct("h" / C.Byte, "lz" / C.LazyStruct("a" / C.Bytes(n), "b" / C.Byte, "c" / C.Bytes(n)), "t" / C.Byte),
         C.Struct("h" / C.Byte, "lz" / C.Struct("a" / C.Bytes(n), "b" / C.Byte, "c" / C.Bytes(n)), "t" / C.Byte), "struct"),
        ("Lazy(Bytes(n))", C.Struct("h" / C.Byte, "lz" / C.Lazy(C.Bytes(n)), "t" / C.Byte), C.Struct("h" / C.Byte, "lz" / C.Bytes(n), "t" / C.Byte), "lazy"),
    ]
    for name, ol, oe, kind, base in [x + (0,) for x in shapes] + [(x[0] + "@2**32", x[1], x[2], x[3], 2 ** 32 + 7) for x in shapes] + [(x[0] + "@2**63", x[1], x[2], x[3], 2 ** 63 + 1) for x in shapes[:2]]:
        case = {"kind": "scale", "shape": name, "size": n}
        # base != 0: the same bytes seen through a window stream that reports absolute positions behind 2**32 / 2**63
        mkstream = (lambda: io.BytesIO(data)) if base == 0 else (lambda: C.BytesIOWithOffsets(data, None, base))
        try:
            se = mkstream(); ev = oe.parse_stream(se); eend = se.tell()
            sl = mkstream(); lv = ol.parse_stream(sl); lend = sl.tell()
        except Exception as e:
            r.violation("C16/scale/parse-raised/" + name.split("(")[0], case, "%s with n=%d: %r" % (name, n, e))
            continue
        r.states += 1
        probs = []
        if lend != eend or lv["t"] != ev["t"]:
            probs.append("final position %d vs %d, following member %r vs %r" % (lend, eend, lv["t"], ev["t"]))
        lz, eg = lv["lz"], ev["lz"]
        if kind == "array":
            idx = [n - 1, 0, n // 2, -1, 255 % n, 256 % n, 257 % n, 4095 % n, 4096 % n, n - 2 if n > 1 else 0]
            for i in idx:
                before = sl.tell()
                if lz[i] != eg[i]:
                    probs.append("element %d: %r vs %r" % (i, lz[i], eg[i]))
                if sl.tell() != before:
                    probs.append("access to element %d moved the stream" % i)
            for a, b in ((n - 5, n), (250, 260), (0, 3), (4090, 4100)):
                if list(lz[a:b]) != list(eg[a:b]):
                    probs.append("slice %d:%d differs" % (a, b))
            it = iter(lz)
            first = [next(it) for _ in range(min(3, n))]
            mid = lz[n // 2]
            rest = list(it)
            if first + rest != list(eg) or mid != eg[n // 2]:
                probs.append("suspended iteration differs")
            if list(lz) != list(eg) or len(lz) != n:
                probs.append("full iteration differs")
        elif kind == "struct":
            for k in ("c", "a", "b"):
                if lz[k] != eg[k]:
                    probs.append("member %s differs" % k)
        else:
            if lz() != eg or lz() != eg:
                probs.append("forced value differs")
        try:
            if ol.build(lv) != oe.build(ev):
                probs.append("build from the lazy result differs")
        except Exception as e:
            probs.append("build from the lazy result raised %r" % (e,))
        r.case(nontrivial=True, outcome="scale-ok" if not probs else "scale-bad", transitions=12, validated=1)
        if probs:
            r.violation("C16/scale/" + name.split("(")[0], case, "%s with n=%d: %s" % (name, n, "; ".join(probs[:4])))
    r.sample({"scale_size": n, "shapes": [x[0] for x in shapes]})


def sigshort(sig):
    """signatures name the defect class and the lazy construct, not the member list"""
    parts = sig.split("/")
    head = parts[-1].split("(")[0]
    if "ArrayOfPrefixedFixed" in parts[-1]:
        # shapes containing a statically sized composite whose real extent is decided by a length prefix inside it:
        # kept apart so that the recorded finding about them does not cover anything else
        return "C16/nested-prefixed-skipped-by-static-size/" + head
    return "/".join(parts[:-1]) + "/" + head


def explore_lazy(ol, oe, data, sig, case0, r):
    """Lazy(x) inside a Struct: the thunk may be forced any number of times, before or after looking at siblings"""
    out = []
    def bad(kind, hist, detail):
        out.append({"sig": "C16/%s/%s" % (kind, sig), "case": dict(case0, data=data, history=hist), "detail": detail})
    try:
        ev = T.norm(oe.parse(data))
    except Exception:
        return out
    se = io.BytesIO(data + b"\xee")
    oe.parse_stream(se)
    eager_end = se.tell()
    histories = [[], ["force"], ["force", "force"], ["sib", "force"], ["force", "sib", "force"], ["build"], ["force", "build"]]
    for hist in histories:
        s = io.BytesIO(data + b"\xee")
        if r is not None:
            r.state(jkey([sig, data.hex(), hist]))
            r.transitions += max(1, len(hist))
        try:
            with watchdog(3):
                o = ol.parse_stream(s)
        except Hang:
            bad("parse-hang", hist, "hang"); break
        except Exception as e:
            bad("lazy-parse-raises-%s" % type(e).__name__, hist, "Lazy parse of %s raised %r; eager gives %r" % (data.hex(), e, ev)); break
        if s.tell() != eager_end:
            bad("final-position-differs", hist, "parse_stream of %s ends at %d, eager at %d" % (data.hex(), s.tell(), eager_end)); break
        for k2 in ("n", "t"):
            if T.norm(o[k2]) != ev[k2]:
                bad("sibling-differs", hist, "member %r: %r vs eager %r on %s" % (k2, T.norm(o[k2]), ev[k2], data.hex()))
        for k2, v2 in ev["s"].items():
            if k2 != "z" and not T.eqv(T.norm(o["s"][k2]), v2):
                bad("sibling-differs", hist, "member s.%s: %r vs eager %r on %s" % (k2, T.norm(o["s"][k2]), v2, data.hex()))
        for step in hist:
            before = s.tell()
            try:
                if step == "force":
                    got = T.norm(o["s"]["z"]())
                    if not T.eqv(got, ev["s"]["z"]):
                        bad("value-differs/force", hist, "forcing the Lazy member on %s gives %r, eager %r" % (data.hex(), got, ev["s"]["z"]))
                    if s.tell() != before:
                        bad("access-moves-stream/force", hist, "stream position %d before forcing, %d after" % (before, s.tell()))
                elif step == "sib":
                    list(o["s"].keys())
                elif step == "build":
                    b = ol.build(o)
                    if b != oe.build(oe.parse(data)):
                        bad("value-differs/build", hist, "build(lazy result) = %s, eager %s" % (b.hex(), oe.build(oe.parse(data)).hex()))
            except Exception as e:
                bad("access-raises-%s" % type(e).__name__, hist, "%s on %s raised %r" % (step, data.hex(), e))
                break
        if r is not None:
            r.case(nontrivial=True, outcome="lazy-history", transitions=0, validated=1)
    return out


def sibling_reads_lazy(tier, r):
    """a later sibling uses a lazy member while the parse is still running"""
    import construct as C
    this = C.this
    out = []
    shapes = {
        "hdr.n": (lambda L, A: C.Struct("hdr" / L("n" / C.Byte, "m" / C.Byte), "data" / C.Bytes(this.hdr.n), "t" / C.Byte)),
        "hdr.m(second)": (lambda L, A: C.Struct("hdr" / L("n" / C.Byte, "m" / C.Byte), "data" / C.Bytes(this.hdr.m), "t" / C.Byte)),
        "hdr[var].n": (lambda L, A: C.Struct("hdr" / L("v" / C.VarInt, "n" / C.Byte), "data" / C.Bytes(this.hdr.n), "t" / C.Byte)),
        "arr[1]": (lambda L, A: C.Struct("arr" / A(2, C.Byte), "data" / C.Bytes(this.arr[1]), "t" / C.Byte)),
        "nested": (lambda L, A: C.Struct("o" / C.Struct("hdr" / L("n" / C.Byte, "m" / C.Int16ub)), "data" / C.Array(this.o.hdr.n, C.Byte), "t" / C.Byte)),
    }
    S6 = [0, 1, 2, 3]
    for name, mk in shapes.items():
        lazy = mk(C.LazyStruct, C.LazyArray)
        eager = mk(C.Struct, C.Array)
        for tup in itertools.product(S6, repeat=4):
            data = bytes(tup) + b"\x10\x11\x12\x13\x14"
            try:
                ev = T.norm(eager.parse(data))
            except Exception:
                continue
            if r is not None:
                r.state(jkey(["sib", name, data.hex()]))
                r.case(nontrivial=True, outcome="sibling-reads-lazy", validated=1)
            case = {"kind": "sibling", "shape": name, "data": data}
            try:
                s = io.BytesIO(data)
                with watchdog(3):
                    o = lazy.parse_stream(s)
                got = T.norm(o)
            except Exception as e:
                out.append({"sig": "C16/sibling-reads-lazy/raises-%s/%s" % (type(e).__name__, name), "case": case, "detail": "%s on %s raised %r; eager %r" % (name, data.hex(), e, ev)})
                continue
            if not T.eqv(got, ev):
                out.append({"sig": "C16/sibling-reads-lazy/value-differs/" + name, "case": case,
                            "detail": "%s on %s: a sibling that reads a lazy member during the parse: lazy result %r, eager %r" % (name, data.hex(), got, ev)})
    return out


def interleaved_shapes():
    """several lazy containers over ONE stream (siblings, nesting): accesses to one must not disturb another"""
    import construct as C
    return {
        "two-arrays": (lambda L, A: C.Struct("x" / A(2, C.Byte), "y" / A(2, C.Int16ub), "t" / C.Byte),
                       [("x", 0), ("x", 1), ("y", 0), ("y", 1)], lambda o, e: o[e[0]][e[1]]),
        "two-structs": (lambda L, A: C.Struct("x" / L("a" / C.Byte, "b" / C.VarInt, "c" / C.Byte), "y" / L("a" / C.Int16ub, "b" / C.Byte), "t" / C.Byte),
                        [("x", "a"), ("x", "b"), ("x", "c"), ("y", "a"), ("y", "b")], lambda o, e: o[e[0]][e[1]]),
        "array-of-structs": (lambda L, A: C.Struct("arr" / A(3, L("a" / C.Byte, "b" / C.Byte)), "t" / C.Byte),
                             [(i, f) for i in range(3) for f in ("a", "b")], lambda o, e: o["arr"][e[0]][e[1]]),
        "struct-of-arrays": (lambda L, A: C.Struct("s" / L("p" / A(2, C.Byte), "q" / A(2, C.Byte)), "t" / C.Byte),
                             [(f, i) for f in ("p", "q") for i in range(2)], lambda o, e: o["s"][e[0]][e[1]]),
        "lazy-thunks": (lambda L, A: C.Struct("p" / C.Lazy(C.Int16ub), "q" / C.Lazy(C.Prefixed(C.Byte, C.GreedyBytes)), "r" / C.Lazy(C.Byte), "t" / C.Byte),
                        [("p",), ("q",), ("r",)], lambda o, e: o[e[0]]() if callable(o[e[0]]) else o[e[0]]),
    }


def run_interleaved(name, tier, r):
    import construct as C
    mk, events, access = interleaved_shapes()[name]
    lazy, eager = mk(C.LazyStruct, C.LazyArray), mk(C.Struct, C.Array)
    if name == "lazy-thunks":
        eager = C.Struct("p" / C.Int16ub, "q" / C.Prefixed(C.Byte, C.GreedyBytes), "r" / C.Byte, "t" / C.Byte)
    out = []
    datas = [bytes([1, 2, 3, 4, 5, 6, 7, 8, 9, 10]), bytes([0x81, 0x01, 2, 0x82, 0x02, 3, 4, 5, 6, 7, 8]), bytes([0, 1, 2, 1, 0, 3, 2, 1, 9, 9, 9])]
    depth = 4 if tier == "quick" else 5
    for data in datas:
        try:
            ev = T.norm(eager.parse(data))
        except Exception:
            continue
        for n in range(1, depth + 1):
            for hist in itertools.product(events, repeat=n):
                if r is not None:
                    r.state(jkey(["il", name, data.hex(), [list(e) for e in hist]]))
                    r.transitions += n
                try:
                    s = io.BytesIO(data)
                    o = lazy.parse_stream(s)
                    end = s.tell()
                    okk = True
                    for e in hist:
                        got = T.norm(access(o, e))
                        want = access(ev, e) if name != "lazy-thunks" else ev[e[0]]
                        if not T.eqv(got, want):
                            out.append({"sig": "C16/interleaved/value-differs/" + name, "case": {"kind": "interleaved", "shape": name, "data": data, "history": [list(x) for x in hist]},
                                        "detail": "%s on %s, history %r: access %r gives %r, eager %r" % (name, data.hex(), list(hist), e, got, want)})
                            okk = False
                            break
                        if s.tell() != end:
                            out.append({"sig": "C16/interleaved/access-moves-stream/" + name, "case": {"kind": "interleaved", "shape": name, "data": data, "history": [list(x) for x in hist]},
                                        "detail": "%s on %s, history %r: stream at %d after the access, %d after parsing" % (name, data.hex(), list(hist), s.tell(), end)})
                            okk = False
                            break
                    if r is not None:
                        r.case(nontrivial=True, outcome="interleaved", transitions=0, validated=1)
                except Exception as ex:
                    out.append({"sig": "C16/interleaved/raises-%s/%s" % (type(ex).__name__, name), "case": {"kind": "interleaved", "shape": name, "data": data, "history": [list(x) for x in hist]},
                                "detail": "%s on %s, history %r raised %r" % (name, data.hex(), list(hist), ex)})
            if len(out) > 50:
                break
    if r is not None:
        r.sample({"interleaved": name, "events": [list(e) for e in events], "depth": depth})
    return out


def replay(case):
    if case.get("kind") == "index-members":
        r = UnitResult(); run_index_members(r, only=case["shape"])
        return [v for v in r.violations if v["case"]["data"] == case["data"]] or r.violations
    if case.get("kind") == "scale":
        r = UnitResult(); run_scale(case["size"], r)
        return [v for v in r.violations if v["case"] == case]
    k = case["kind"]
    if k == "interleaved":
        vs = run_interleaved(case["shape"], "quick", None)
        return [v for v in vs if v["case"]["data"] == case["data"] and v["case"]["history"] == case["history"]] or vs[:1]
    if k == "lazystruct":
        ol, oe, values, names = build_pair("lazystruct", case["spec"], case.get("host", "plain"))
        vs = explore(ol, oe, names, case["data"], struct_events(names), len(case["spec"]) + 2, "LazyStruct(%s)" % ",".join(case["spec"]), case, None)
    elif k == "lazyarray":
        ol, oe, values, names = build_pair("lazyarray", case["spec"], case.get("host", "plain"))
        n = case["spec"]["n"]
        vs = explore(ol, oe, None, case["data"], array_events(n), min(n + 2, 4), "LazyArray(%d,%s)" % (n, case["spec"]["elem"]), case, None)
    elif k == "lazy":
        ol, oe, values = lazy_pair(case["elem"], case["position"])
        vs = explore_lazy(ol, oe, case["data"], "Lazy(%s)@%s" % (case["elem"], case["position"]), case, None)
    else:
        vs = [v for v in sibling_reads_lazy("quick", None) if v["case"]["shape"] == case["shape"] and v["case"]["data"] == case["data"]]
    for v in vs:
        v["sig"] = sigshort(v["sig"]) if k != "sibling" else v["sig"]
    want_hist = case.get("history")
    if want_hist is not None:
        exact = [v for v in vs if v["case"].get("history") == want_hist]
        return exact or vs[:1]
    return vs
