"""C09 - look-ahead and alternatives leave the stream exactly where their contract says.

Isolation oracle: every member construct is also run alone, from the same offset of the same
stream contents; the combinator's value and final position must be what its contract derives
from those solo runs.
"""
import io, itertools
from ..engine import UnitResult, jkey, watchdog, Hang
from .. import terms as T, gen as G
from .c03 import sigma

INFO = {
    "rule": "members from a failure-capable alphabet (fixed Int16ub/Byte, variable VarInt/CString, validating Const/OneOf, nested "
            "Struct(Byte, Prefixed(Byte, Const)), Error) combined as Select (all ordered pairs; triples in thorough), Optional, "
            "GreedyRange, Peek, Pointer (absolute 0/1/2, end-relative -1/-2, out of range; parse and build), Union (parsefrom None / "
            "index / name / expression) x start offsets {0,1,3} x every byte string over S6 up to length L (which contains, for every "
            "member, inputs failing at every byte position inside it); an alternative/element that fails with a non-construct exception; Pointer with a target taken from a signed context value, judged for the interpreter and for generated code. non-trivial = the combinator returned and value+position were "
            "compared with the solo runs; distinct = (combinator, start, data)",
    "bounds": {"quick": {"L": 4, "select_arity": 2}, "thorough": {"L": 5, "select_arity": 3}},
    "trusted_base": ["the member constructs themselves, run in isolation (differential oracle)"],
    "assumptions": ["StopIf is excluded from elements (stopping is not failing)", "elements of GreedyRange consume at least one byte"],
}

BYTE = G.BYTE
MEMBERS = {
    "Short": G.I(2, False, "b"),
    "Byte": BYTE,
    "VarInt": ["VarInt"],
    "CString": ["CString", "ascii"],
    "Const": ["ConstB", b"\x01\x02"],
    "OneOf": ["OneOf", BYTE, [1]],
    "Nested": ["Struct", [["a", BYTE], ["b", ["Prefixed", BYTE, ["ConstB", b"\x01"], False]]]],
    "Error": ["Error"],
    # building: writes four bytes before it can fail (b not 1); and a shorter alternative accepting the same value
    "LongFail": ["Struct", [["a", BYTE], [None, ["Padding", 3]], ["b", ["OneOf", BYTE, [1]]]]],
    "OnlyA": ["Struct", [["a", BYTE]]],
    # fails after consuming a byte, and not with a ConstructError: the expression divides by the byte read (ZeroDivisionError on 00)
    "Div": ["Struct", [["a", BYTE], ["c", ["Computed", ["bin", "//", ["k", 16], ["this", "a"]]]]]],
}
STARTS = [0, 1, 3]


def units(tier):
    us = []
    names = list(MEMBERS)
    ar = INFO["bounds"][tier]["select_arity"]
    for combo in itertools.product(names, repeat=2):
        us.append({"kind": "Select", "members": list(combo)})
    if ar >= 3:
        for a in names:
            us.append({"kind": "Select3", "first": a})
    for m in names:
        us.append({"kind": "Optional", "members": [m]})
        if m != "Error":
            us.append({"kind": "GreedyRange", "members": [m]})
        if m in ("Div", "LongFail", "OnlyA"):
            continue        # "any failure" is the contract of the alternatives and of repetition; Peek, Pointer and Union pass a foreign exception on
        us.append({"kind": "Peek", "members": [m]})
        for off in (0, 1, 2, -1, -2, 9):
            us.append({"kind": "Pointer", "members": [m], "offset": off})
        for off in (0, 1, 2, -1):
            for q in (0, 2):
                us.append({"kind": "PointerAux", "members": [m], "offset": off, "auxpos": q})
            us.append({"kind": "PointerRoot", "members": [m], "offset": off})
    for m in ("Short", "Byte", "VarInt", "Const"):
        us.append({"kind": "PointerCtx", "members": [m]})
    for e in ("pointer-index", "check-index", "computed-then-stop", "peek-or-byte"):
        us.append({"kind": "GreedyRangeIdx", "elem": e, "members": []})
    for x in BIT_COMBS:
        for k in range(0, 8):
            us.append({"kind": "InBitwise", "comb": x, "head": k, "members": []})
    for a, b in itertools.product([n for n in names if n not in ("Error", "Div", "LongFail", "OnlyA")], repeat=2):
        for pf in (None, 0, 1, "m1", "expr"):
            us.append({"kind": "Union", "members": [a, b], "parsefrom": pf})
            for anon in (0, 1):
                if not (pf == "m1" and anon == 1):
                    us.append({"kind": "Union", "members": [a, b], "parsefrom": pf, "anon": anon})
        # parsefrom decided at parse time (context expression / lambda evaluating to None, an index or a name)
        for sel in (None, 1, "m1"):
            for form in ("expr", "lambda"):
                us.append({"kind": "Union", "members": [a, b], "parsefrom": form, "sel": sel})
    return us


def solo(d, data, pos):
    """-> ("ok", norm value, end) | ("explicit",) | ("fail", class)"""
    import construct as C
    s = io.BytesIO(data)
    s.seek(pos)
    try:
        with watchdog(3):
            v = d.parse_stream(s)
        return ("ok", T.norm(v), s.tell())
    except C.ExplicitError:
        return ("explicit",)
    except C.ConstructError as e:
        return ("fail", type(e).__name__)
    except Hang:
        raise
    except Exception as e:
        return ("fail", "foreign:" + type(e).__name__)


def run_comb(d, data, pos):
    import construct as C
    s = io.BytesIO(data)
    s.seek(pos)
    try:
        with watchdog(3):
            v = d.parse_stream(s)
        return ("ok", T.norm(v), s.tell())
    except C.ExplicitError:
        return ("explicit", None, s.tell())
    except C.ConstructError as e:
        return ("fail", type(e).__name__, s.tell())
    except Hang:
        return ("hang", None, None)
    except Exception as e:
        return ("foreign", type(e).__name__, s.tell())


def expect(kind, unit, mds, data, pos):
    """contractual outcome derived from solo runs: ("ok", value, end) | ("explicit",) | ("fail", end-or-None)"""
    if kind in ("Select", "Select3", "Optional"):
        for d in mds:
            r = solo(d, data, pos)
            if r[0] == "ok":
                return r
            if r[0] == "explicit":
                return ("explicit",)
        if kind == "Optional":
            return ("ok", None, pos)
        return ("fail", pos)
    if kind == "GreedyRange":
        out, p = [], pos
        while True:
            r = solo(mds[0], data, p)
            if r[0] == "explicit":
                return ("explicit",)
            if r[0] != "ok":
                return ("ok", out, p)
            if r[2] == p:
                return None
            out.append(r[1])
            p = r[2]
    if kind == "Peek":
        r = solo(mds[0], data, pos)
        if r[0] == "explicit":
            return ("explicit",)
        return ("ok", r[1] if r[0] == "ok" else None, pos)
    if kind == "Pointer":
        off = unit["offset"]
        target = off if off >= 0 else max(0, len(data) + off)     # BytesIO clamps an end-relative seek at 0
        r = solo(mds[0], data, target)
        if r[0] == "explicit":
            return ("explicit",)
        if r[0] != "ok":
            return ("fail", None)
        return ("ok", r[1], pos)
    if kind == "Union":
        vals = {}
        ends = []
        for i, d in enumerate(mds):
            r = solo(d, data, pos)
            if r[0] != "ok":
                return ("fail", None)
            if unit.get("anon") != i:
                vals["m%d" % i] = r[1]
            ends.append(r[2])
        pf = unit["parsefrom"]
        if pf in ("expr", "lambda"):
            pf = unit.get("sel", 0)
        if pf is None:
            end = pos
        elif pf == "m1":
            end = ends[1]
        else:
            end = ends[pf]
        return ("ok", vals, end)
    raise ValueError(kind)


def mk_comb(unit, mnames):
    import construct as C
    mds = [T.mk(MEMBERS[n]) for n in mnames]
    k = unit["kind"]
    if k in ("Select", "Select3"):
        return C.Select(*mds), mds
    if k == "Optional":
        return C.Optional(mds[0]), mds
    if k == "GreedyRange":
        return C.GreedyRange(mds[0]), mds
    if k == "Peek":
        return C.Peek(mds[0]), mds
    if k == "Pointer":
        return C.Pointer(unit["offset"], mds[0]), mds
    if k == "PointerAux":
        return C.Pointer(unit["offset"], mds[0], stream=C.this._params.aux), mds
    if k == "PointerRoot":
        return C.Struct("body" / C.FixedSized(2, C.Struct("p" / C.Pointer(unit["offset"], mds[0], stream=C.this._root._io), "x" / C.Byte)), "t" / C.Byte), mds
    if k == "Union":
        pf = unit["parsefrom"]
        if pf == "expr":
            pf = C.this._params.sel
        elif pf == "lambda":
            pf = lambda ctx: ctx._params.sel
        return C.Union(pf, *[(m if unit.get("anon") == i else ("m%d" % i) / m) for i, m in enumerate(mds)]), mds
    raise ValueError(k)


_COMPILED = {}


def _compiled(comb):
    k = id(comb)
    if k not in _COMPILED:
        try:
            with watchdog(10):
                _COMPILED[k] = (comb, comb.compile())
        except (Exception, Hang):
            _COMPILED[k] = (comb, None)
        if len(_COMPILED) > 64:
            for kk in list(_COMPILED)[:32]:
                del _COMPILED[kk]
    return _COMPILED[k][1]


def check_parse(unit, mnames, comb, mds, data, pos, r=None):
    import construct as C
    kind = unit["kind"]
    tsig = "%s(%s)" % (kind, ",".join(mnames)) + (":%s" % unit.get("offset") if kind == "Pointer" else "") + (":pf=%s%s%s" % (unit.get("parsefrom"), "" if "sel" not in unit else "->%r" % (unit["sel"],), "" if unit.get("anon") is None else ":anon%d" % unit["anon"]) if kind == "Union" else "")
    case = {"unit": unit, "members": mnames, "data": data, "start": pos, "op": "parse"}
    want = expect(kind, unit, mds, data, pos)
    if want is None:
        return "nonproductive", []
    if kind == "Union" and unit["parsefrom"] in ("expr", "lambda"):
        s = io.BytesIO(data); s.seek(pos)
        try:
            v = comb.parse_stream(s, sel=unit.get("sel", 0))
            got = ("ok", T.norm(v), s.tell())
        except C.ExplicitError:
            got = ("explicit", None, s.tell())
        except C.ConstructError as e:
            got = ("fail", type(e).__name__, s.tell())
        except Exception as e:
            got = ("foreign", type(e).__name__, s.tell())
    else:
        got = run_comb(comb, data, pos)
    def bad(k, detail):
        return "bad", [{"sig": "C09/%s/%s" % (k, tsig), "case": case, "detail": "%s at offset %d on %s: %s" % (tsig, pos, data.hex(), detail)}]
    if got[0] in ("foreign", "hang"):
        return bad("parse-" + got[0], "raised %s" % (got[1],))
    if want[0] == "explicit":
        if got[0] != "explicit":
            return bad("explicit-error-swallowed", "a member raises ExplicitError alone, the combinator gave %r" % (got[:2],))
        return "explicit", []
    if want[0] == "fail":
        if got[0] == "ok":
            return bad("accepts-what-no-member-accepts", "returned %r although the solo runs fail" % (got[1],))
        if got[0] == "explicit":
            return bad("explicit-from-nowhere", "ExplicitError")
        if want[1] is not None and got[2] != want[1]:
            return bad("position-after-failure", "failed (%s) leaving the stream at %d, contract says %d" % (got[1], got[2], want[1]))
        return "fail", []
    if got[0] != "ok":
        return bad("rejects-what-a-member-accepts", "raised %s; solo runs give value %r ending at %d" % (got[1], want[1], want[2]))
    if not T.eqv(got[1], want[1]):
        return bad("value-differs-from-solo", "returned %r, solo runs give %r" % (got[1], want[1]))
    if got[2] != want[2]:
        return bad("position-differs", "stream left at %d, contract says %d (value %r)" % (got[2], want[2], got[1]))
    if kind == "Union" and unit["parsefrom"] not in ("expr", "lambda"):
        # the generated code of compile() is bound by the same contract wherever the interpreter accepts (constant selectors compile)
        dc = _compiled(comb)
        if dc is not None:
            gc = run_comb(dc, data, pos)
            if gc[0] != "ok" or not T.eqv(gc[1], want[1]) or gc[2] != want[2]:
                return bad("compiled-differs", "generated code gives %r ending at %r; interpreter and contract: %r ending at %d" % (gc[1], gc[2], want[1], want[2]))
    return "ok", []


def check_build(unit, mnames, comb, mds, value, pos):
    """Select/Optional: output is the first alternative that can build the value, appended at the position;
    Pointer: bytes land at the target, position restored; Peek: nothing written, position unchanged"""
    import construct as C
    kind = unit["kind"]
    tsig = "%s(%s)" % (kind, ",".join(mnames)) + (":%s" % unit.get("offset") if kind == "Pointer" else "")
    case = {"unit": unit, "members": mnames, "value": repr(value), "start": pos, "op": "build"}
    base = bytes(range(0x40, 0x40 + 8))
    s = io.BytesIO()
    s.write(base)
    s.seek(pos)
    try:
        with watchdog(3):
            comb.build_stream(value, s)
        got = ("ok", s.getvalue(), s.tell())
    except C.ExplicitError:
        got = ("explicit", None, None)
    except C.ConstructError as e:
        got = ("fail", type(e).__name__, s.tell())
    except Exception as e:
        got = ("foreign", type(e).__name__, None)
    def solo_build(d):
        try:
            return ("ok", d.build(value))
        except C.ExplicitError:
            return ("explicit",)
        except Exception as e:
            return ("fail", type(e).__name__)
    def bad(k, detail):
        return [{"sig": "C09/build-%s/%s" % (k, tsig), "case": case, "detail": "%s build(%r) at offset %d: %s" % (tsig, value, pos, detail)}]
    if got[0] == "foreign":
        # documented: a Struct built from a dict that lacks a member raises KeyError; the member alone does the same
        if kind in ("Pointer",) and solo_build(mds[0]) == ("fail", got[1]):
            return []
        return bad("foreign", got[1])
    if kind in ("Select", "Optional"):
        seq = mds if kind == "Select" else [mds[0], None]
        want = None
        for d in seq:
            if d is None:
                want = ("ok", b"")
                break
            r = solo_build(d)
            if r[0] == "ok" or r[0] == "explicit":
                want = r
                break
        if want is None:
            return [] if got[0] == "fail" else bad("accepts-unbuildable", repr(got[:2]))
        if want[0] == "explicit":
            return [] if got[0] == "explicit" else bad("explicit-error-swallowed", repr(got[:2]))
        if got[0] != "ok":
            return bad("rejects-buildable", "%r; first buildable alternative gives %s" % (got[:2], want[1].hex()))
        exp = base[:pos] + want[1] + base[pos + len(want[1]):]
        if got[1] != exp or got[2] != pos + len(want[1]):
            return bad("output-differs", "stream %s pos %d, expected %s pos %d" % (got[1].hex(), got[2], exp.hex(), pos + len(want[1])))
        return []
    if kind == "Peek":
        if got[0] != "ok" or got[1] != base or got[2] != pos:
            return bad("peek-not-noop", repr(got))
        return []
    if kind == "Pointer":
        off = unit["offset"]
        target = off if off >= 0 else max(0, len(base) + off)
        r = solo_build(mds[0])
        if r[0] != "ok":
            return [] if got[0] != "ok" else bad("accepts-unbuildable", repr(got[:2]))
        if got[0] != "ok":
            return bad("rejects-buildable", repr(got[:2]))
        buf = bytearray(base)
        if target > len(buf):
            buf += bytes(target - len(buf))
        buf[target:target + len(r[1])] = r[1]
        if got[1] != bytes(buf) or got[2] != pos:
            return bad("pointer-output-or-position", "stream %s pos %d, expected %s pos %d" % (got[1].hex(), got[2], bytes(buf).hex(), pos))
        return []
    return []


# inside Bitwise over an unsized subcon the stream wrapper cannot seek backwards (documented), so only alternatives that fail on
# their FIRST read (which consumes nothing) are in the contract there: integers of several widths, no Const/Peek/multi-field elements
BIT_COMBS = ["GreedyRange3", "GreedyRange5", "GreedyRange7", "Optional3", "Optional9", "Select11_3", "Select16_9_2", "OptionalThenGreedy", "GreedyThenOptional"]


def bit_comb(name):
    import construct as C
    B = C.BitsInteger
    return {
        "GreedyRange3": lambda: C.GreedyRange(B(3)), "GreedyRange5": lambda: C.GreedyRange(B(5)), "GreedyRange7": lambda: C.GreedyRange(B(7, signed=True)),
        "Optional3": lambda: C.Optional(B(3)), "Optional9": lambda: C.Optional(B(9)),
        "Select11_3": lambda: C.Select(B(11), B(3)), "Select16_9_2": lambda: C.Select(B(16), B(9), B(2)),
        "OptionalThenGreedy": lambda: C.Sequence(C.Optional(B(7)), C.GreedyRange(B(2))),
        "GreedyThenOptional": lambda: C.Sequence(C.GreedyRange(B(5)), C.Optional(B(2)), C.Optional(B(1))),
    }[name]()


def check_in_bitwise(unit, data):
    """definition of Bitwise: the inner construct sees the bits of the data, one per byte. The same inner construct is run on
    the expanded bit string over a plain stream (where rewinding is trivially exact) and inside Bitwise over the packed bytes
    (streaming wrapper): value and what is left for the following members must agree"""
    import construct as C
    k = unit["head"]
    name = unit["comb"]
    inner = lambda: C.Struct("h" / C.BitsInteger(k) if k else "h" / C.Computed(0), "x" / bit_comb(name), "rest" / C.GreedyBytes)
    tsig = "InBitwise(%s)" % name
    case = {"unit": unit, "members": [], "data": data, "start": 0, "op": "parse"}
    bits = bytes((byte >> (7 - i)) & 1 for byte in data for i in range(8))
    def run(d, x):
        try:
            with watchdog(3):
                return ("ok", T.norm(d.parse(x)))
        except Hang:
            return ("hang",)
        except C.ConstructError as e:
            return ("fail", type(e).__name__)
        except Exception as e:
            return ("foreign", type(e).__name__)
    want = run(inner(), bits)
    got = run(C.Bitwise(inner()), data)
    if want[0] in ("hang", "foreign"):
        return "skip", []
    if got != want:
        return "bad", [{"sig": "C09/in-bitwise-differs/%s" % tsig, "case": case,
                        "detail": "after a %d-bit field, %s followed by GreedyBytes on %s: inside Bitwise %r, on the expanded bits %r" % (k, name, data.hex(), got, want)}]
    return ("ok" if want[0] == "ok" else "fail"), []


def check_greedy_idx(unit, data, pos):
    """GreedyRange over elements that consume nothing but stop by themselves because they depend on the repetition index: the
    list is as long as the elements allow, wherever the range is entered (also at the very end of the data)"""
    import construct as C
    this = C.this
    e = unit["elem"]
    if e == "pointer-index":
        d, want = C.GreedyRange(C.Pointer(this._index, C.Byte)), list(data)
    elif e == "check-index":
        d, want = C.GreedyRange(C.Check(this._index < 3)), [None, None, None]
    elif e == "computed-then-stop":
        d, want = C.GreedyRange(C.Struct("i" / C.Computed(this._._index), C.Check(this.i < 2))), [{"i": 0}, {"i": 1}]
    else:
        # the first two elements only look ahead, later ones consume
        d = C.GreedyRange(C.IfThenElse(this._index < 2, C.Peek(C.Byte), C.Byte))
        rest = list(data[pos:])
        want = ([rest[0], rest[0]] + rest) if rest else [None, None]
    tsig = "GreedyRangeIdx(%s)" % e
    case = {"unit": unit, "members": [], "data": data, "start": pos, "op": "parse"}
    got = run_comb(d, data, pos)
    end = len(data) if e == "peek-or-byte" and data[pos:] else pos
    if got[0] != "ok" or not T.eqv(got[1], want) or got[2] != end:
        return "bad", [{"sig": "C09/greedyrange-index-elements/%s" % tsig, "case": case,
                        "detail": "%s entered at offset %d of %s: %r ending at %r, expected %r ending at %d" % (tsig, pos, data.hex(), got[1], got[2], want, end)}]
    return "ok", []


_PCTX = {}


def check_pointer_ctx(unit, data):
    """the target is a context expression (a signed byte read just before): Struct(o/Int8sb, p/Pointer(this.o, member), t/Byte).
    Contract from solo runs of the member at the target (o >= 0: absolute, o < 0: from the end); judged for the interpreter and,
    where the interpreter accepts, for the generated code of compile() as well; build: the member's bytes land at the target"""
    import construct as C
    mname = unit["members"][0]
    if mname not in _PCTX:
        d = C.Struct("o" / C.Int8sb, "p" / C.Pointer(C.this.o, T.mk(MEMBERS[mname])), "t" / C.Byte)
        try:
            dc = d.compile()
        except Exception:
            dc = None
        _PCTX[mname] = (d, dc, T.mk(MEMBERS[mname]))
    d, dc, md = _PCTX[mname]
    tsig = "PointerCtx(%s)" % mname
    case = {"unit": unit, "members": unit["members"], "data": data, "start": 0, "op": "parse"}
    out = []
    if len(data) < 2:
        return "nonproductive", []
    o = data[0] - 256 if data[0] >= 128 else data[0]
    target = o if o >= 0 else max(0, len(data) + o)
    sr = solo(md, data, target)
    want = ("ok", {"o": o, "p": sr[1], "t": data[1]}, 2) if sr[0] == "ok" else ("fail",)
    got = run_comb(d, data, 0)
    if got[0] in ("foreign", "hang"):
        return "bad", [{"sig": "C09/parse-%s/%s" % (got[0], tsig), "case": case, "detail": "%s on %s: raised %s" % (tsig, data.hex(), got[1])}]
    if (want[0] == "ok") != (got[0] == "ok"):
        return "bad", [{"sig": "C09/pointer-target-differs/" + tsig, "case": case, "detail": "%s on %s: %r, the member alone at offset %d gives %r" % (tsig, data.hex(), got[:2], target, sr[:2])}]
    if want[0] != "ok":
        return "fail", []
    if not T.eqv(got[1], want[1]) or got[2] != want[2]:
        return "bad", [{"sig": "C09/pointer-target-differs/" + tsig, "case": case, "detail": "%s on %s: %r ending at %d, contract %r ending at 2" % (tsig, data.hex(), got[1], got[2], want[1])}]
    if dc is not None:
        gc = run_comb(dc, data, 0)
        if gc[0] != "ok" or not T.eqv(gc[1], want[1]) or gc[2] != want[2]:
            out.append({"sig": "C09/compiled-pointer-target-differs/" + tsig, "case": case, "detail": "%s on %s: generated code gives %r (position %r), interpreter and contract %r ending at 2" % (tsig, data.hex(), gc[:2], gc[2], want[1])})
        # build the parsed value into a buffer of the same length: same bytes from both
        v = T.denorm(want[1])
        res = []
        for dd in (d, dc):
            s = io.BytesIO(bytes(len(data)))
            try:
                with watchdog(3):
                    dd.build_stream(v, s)
                res.append(("ok", s.getvalue(), s.tell()))
            except Hang:
                res.append(("hang",))
            except Exception as e:
                res.append(("exc", type(e).__name__))
        if res[0][0] == "ok" and res[1] != res[0]:
            out.append({"sig": "C09/compiled-pointer-build-differs/" + tsig, "case": dict(case, op="parse"), "detail": "%s build(%r): interpreter %r, generated code %r" % (tsig, v, res[0], res[1])})
    return ("bad" if out else "ok"), out


HOST = bytes([0x10, 0x11, 0x12, 0x13])


def check_pointer_stream(unit, mnames, comb, mds, data, pos, op, value=None):
    """Pointer(stream=...) operates on the designated stream and restores THAT stream; the calling stream is not moved.
    PointerAux: the other stream comes in through the context (calling stream HOST at pos, aux = data at auxpos).
    PointerRoot: the Pointer sits in a FixedSized sub-stream and dereferences the root stream."""
    import construct as C
    kind, off = unit["kind"], unit["offset"]
    tsig = "%s(%s):%s" % (kind, ",".join(mnames), off)
    case = {"unit": unit, "members": mnames, "data": data, "start": pos, "op": op, "value": repr(value)}
    def bad(k, detail):
        return "bad", [{"sig": "C09/%s/%s" % (k, tsig), "case": case, "detail": "%s %s, data %s, start %d: %s" % (tsig, op, data.hex(), pos, detail)}]
    target = off if off >= 0 else max(0, len(data) + off)
    if kind == "PointerAux":
        q = unit["auxpos"]
        if q > len(data):
            return "skip", []
        aux = io.BytesIO(data); aux.seek(q)
        host = io.BytesIO(HOST); host.seek(pos)
        if op == "parse":
            want = solo(mds[0], data, target)
            try:
                with watchdog(3):
                    v = comb.parse_stream(host, aux=aux)
                got = ("ok", T.norm(v))
            except C.ExplicitError:
                got = ("explicit",)
            except C.ConstructError as e:
                got = ("fail", type(e).__name__)
            except Exception as e:
                return bad("parse-foreign", "raised %s" % type(e).__name__)
            if want[0] != got[0]:
                return bad("pointer-stream-outcome", "%r, the member alone on the designated stream gives %r" % (got, want))
            if got[0] != "ok":
                return "fail", []
            if not T.eqv(got[1], want[1]):
                return bad("value-differs-from-solo", "returned %r, solo run gives %r" % (got[1], want[1]))
            if host.tell() != pos or aux.tell() != q:
                return bad("pointer-stream-positions", "calling stream left at %d (was %d), designated stream left at %d (was %d)" % (host.tell(), pos, aux.tell(), q))
            return "ok", []
        # build
        try:
            sb = ("ok", mds[0].build(value))
        except C.ExplicitError:
            sb = ("explicit",)
        except Exception as e:
            sb = ("fail",)
        try:
            with watchdog(3):
                comb.build_stream(value, host, aux=aux)
            got = ("ok",)
        except C.ExplicitError:
            got = ("explicit",)
        except Exception as e:
            got = ("fail",)
        if got[0] != sb[0]:
            return bad("pointer-stream-build-outcome", "%r, the member alone gives %r" % (got, sb[0]))
        if got[0] != "ok":
            return "fail", []
        buf = bytearray(data)
        if target > len(buf):
            buf += bytes(target - len(buf))
        buf[target:target + len(sb[1])] = sb[1]
        if aux.getvalue() != bytes(buf) or aux.tell() != q or host.getvalue() != HOST or host.tell() != pos:
            return bad("pointer-stream-build", "designated stream %s pos %d (expected %s pos %d), calling stream %s pos %d (expected %s pos %d)" % (
                aux.getvalue().hex(), aux.tell(), bytes(buf).hex(), q, host.getvalue().hex(), host.tell(), HOST.hex(), pos))
        return "ok", []
    # PointerRoot (parse): body = data[pos:pos+2], x = data[pos], t = data[pos+2], end pos+3; p read from the root stream
    if len(data) < pos + 3:
        return "skip", []
    want = solo(mds[0], data, target)
    got = run_comb(comb, data, pos)
    if got[0] in ("foreign", "hang"):
        return bad("parse-" + got[0], "raised %s" % (got[1],))
    if want[0] != "ok":
        if got[0] == "ok":
            return bad("accepts-what-no-member-accepts", "returned %r" % (got[1],))
        return "fail", []
    exp = {"body": {"p": want[1], "x": data[pos]}, "t": data[pos + 2]}
    if got[0] != "ok":
        return bad("rejects-what-a-member-accepts", "raised %s, contract gives %r" % (got[1], exp))
    if not T.eqv(got[1], exp):
        return bad("value-differs-from-solo", "returned %r, contract gives %r" % (got[1], exp))
    if got[2] != pos + 3:
        return bad("position-differs", "stream left at %d, contract says %d" % (got[2], pos + 3))
    return "ok", []


def run_pointer_stream(unit, tier, r, datas):
    mnames = unit["members"]
    comb, mds = mk_comb(unit, mnames)
    vals = {}
    for pos in ((0, 1, 4) if unit["kind"] == "PointerAux" else (0, 1)):
        for data in datas:
            r.states += 1
            oc, vs = check_pointer_stream(unit, mnames, comb, mds, data, pos, "parse")
            r.case(nontrivial=oc == "ok", outcome=oc, transitions=2, validated=1)
            for v in vs:
                r.violation(v["sig"], v["case"], v["detail"])
            if oc == "ok" and unit["kind"] == "PointerAux" and len(vals) < 12:
                sr = solo(mds[0], data, unit["offset"] if unit["offset"] >= 0 else max(0, len(data) + unit["offset"]))
                if sr[0] == "ok":
                    vals.setdefault(repr(sr[1]), sr[1])
    if unit["kind"] == "PointerAux":
        for v in list(vals.values()) + [None, 1, "ab", 300]:
            for data in (b"", b"\x40\x41", b"\x40\x41\x42\x43\x44\x45"):
                for pos in (0, 3):
                    r.states += 1
                    oc, vs = check_pointer_stream(unit, mnames, comb, mds, data, pos, "build", v)
                    r.case(nontrivial=oc == "ok", outcome="build-" + oc, transitions=2, validated=1)
                    for x in vs:
                        r.violation(x["sig"], x["case"], x["detail"])
    r.sample({"combinator": unit["kind"], "members": mnames, "offset": unit["offset"], "strings": len(datas)}, cap=2)
    return r


def run_unit(unit, tier):
    r = UnitResult()
    L = INFO["bounds"][tier]["L"]
    kind = unit["kind"]
    if kind == "Select3":
        combos = [[unit["first"], b, c] for b in MEMBERS for c in MEMBERS]
        datas = sigma(min(L, 4))
    else:
        combos = [unit["members"]]
        datas = sigma(L)
    if kind in ("PointerAux", "PointerRoot"):
        return run_pointer_stream(unit, tier, r, datas)
    if kind == "PointerCtx":
        for data in sigma(min(L, 4)) + [bytes([o & 0xff, 7, 1, 2, 3, 4]) for o in (-6, -5, -3, -2, -1, 0, 1, 2, 4, 5, 6, 7)]:
            r.states += 1
            oc, vs = check_pointer_ctx(unit, data)
            r.case(nontrivial=oc == "ok", outcome=oc, transitions=3, validated=1)
            for v in vs:
                r.violation(v["sig"], v["case"], v["detail"])
        r.sample({"combinator": "Pointer(this.o)", "member": unit["members"][0]}, cap=2)
        return r
    if kind == "GreedyRangeIdx":
        for data in sigma(min(L, 3)):
            for pos in range(0, len(data) + 1):
                r.states += 1
                oc, vs = check_greedy_idx(unit, data, pos)
                r.case(nontrivial=oc == "ok", outcome=oc, transitions=2, validated=1)
                for v in vs:
                    r.violation(v["sig"], v["case"], v["detail"])
        r.sample({"combinator": "GreedyRange", "element": unit["elem"]}, cap=2)
        return r
    if kind == "InBitwise":
        for data in sigma(min(L, 3)) + [b"\xa5\x5a\xc3\x3c", b"\xff\xff\xff\xff", b"\x55" * 5]:
            r.states += 1
            oc, vs = check_in_bitwise(unit, data)
            r.case(nontrivial=oc == "ok", outcome=oc, transitions=2, validated=1)
            for v in vs:
                r.violation(v["sig"], v["case"], v["detail"])
        r.sample({"combinator": "InBitwise", "inner": unit["comb"], "head_bits": unit["head"]}, cap=2)
        return r
    for mnames in combos:
        comb, mds = mk_comb(unit, mnames)
        starts = STARTS
        built_values = {}
        for pos in starts:
            for data in datas:
                if pos > len(data):
                    continue
                r.states += 1
                oc, vs = check_parse(unit, mnames, comb, mds, data, pos, r)
                r.case(nontrivial=oc == "ok", outcome=oc, transitions=1 + len(mds), validated=1)
                for v in vs:
                    r.violation(v["sig"], v["case"], v["detail"])
                if oc == "ok" and kind in ("Select", "Optional", "Peek", "Pointer") and len(built_values) < 40:
                    for d in mds:
                        sr = solo(d, data, pos if kind != "Pointer" else max(0, min(len(data), unit["offset"] if unit["offset"] >= 0 else len(data) + unit["offset"])))
                        if sr[0] == "ok":
                            built_values.setdefault(repr(sr[1]), sr[1])
        if kind in ("Select", "Optional", "Peek", "Pointer"):
            vals = list(built_values.values()) + [None, 1, b"\x01\x02", "ab", {"a": 1, "b": b"\x01"}, 300, "zz\x00", {"a": 5, "b": 9}, {"a": 5, "b": b"\x02"}]
            seen = set()
            for v in vals:
                if repr(v) in seen:
                    continue
                seen.add(repr(v))
                for pos in (0, 2, 8):
                    r.states += 1
                    vs = check_build(unit, mnames, comb, mds, v, pos)
                    r.case(nontrivial=True, outcome="build-ok" if not vs else "build-bad", transitions=1 + len(mds), validated=1)
                    for x in vs:
                        r.violation(x["sig"], x["case"], x["detail"])
        r.sample({"combinator": kind, "members": mnames, "starts": starts, "strings": len(datas)}, cap=2)
    return r


def replay(case):
    unit = case["unit"]
    if unit["kind"] == "InBitwise":
        return check_in_bitwise(unit, case["data"])[1]
    if unit["kind"] == "GreedyRangeIdx":
        return check_greedy_idx(unit, case["data"], case["start"])[1]
    if unit["kind"] == "PointerCtx":
        return check_pointer_ctx(unit, case["data"])[1]
    comb, mds = mk_comb(unit, case["members"])
    if unit["kind"] in ("PointerAux", "PointerRoot"):
        return check_pointer_stream(unit, case["members"], comb, mds, case["data"], case["start"], case["op"], eval(case["value"]))[1]
    if case["op"] == "parse":
        return check_parse(unit, case["members"], comb, mds, case["data"], case["start"])[1]
    return check_build(unit, case["members"], comb, mds, eval(case["value"]), case["start"])
