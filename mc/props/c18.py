"""C18 - errors name the member in which parsing or building failed."""
import io, itertools
from ..engine import UnitResult, jkey
from .. import ref as R, terms as T, gen as G, rt
from .c03 import enc_value, dec_value, chunks

INFO = {
    "rule": "every nested named shape (depth <=3 quick, <=4 thorough) over Struct/Sequence/Array/Prefixed/FixedSized/Padded/IfThenElse/"
            "Switch/Renamed with named leaves (Byte, Int16ul, VarInt, CString, PascalString, Bytes, Const, Enum, Mapping, Flag) x values "
            "x (a) every truncation offset of the canonical encoding and every single-byte replacement by ff/00, (b) every member in turn "
            "given each unbuildable value (wrong type, out of range, unencodable string, unknown label), (c) every member in turn replaced "
            "by an unsized or key-missing one for sizeof. Oracle: the reference interpreter's path at the failing read/field: "
            "e.path == '(parsing)|(building)|(sizeof)' + ' -> name' for each enclosing named member; build values with a list element too many/few or a dict member missing; sizeof with every context-parameter slot referring to a missing key. non-trivial = library and reference "
            "both reject with the same error class and the paths were compared; distinct = (shape, operation, input)",
    "bounds": {"quick": {"depth": 3}, "thorough": {"depth": 4}},
    "trusted_base": ["mc/ref.py path threading (a region delimiter reads its whole region itself, so a truncated payload fails at the delimiter's member)"],
    "assumptions": ["array indices do not appear in paths (documented format)", "macro-internal names (PrefixedArray's count/items) are not claimed"],
}

BYTE = G.BYTE
I16 = G.I(2, False, "l")


def leaves():
    return [BYTE, I16, ["VarInt"], ["CString", "ascii"], ["PascalString", BYTE, "utf8"], ["Bytes", 2], ["ConstB", b"ab"],
            ["Enum", BYTE, [["a", 1], ["b", 2]]], ["Mapping", BYTE, [["x", 1], ["y", 2]]], ["Flag"], ["PaddedString", 4, "ascii"]]


def leaves_small():
    return [BYTE, ["VarInt"], ["CString", "ascii"], ["ConstB", b"ab"], ["Mapping", BYTE, [["x", 1], ["y", 2]]]]


def shapes(depth, small=False):
    """named shapes: level 0 = leaf"""
    L = leaves_small() if small else leaves()
    if depth == 0:
        return list(L)
    inner = shapes(depth - 1, True)
    out = []
    for x in inner:
        out.append(["Struct", [["a", BYTE], ["b", x]]])
        out.append(["Struct", [["p", x], ["q", I16]]])
        out.append(["Sequence", [["s0", x], [None, BYTE]]])
        out.append(["Array", 2, ["Struct", [["e", x]]]])
        out.append(["Prefixed", BYTE, ["Struct", [["in", x], ["z", BYTE]]], False])
        out.append(["Struct", [["pi", ["Prefixed", BYTE, ["Struct", [["in", x]]], True]], ["z", BYTE]]])
        # includelength with a length field that has no static size: fails while measuring the length field itself
        out.append(["Struct", [["pv", ["Prefixed", ["VarInt"], ["Struct", [["in", x]]], True]], ["z", BYTE]]])
        out.append(["FixedSized", 6, ["Struct", [["f", x]]]])
        out.append(["Padded", 6, ["Struct", [["g", x]]], b"\x00"])
        out.append(["IfThenElse", True, ["Renamed", x, "t"], ["Renamed", BYTE, "e"]])
        out.append(["Switch", 1, [[1, ["Renamed", x, "c1"]], [2, ["Renamed", BYTE, "c2"]]], None])
        out.append(["Renamed", ["Renamed", x, "inner"], "outer"])
        out.append(["Struct", [["same", ["Struct", [["same", x]]]]]])
    return out


def all_shapes(tier):
    d = INFO["bounds"][tier]["depth"]
    out = []
    for k in range(1, d + 1):
        ss = shapes(k, small=(k > 1))
        for s in ss:
            out.append(["Struct", [["top", s], ["tail", BYTE]]])
    seen, res = set(), []
    for s in out:
        k = jkey(s)
        if k not in seen:
            seen.add(k)
            res.append(s)
    return res


def units(tier):
    return [{"shapes": ch} for ch in chunks(all_shapes(tier), 12)]


def ref_outcome(f):
    try:
        return ("ok", f())
    except R.Reject as e:
        return ("rej", e.kind, e.path)
    except R.Stop as e:
        return ("rej", "StopFieldError", e.path)
    except Exception as e:
        return ("foreign", type(e).__name__)


def real_outcome(f):
    import construct as C
    try:
        return ("ok", f())
    except C.ConstructError as e:
        return ("rej", type(e).__name__, e.path)
    except Exception as e:
        return ("foreign", type(e).__name__)


def seeds(t):
    """canonical (value, bytes) pairs of a shape"""
    out = []
    S = [0x01, 0x02, 0x61, 0x62, 0x00, 0x05]
    tried = 0
    for n in range(2, 14):
        for fill in ([0x01] * n, [0x02, 0x61, 0x62, 0x00] * 4, [0x61, 0x62, 0x00, 0x01, 0x02] * 3, [0x05, 0x61, 0x62, 0x01, 0x00, 0x02, 0x00] * 2,
                     [0x01, 0x61, 0x62, 0x00, 0x61, 0x62, 0x00, 0x02, 0x02] * 2, [0x03, 0x01, 0x61, 0x62, 0x01, 0x00, 0x00]* 2, [0x04, 0x61, 0x62, 0x00, 0x01, 0x01, 0x02, 0x00]*2):
            x = bytes(fill[:n])
            tried += 1
            try:
                v, end = R.parse(t, x)
                if end != len(x):
                    continue
                b = R.build(t, T.denorm(v))
                if (b, ) not in [(o[1],) for o in out]:
                    out.append((T.denorm(v), b))
            except Exception:
                continue
            if len(out) >= 3:
                return out
    return out


def compare(op, t, tsig, want, got, case, what):
    """want/got: outcomes of reference / library"""
    if want[0] != "rej" or got[0] != "rej":
        return "no-error" if got[0] == "ok" else "foreign", []
    if want[1] != got[1]:
        return "class-differs", []           # which error class is C06's business; paths are compared when the failing field agrees
    prefix = {"parse": "(parsing)", "build": "(building)", "sizeof": "(sizeof)"}[op]
    path = got[2]
    if path is None or not str(path).startswith(prefix):
        return "bad", [{"sig": "C18/%s-path-%s/%s/%s" % (op, "missing" if path is None else "wrong-prefix", got[1], tsig), "case": case,
                        "detail": "%s: %s -> %s with path %r, expected %r" % (T.show(t), what, got[1], path, want[2])}]
    if path != want[2]:
        return "bad", [{"sig": "C18/%s-path-differs/%s/%s" % (op, got[1], tsig), "case": case,
                        "detail": "%s: %s -> %s with path %r, expected %r" % (T.show(t), what, got[1], path, want[2])}]
    return "path-ok", []


BAD_VALUES = ["x", b"zz", -1, 1 << 70, 1.5, None, "€", "nolabel", [1], "y" * 300]      # the last one overflows one-byte length prefixes


def positions(t, v, prefix=()):
    """paths (tuples of keys/indices) to every leaf value inside a reference value"""
    out = []
    if isinstance(v, dict):
        for k, x in v.items():
            out += positions(t, x, prefix + (k,))
    elif isinstance(v, list):
        for i, x in enumerate(v):
            out += positions(t, x, prefix + (i,))
    else:
        out.append(prefix)
    return out


def container_positions(v, prefix=()):
    """paths to every list and dict inside a reference value (the containers themselves, not their leaves)"""
    out = []
    if isinstance(v, dict):
        out.append(prefix)
        for k, x in v.items():
            out += container_positions(x, prefix + (k,))
    elif isinstance(v, list):
        out.append(prefix)
        for i, x in enumerate(v):
            out += container_positions(x, prefix + (i,))
    return out


def get_at(v, pos):
    for k in pos:
        v = v[k]
    return v


def misshapen(c):
    """a container with one element too many / too few, or one member missing"""
    if isinstance(c, list):
        return ([c + [c[-1]]] if c else [c + [0]]) + ([c[:-1]] if c else []) + [c + c + [0]]
    return [{k: x for k, x in c.items() if k != drop} for drop in c]


def replace_at(v, pos, new):
    if not pos:
        return new
    if isinstance(v, dict):
        return {k: (replace_at(x, pos[1:], new) if k == pos[0] else x) for k, x in v.items()}
    return [(replace_at(x, pos[1:], new) if i == pos[0] else x) for i, x in enumerate(v)]


def replace_term(t, name_path, new):
    """replace the member reached by following names"""
    return _rt(t, list(name_path), new)


def member_slots(t, acc=None, pre=()):
    """all named member positions in a shape as paths of member names"""
    if acc is None:
        acc = []
    k = t[0]
    if k in ("Struct", "Sequence"):
        for i, (n, s) in enumerate(t[1]):
            acc.append(pre + (i,))
            member_slots(s, acc, pre + (i,))
    elif k == "Renamed":
        member_slots(t[1], acc, pre + ("r",))
    else:
        for j, x in enumerate(t):
            if isinstance(x, list) and x and isinstance(x[0], str) and x[0] in T.KNOWN:
                member_slots(x, acc, pre + ("c%d" % j,))
            elif isinstance(x, list) and k == "Switch" and j == 2:
                for ci, (ck, sub) in enumerate(x):
                    member_slots(sub, acc, pre + ("s%d" % ci,))
    return acc


def subst(t, slot, new):
    if not slot:
        return new
    h = slot[0]
    k = t[0]
    if isinstance(h, int):
        ms = [[n, (subst(s, slot[1:], new) if i == h else s)] for i, (n, s) in enumerate(t[1])]
        return [k, ms] + list(t[2:])
    if h == "r":
        return ["Renamed", subst(t[1], slot[1:], new), t[2]]
    if h.startswith("c"):
        j = int(h[1:])
        return [(subst(x, slot[1:], new) if i == j else x) for i, x in enumerate(t)]
    if h.startswith("s"):
        ci = int(h[1:])
        cases = [[ck, (subst(sub, slot[1:], new) if i == ci else sub)] for i, (ck, sub) in enumerate(t[2])]
        return [t[0], t[1], cases, t[3]]
    raise ValueError(slot)


def measurable_twin(t):
    """the same shape with every unsized includelength prefix replaced by a one-byte one (source of values/inputs for shapes that
    reject everything)"""
    if isinstance(t, list):
        if t and t[0] == "Prefixed" and t[1] == ["VarInt"] and len(t) > 3 and t[3] is True:
            return ["Prefixed", BYTE, measurable_twin(t[2]), True]
        return [measurable_twin(x) for x in t]
    return t


def _slot_terms():
    """every class that takes a context parameter (the slot list of C05), referring to a key the context lacks"""
    from .c05 import slots
    out = []
    for name, mk, kind in slots():
        if name.startswith(("Bitwise", "BitStruct", "Computed", "Check", "StopIf", "Rebuild", "Default")):
            continue        # zero-size or bit-level slots: no sizeof failure to locate / not addressable as a member here
        out.append(mk(["this", "zz"]))
    return out


SLOT_TERMS = _slot_terms()


def run_shape(t, tier, r):
    d = T.mk(t)
    tsig = T.sig_of(t, 3)
    sds = seeds(t)
    if not sds and measurable_twin(t) != t:
        sds = seeds(measurable_twin(t))
    for v, b in sds:
        # ---- (a) truncations and byte replacements
        inputs = [b[:cut] for cut in range(len(b))]
        for i in range(len(b)):
            for rb in (0xff, 0x00, 0x03):
                if b[i] != rb:
                    inputs.append(b[:i] + bytes([rb]) + b[i + 1:])
        for x in dict.fromkeys(inputs):
            r.states += 1
            want = ref_outcome(lambda: R.parse(t, x))
            got = real_outcome(lambda: d.parse(x))
            oc, vs = compare("parse", t, tsig, want, got, {"op": "parse", "term": t, "data": x}, "parse(%s)" % x.hex())
            r.case(nontrivial=oc == "path-ok", outcome="parse-" + oc, validated=1)
            for z in vs:
                r.violation(z["sig"], z["case"], z["detail"])
        # ---- (b) every leaf value made unbuildable in turn
        for pos in positions(t, v):
            for badv in BAD_VALUES:
                v2 = replace_at(v, pos, badv)
                r.states += 1
                want = ref_outcome(lambda: R.build(t, v2))
                got = real_outcome(lambda: d.build(v2))
                oc, vs = compare("build", t, tsig, want, got, {"op": "build", "term": t, "value": enc_value(v2)}, "build(%r)" % (v2,))
                r.case(nontrivial=oc == "path-ok", outcome="build-" + oc, validated=1)
                for z in vs:
                    r.violation(z["sig"], z["case"], z["detail"])
        # ---- (b2) every list with an element too many / too few, every dict with a member missing
        for pos in container_positions(v):
            for newc in misshapen(get_at(v, pos)):
                v2 = replace_at(v, pos, newc)
                r.states += 1
                want = ref_outcome(lambda: R.build(t, v2))
                got = real_outcome(lambda: d.build(v2))
                oc, vs = compare("build", t, tsig, want, got, {"op": "build", "term": t, "value": enc_value(v2)}, "build(%r)" % (v2,))
                r.case(nontrivial=oc == "path-ok", outcome="build-" + oc, validated=1)
                for z in vs:
                    r.violation(z["sig"], z["case"], z["detail"])
    # ---- (c) sizeof with every member in turn unsized / key-missing
    for slot in member_slots(t):
        for new in (["VarInt"], ["Bytes", ["this", "zz"]], ["Bytes", ["lam", ["zz"]]], ["GreedyBytes"], ["Array", ["this", "zz"], BYTE],
                    ["IfThenElse", ["this", "zz"], BYTE, BYTE], ["FixedSized", ["this", "zz"], ["GreedyBytes"]], ["Padded", ["this", "zz"], BYTE, b"\x00"]) \
                + tuple(SLOT_TERMS):
            try:
                t2 = subst(t, slot, new)
                d2 = T.mk(t2)
            except Exception:
                continue
            r.states += 1
            want = ref_outcome(lambda: R.sizeof_(t2, R.top_ctx({}, "sizeof"), "(sizeof)"))
            if want[0] == "foreign":
                # the reference evaluates the missing key at the member that references it
                want = missing_key_path(t2)
            got = real_outcome(lambda: d2.sizeof())
            oc, vs = compare("sizeof", t2, tsig, want, got, {"op": "sizeof", "term": t2}, "sizeof()")
            r.case(nontrivial=oc == "path-ok", outcome="sizeof-" + oc, validated=1)
            for z in vs:
                r.violation(z["sig"], z["case"], z["detail"])
    r.sample({"shape": T.show(t), "seeds": len(sds)}, cap=2)


def missing_key_path(t):
    try:
        R.sizeof_(t, R.top_ctx({}, "sizeof"), "(sizeof)")
    except R.Reject as e:
        return ("rej", e.kind, e.path)
    except Exception:
        return ("foreign", "x")
    return ("ok", None)


def run_unit(unit, tier):
    r = UnitResult()
    for t in unit["shapes"]:
        run_shape(t, tier, r)
    return r


def replay(case):
    t = case["term"]
    d = T.mk(t)
    tsig = T.sig_of(t, 3)
    if case["op"] == "parse":
        x = case["data"]
        return compare("parse", t, tsig, ref_outcome(lambda: R.parse(t, x)), real_outcome(lambda: d.parse(x)), case, "parse(%s)" % x.hex())[1]
    if case["op"] == "build":
        v = dec_value(case["value"])
        return compare("build", t, tsig, ref_outcome(lambda: R.build(t, v)), real_outcome(lambda: d.build(v)), case, "build(%r)" % (v,))[1]
    want = ref_outcome(lambda: R.sizeof_(t, R.top_ctx({}, "sizeof"), "(sizeof)"))
    return compare("sizeof", t, tsig, want, real_outcome(lambda: d.sizeof()), case, "sizeof()")[1]
