"""C01 - build then parse returns the value that was built (symmetry)."""
import itertools
from ..engine import UnitResult, jkey
from .. import ref as R, terms as T, gen as G, rt
from .c03 import sigma, enc_value, dec_value, chunks

INFO = {
    "rule": "every strict-typed term of tiers T1..T3 (+T5 thorough) x every (build input, expected result) pair of its value domain "
            "(full integer/float/string alphabets for primitives, bounded products for composites; thorough: also every value the reference reads from an accepted string over S6^<=5); every T4 shape (context "
            "dependencies: length/count/condition/switch refs, Rebuild(len_), Default, Computed, Const, StopIf, _ / _root / _params) x "
            "keyword contexts x every value obtained from an accepted byte string over S6^<=4, also with each derived member "
            "omitted; every non-seeking context-free T1/T2 term also as a member of a streaming (unsized) BitsSwapped / Bitwise region. Oracle: parse(build(v)) matches the expected value structurally (derived members filled in), the whole "
            "encoding is consumed. non-trivial = a value whose round trip was executed and compared; distinct = distinct (term, kw, value)",
    "bounds": {"quick": {"tiers": "T1,T2,T3,T4", "L_T4": 4, "L_ctxfree": 0}, "thorough": {"tiers": "T1..T5", "L_T4": 6, "L_ctxfree": 5}},
    "trusted_base": ["value domains and expected results in mc/gen.py:values()", "mc/ref.py is used ONLY as a domain filter "
                     "(a value whose reference round trip is not the identity is a representational gap of the composition and is "
                     "skipped, counted as 'gap'); the verdict compares the implementation with the expected value"],
    "assumptions": ["compositions follow the typing rules of DESIGN 2.1 (strict mode)"],
}

DERIVED = ("Rebuild", "ConstB", "ConstV", "Computed", "Padding", "Check", "StopIf", "Pass", "Tell", "Index")


def terms_for(tier):
    out = [(t, "T1") for t in G.tier1()] + [(t, "T2") for t in G.tier2()] + [(t, "T3") for t in G.tier3()] + [(t, "T4") for t in G.tier4()]
    # every non-seeking context-free T1/T2 term also inside the streaming implementation of the bit/byte transforms
    out += [(h, "TSt") for h in G.streaming_terms(2)]
    out += [(t, "T4q") for t in G.sequence_twins()]
    if tier == "thorough":
        out += [(t, "T5") for t in G.tier5()]
    return out


def extras():
    """shapes whose value domain is not derivable generically: (term, [(build input, expected)])"""
    B = lambda n, s=False: ["BitsInteger", n, s, False]
    bits = lambda s: bytes(int(c) for c in s)
    out = []
    for w in (1, 3, 4, 7):
        tail = [bits("1011" * 4)[:(-w) % 8 or 8], bits("0" * ((-w) % 8 or 8)), bits(("10" * 12)[:((-w) % 8 or 8) + 8])]
        t = ["Bitwise", ["Struct", [["a", B(w)], ["rest", ["GreedyBytes"]]]]]
        out.append((t, [({"a": 1, "rest": x}, {"a": 1, "rest": x}) for x in tail]))
        t2 = ["Bitwise", ["Struct", [["a", B(w, True)], ["b", ["Flag"]], ["rest", ["GreedyBytes"]]]]]
        out.append((t2, [({"a": -1, "b": True, "rest": x[1:]}, {"a": -1, "b": True, "rest": x[1:]}) for x in tail if len(x) > 1]))
    out.append((["Bitwise", ["Struct", [["a", B(4)], ["rest", ["GreedyRange", B(4)]]]]], [({"a": 5, "rest": [1]}, {"a": 5, "rest": [1]}), ({"a": 5, "rest": [1, 2, 3]}, {"a": 5, "rest": [1, 2, 3]})]))
    out.append((["Bitwise", ["Sequence", [[None, B(3)], [None, B(5)], [None, ["GreedyBytes"]]]]], [([1, 2, bits("10000001")], [1, 2, bits("10000001")]), ([7, 31, b""], [7, 31, b""])]))
    out.append((["BitsSwapped", ["Struct", [["a", ["VarInt"]], ["rest", ["GreedyBytes"]]]]], [({"a": 300, "rest": b"xyz"}, {"a": 300, "rest": b"xyz"})]))
    # derived members computed from a LATER member whose name starts with an underscore (such members are ordinary members; the
    # normalised parse result does not list them, so the expectation names the public ones)
    BY = G.BYTE
    out.append((["Struct", [["n", ["Rebuild", BY, ["fn", "len_", ["this", "_data"]]]], ["_data", ["Bytes", ["this", "n"]]], ["t", BY]]],
                [({"_data": b"abc", "t": 1}, {"n": 3, "t": 1}), ({"_data": b"", "t": 2}, {"n": 0, "t": 2})]))
    out.append((["Struct", [["hdr", ["Struct", [["cnt", ["Rebuild", BY, ["fn", "len_", ["path", ["_", "_items"]]]]]]]], ["_items", ["Array", ["path", ["hdr", "cnt"]], BY]], ["t", BY]]],
                [({"hdr": {}, "_items": [1, 2], "t": 9}, {"hdr": {"cnt": 2}, "t": 9})]))
    out.append((["Struct", [["_k", BY], ["v", ["Switch", ["this", "_k"], [[1, BY], [2, G.I(2, False, "b")]], None]], ["t", BY]]],
                [({"_k": 2, "v": 258, "t": 1}, {"v": 258, "t": 1}), ({"_k": 1, "v": 7, "t": 1}, {"v": 7, "t": 1})]))
    # elements whose layout depends on their position (this._index) in every repeater: build must publish the index like parse does
    IDX1 = ["bin", "+", ["path", ["_index"]], ["k", 1]]
    for elem, vals in ((["Bytes", IDX1], [b"a", b"bb", b"ccc"]), (["Padded", IDX1, BY, b"\x00"], [1, 2, 3]),
                       (["Struct", [["i", ["Rebuild", BY, ["path", ["_", "_index"]]]], ["d", ["Bytes", ["this", "i"]]]]], [{"i": 0, "d": b""}, {"i": 1, "d": b"x"}, {"i": 2, "d": b"yz"}])):
        plain = [v if not isinstance(v, dict) else dict(v) for v in vals]
        noidx = [v if not isinstance(v, dict) else {k: x for k, x in v.items() if k != "i"} for v in vals]
        for rep in (["Array", 3, elem], ["Prefixed", BY, ["GreedyRange", elem], False], ["RepeatUntil", ["lenge", 3], elem],
                    ["Struct", [["head", ["Array", 2, BY]], ["rows", ["Prefixed", BY, ["GreedyRange", elem], False]]]]):
            if rep[0] == "Struct":
                out.append((rep, [({"head": [7, 8], "rows": noidx}, {"head": [7, 8], "rows": plain})]))
            else:
                out.append((rep, [(noidx, plain)]))
    return out


def adapter_cases():
    """adapter / tunnel classes outside the term language: (name, construct factory, [(build input, expected parse result)])"""
    import construct as C
    import collections
    obj_, this = C.obj_, C.this
    coord = collections.namedtuple("coord", "x y")
    cases = [
        ("ExprAdapter(Byte, obj_+1, obj_-1)", lambda: C.ExprAdapter(C.Byte, obj_ + 1, obj_ - 1), [(v, v) for v in range(1, 257)]),
        ("ExprAdapter(Int16sl, -obj_, -obj_)", lambda: C.ExprAdapter(C.Int16sl, -obj_, -obj_), [(v, v) for v in (-32767, -1, 0, 1, 255, 256, 32767)]),
        ("ExprSymmetricAdapter(Byte, obj_ ^ 0xff)", lambda: C.ExprSymmetricAdapter(C.Byte, obj_ ^ 0xff), [(v, v) for v in range(256)]),
        ("ExprAdapter lambdas with context", lambda: C.Struct("k" / C.Byte, "v" / C.ExprAdapter(C.Byte, lambda o, c: o + c.k, lambda o, c: o - c.k)),
         [(dict(k=k, v=v), dict(k=k, v=v)) for k in (0, 1, 5) for v in (k, k + 1, k + 250)]),
        ("Slicing(Array(4,Byte),4,1,3,empty=0)", lambda: C.Slicing(C.Array(4, C.Byte), 4, 1, 3, empty=0), [([a, b], [a, b]) for a in (0, 1, 255) for b in (0, 7)]),
        ("Slicing(Array(5,Int16ub),5,0,5,step=2)", lambda: C.Slicing(C.Array(5, C.Int16ub), 5, 0, 5, step=2, empty=9), [([1, 2, 3], [1, 2, 3]), ([0, 0, 65535], [0, 0, 65535])]),
        ("Indexing(Array(4,Byte),4,2,empty=0)", lambda: C.Indexing(C.Array(4, C.Byte), 4, 2, empty=0), [(v, v) for v in (0, 1, 7, 255)]),
        ("Indexing first/last", lambda: C.Struct("a" / C.Indexing(C.Array(3, C.Byte), 3, 0, empty=1), "b" / C.Indexing(C.Array(3, C.Byte), 3, 2, empty=2)),
         [(dict(a=5, b=6), dict(a=5, b=6)), (dict(a=0, b=0), dict(a=0, b=0))]),
        ("NamedTuple over Array", lambda: C.NamedTuple("coord", "x y", C.Array(2, C.Byte)), [(coord(1, 2), [1, 2]), ([3, 4], [3, 4])]),
        ("NamedTuple over Struct", lambda: C.NamedTuple("coord", "x y", C.Struct("x" / C.Byte, "y" / C.Int16ub)), [(coord(1, 300), [1, 300])]),
        ("Transformed reverse 3", lambda: C.Transformed(C.Struct("a" / C.Byte, "b" / C.Int16ub), lambda b: b[::-1], 3, lambda b: b[::-1], 3), [(dict(a=1, b=0x0203), dict(a=1, b=0x0203))]),
        ("Restreamed nibble-swap", lambda: C.Restreamed(C.Struct("a" / C.Byte, "b" / C.VarInt), lambda b: bytes([((b[0] << 4) | (b[0] >> 4)) & 0xff]), 1,
                                                      lambda b: bytes([((b[0] << 4) | (b[0] >> 4)) & 0xff]), 1, lambda n: n),
         [(dict(a=0x12, b=300), dict(a=0x12, b=300)), (dict(a=0, b=0), dict(a=0, b=0))]),
        ("Compressed(Prefixed) in struct", lambda: C.Struct("z" / C.Prefixed(C.Byte, C.Compressed(C.GreedyBytes, "zlib")), "t" / C.Byte),
         [(dict(z=b"", t=1), dict(z=b"", t=1)), (dict(z=b"aaaaaaaaaaaaaaaa", t=2), dict(z=b"aaaaaaaaaaaaaaaa", t=2))]),
        ("LazyBound recursion", None, [(dict(value=2, next=dict(value=1, next=dict(value=0, next=None))), dict(value=2, next=dict(value=1, next=dict(value=0, next=None)))),
                                      (dict(value=0, next=None), dict(value=0, next=None))]),
        ("FocusedSeq selects member", lambda: C.FocusedSeq("num", C.Const(b"S"), "num" / C.Int16ul, C.Terminated), [(v, v) for v in (0, 1, 300, 65535)]),
        ("Mapping over Flag", lambda: C.Mapping(C.Flag, {"yes": True, "no": False}), [("yes", "yes"), ("no", "no")]),
        ("Select of adapters", lambda: C.Select(C.OneOf(C.Byte, [1, 2]), C.ExprAdapter(C.Int16ub, obj_ + 1000, obj_ - 1000)), [(1, 1), (2, 2), (2000, 2000), (1000, 1000)]),       # second alternative's first byte is never 1 or 2
    ]
    # classes outside the term language that the other cases did not reach: Filter, RestreamData, Timestamp (values on the unit grid)
    cases += [
        ("Filter(obj_ != 0, Array(3, Byte))", lambda: C.Filter(obj_ != 0, C.Array(3, C.Byte)), [([1, 2, 3], [1, 2, 3]), ([255, 1, 255], [255, 1, 255])]),
        ("Filter(obj_ > 1, GreedyRange(Int16ub)) in Prefixed", lambda: C.Prefixed(C.Byte, C.Filter(obj_ > 1, C.GreedyRange(C.Int16ub))), [([2, 300], [2, 300]), ([], [])]),
        ("RestreamData(bytes, Struct)", lambda: C.RestreamData(b"\x07\x08", C.Struct("a" / C.Byte, "b" / C.Byte)), [(None, dict(a=7, b=8))]),
        ("RestreamData(this.d, Int16ub) in Struct", lambda: C.Struct("d" / C.Bytes(2), "r" / C.RestreamData(this.d, C.Int16ub), "t" / C.Byte),
         [(dict(d=b"\x01\x02", r=None, t=5), dict(d=b"\x01\x02", r=258, t=5)), (dict(d=b"\xff\xff", t=0), dict(d=b"\xff\xff", r=65535, t=0))]),
    ]
    try:
        import arrow
        A = arrow.Arrow
        grid = [A(1980, 1, 1), A(2000, 2, 29, 12, 30, 44), A(2038, 1, 19, 3, 14, 8), A(2040, 12, 31, 23, 59, 58)]
        cases += [
            ("Timestamp(Int64ub, 1., 1970)", lambda: C.Timestamp(C.Int64ub, 1., 1970), [(v, v) for v in grid + [A(1970, 1, 1), A(1969, 12, 31, 23, 59, 59)][:1]]),
            ("Timestamp(Int64sb, 1, 1970)", lambda: C.Timestamp(C.Int64sb, 1, 1970), [(v, v) for v in grid + [A(1969, 12, 31, 23, 59, 59), A(1904, 1, 1)]]),
            ("Timestamp(Int64ul, 10**-7, 1600)", lambda: C.Timestamp(C.Int64ul, 10 ** -7, 1600), [(v, v) for v in grid + [A(2000, 1, 1, 0, 0, 0, 500000), A(1601, 1, 1)]]),
            ("Timestamp(Int32ub, 1, 1904)", lambda: C.Timestamp(C.Int32ub, 1, 1904), [(v, v) for v in grid[:3] + [A(1904, 1, 1)]]),
            ("Timestamp(Int64ub, 10**-3, 1970)", lambda: C.Timestamp(C.Int64ub, 10 ** -3, 1970), [(v, v) for v in grid + [A(2000, 1, 1, 0, 0, 0, 500000), A(2000, 1, 1, 0, 0, 0, 1000)]]),
            ("Timestamp(Int32ub, 1, Arrow(2000,1,1))", lambda: C.Timestamp(C.Int32ub, 1, A(2000, 1, 1)), [(v, v) for v in grid[1:] + [A(2000, 1, 1)]]),
            ("Timestamp(Int32ub, msdos)", lambda: C.Timestamp(C.Int32ub, "msdos", "msdos"), [(v, v) for v in grid + [A(2107, 12, 31, 23, 59, 58), A(1999, 12, 31, 0, 0, 2)]]),
            ("Timestamp in Struct", lambda: C.Struct("n" / C.Byte, "t" / C.Timestamp(C.Int32ul, 1, 1970), "z" / C.Byte), [(dict(n=1, t=v, z=2), dict(n=1, t=v, z=2)) for v in grid[:3]]),
        ]
    except ImportError:
        pass
    def node():
        d = C.Struct("value" / C.Byte, "next" / C.If(this.value > 0, C.LazyBound(lambda: d)))
        return d
    cases = [(n, (node if f is None else f), v) for n, f, v in cases]
    return cases


def run_adapters(r):
    for name, mk_, vals in adapter_cases():
        d = mk_()
        for vin, vexp in vals:
            r.states += 1
            b = rt.build(d, vin, {})
            case = {"adapter": name, "value": repr(vin)}
            if b[0] != "ok":
                r.case(nontrivial=True, outcome="build-failed", validated=1)
                r.violation("C01/build-rejects-domain-value/adapter:" + name.split("(")[0].split(" ")[0], case, "%s.build(%r) -> %r" % (name, vin, b))
                continue
            p = rt.parse(d, b[1], {})
            if p[0] != "ok" or not matches(vexp, p[1]) or p[2] != len(b[1]):
                r.case(nontrivial=True, outcome="differs", validated=1)
                r.violation("C01/roundtrip-differs/adapter:" + name.split("(")[0].split(" ")[0], case, "%s: build(%r) = %s parses to %r (consumed %s), expected %r" % (name, vin, b[1].hex(), p[1:2], p[2] if p[0] == "ok" else "-", vexp))
                continue
            # the same instance again (second use)
            b2 = rt.build(d, vin, {})
            if b2 != b:
                r.violation("C01/roundtrip-differs/adapter:" + name.split("(")[0].split(" ")[0], case, "%s: second build of %r gives %r, first %r" % (name, vin, b2, b))
            r.case(nontrivial=True, outcome="ok", transitions=3, validated=1)
        r.sample({"adapter": name, "values": len(vals)}, cap=3)


def units(tier):
    us = [{"terms": [[t, tn] for t, tn in ch]} for ch in chunks(terms_for(tier), 10)]
    us.append({"extras": True})
    us.append({"adapters": True})
    from .. import scale
    for n in scale.sizes(tier):
        us.append({"scale": n})
    from .c03 import TEXT_ENCODINGS
    for enc in TEXT_ENCODINGS:
        us.append({"text": enc})
    return us


def matches(exp, got):
    """structural relation: every member the expectation names is present and equal; lists element-wise"""
    if isinstance(exp, dict):
        if not isinstance(got, dict):
            return False
        return all(k in got and matches(v, got[k]) for k, v in exp.items())
    if isinstance(exp, list):
        return isinstance(got, list) and len(exp) == len(got) and all(matches(a, b) for a, b in zip(exp, got))
    return T.eqv(exp, got)


def drop_derived(t, v):
    """variants of a value with members that build derives by itself omitted (one at a time and all together)"""
    out = []
    k = t[0]
    if k == "Struct" and isinstance(v, dict):
        names = [n for n, s in t[1] if n is not None and s[0] in DERIVED and n in v]
        for n in names:
            out.append({kk: vv for kk, vv in v.items() if kk != n})
        if len(names) > 1:
            out.append({kk: vv for kk, vv in v.items() if kk not in names})
        for n, s in t[1]:
            if n is not None and n in v:
                for sub in drop_derived(s, v[n]):
                    out.append(dict(v, **{n: sub}))
    elif k == "Sequence" and isinstance(v, list) and len(v) == len(t[1]):
        # a list cannot omit a member: the derived ones are given as None instead
        idx = [i for i, (n, s) in enumerate(t[1]) if s[0] in DERIVED or s[0] == "Default"]
        for i in idx:
            out.append(v[:i] + [None] + v[i + 1:])
        if len(idx) > 1:
            out.append([None if i in idx else x for i, x in enumerate(v)])
        for i, (n, s) in enumerate(t[1]):
            for sub in drop_derived(s, v[i]):
                out.append(v[:i] + [sub] + v[i + 1:])
    elif k in ("Array", "PrefixedArray", "GreedyRange", "RepeatUntil") and isinstance(v, list) and v:
        s = t[2] if k != "GreedyRange" else t[1]
        for sub in drop_derived(s, v[0]):
            out.append([sub] + v[1:])
    elif R.child(t) is not None and k not in ("Enum", "FlagsEnum", "Mapping", "RawCopy"):
        out += drop_derived(R.child(t), v)
    return out


def check_value(t, d, vin, vexp, kw, tsig):
    b = rt.build(d, vin, kw)
    case = {"term": t, "value": enc_value(vin), "expected": enc_value(vexp), "kw": kw}
    if b[0] != "ok":
        return "build-failed", [{"sig": "C01/build-rejects-domain-value/%s/%s" % (b[1] if len(b) > 1 else b[0], tsig), "case": case,
                                 "detail": "%s.build(%r) -> %r; the value is in the domain (expected to parse back as %r)" % (T.show(t), vin, b, vexp)}]
    p = rt.parse(d, b[1], kw)
    if p[0] != "ok":
        return "parse-failed", [{"sig": "C01/parse-rejects-own-encoding/%s/%s" % (p[1] if len(p) > 1 else p[0], tsig), "case": case,
                                 "detail": "%s: build(%r) = %s, parsing that -> %r" % (T.show(t), vin, b[1].hex(), p)}]
    if not matches(vexp, p[1]):
        return "differs", [{"sig": "C01/roundtrip-differs/" + tsig, "case": case,
                            "detail": "%s: build(%r) = %s parses to %r, expected %r" % (T.show(t), vin, b[1].hex(), p[1], vexp)}]
    if p[2] != len(b[1]):
        return "unconsumed", [{"sig": "C01/encoding-not-consumed/" + tsig, "case": case,
                               "detail": "%s: build(%r) = %s, parse consumed only %d bytes" % (T.show(t), vin, b[1].hex(), p[2])}]
    # the order in which a dict lists the members is irrelevant (declaration order decides the layout)
    rv = reorder(vin)
    if rv is not None:
        b2 = rt.build(d, rv, kw)
        if b2 != b:
            return "differs", [{"sig": "C01/build-depends-on-dict-order/" + tsig, "case": case,
                                "detail": "%s: build(%r) = %s, but with the keys listed in reverse order: %r" % (T.show(t), vin, b[1].hex(), b2[:2])}]
    return "ok", []


def reorder(v):
    """the same value with every dict listing its keys in reverse order; None if there is no dict with two keys inside"""
    found = [False]
    def go(x):
        if isinstance(x, dict):
            if len(x) > 1:
                found[0] = True
            return {k: go(x[k]) for k in reversed(list(x))}
        if isinstance(x, list):
            return [go(y) for y in x]
        return x
    out = go(v)
    return out if found[0] else None


def admissible(t, vin, vexp, kw):
    try:
        rb = R.build(t, vin, **kw)
        rv, end = R.parse(t, rb, **kw)
        return matches(vexp, rv) and end == len(rb)
    except Exception:
        return False


def run_term(t, tn, tier, r):
    d = T.mk(t)
    tsig = T.sig_of(t)
    a = G.attrs(t)
    if a.ctxfree:
        try:
            vals = G.values(t)
        except Exception as e:
            r.extra["values-unavailable"] += 1
            vals = []
        if tier == "thorough":
            # plus every value the reference reads from an accepted byte string (a far larger, systematically derived domain)
            try:
                vals = list(G.values(t, 24)) + [v for v in vals if v not in G.values(t, 24)]
            except Exception:
                pass
            got = {}
            for x in sigma(INFO["bounds"][tier]["L_ctxfree"]):
                try:
                    v, end = R.parse(t, x)
                except Exception:
                    continue
                if end == len(x):
                    got.setdefault(repr(v), v)
            vals = list(vals) + [(T.denorm(v), v) for v in got.values()]
        seen = set()
        for vin, vexp in vals:
            key = repr((vin, vexp))
            if key in seen:
                continue
            seen.add(key)
            r.states += 1
            if not admissible(t, vin, vexp, {}):
                r.case(nontrivial=False, outcome="gap", transitions=0)
                continue
            res, vs = check_value(t, d, vin, vexp, {}, tsig)
            r.case(nontrivial=True, outcome=res, transitions=2, validated=1)
            for v in vs:
                r.violation(v["sig"], v["case"], v["detail"])
        r.sample({"term": T.show(t), "tier": tn, "values": len(seen)}, cap=2)
        return
    # context-dependent shapes: the domain is every value the reference reads from an accepted input
    L = INFO["bounds"][tier]["L_T4"]
    n = 0
    for kw in G.kwargs_for(t):
        seen = set()
        for x in sigma(L):
            try:
                v, end = R.parse(t, x, **kw)
            except Exception:
                continue
            cands = [v] + drop_derived(t, v)
            for vin in cands:
                vin = T.denorm(vin)
                key = repr(vin)
                if key in seen:
                    continue
                seen.add(key)
                r.states += 1
                if not admissible(t, vin, v, kw):
                    r.case(nontrivial=False, outcome="gap", transitions=0)
                    continue
                res, vs = check_value(t, d, vin, v, kw, tsig)
                r.case(nontrivial=True, outcome=res, transitions=2, validated=1)
                for vv in vs:
                    r.violation(vv["sig"], vv["case"], vv["detail"])
        n += len(seen)
    r.sample({"term": T.show(t), "tier": tn, "values": n}, cap=2)


def run_unit(unit, tier):
    r = UnitResult()
    if unit.get("text"):
        from .c03 import text_space, TEXTS
        terms, frame, value_for, raws = text_space(unit["text"])
        for t in terms:
            d = T.mk(t)
            tsig = "text:" + T.sig_of(t)
            for s_ in TEXTS:
                v = value_for(t, s_)
                r.states += 1
                if not admissible(t, v, v, {}):
                    r.case(nontrivial=False, outcome="gap", transitions=0)
                    continue
                res, vs = check_value(t, d, v, v, {}, tsig)
                r.case(nontrivial=True, outcome=res, transitions=2, validated=1)
                for x in vs:
                    r.violation(x["sig"], x["case"], x["detail"])
        r.sample({"text_encoding": unit["text"], "framings": len(terms), "texts": len(TEXTS)})
        return r
    if unit.get("scale"):
        from .c03 import scale_cases, srepr
        n = unit["scale"]
        for t, v in scale_cases(n):
            d = T.mk(t)
            r.states += 1
            b = rt.build(d, v, {}, timeout=60)
            case = {"scale": [T.show(t)[:60], n]}
            if b[0] != "ok":
                r.case(nontrivial=True, outcome="build-failed", validated=1)
                r.violation("C01/build-rejects-domain-value/scale:" + T.sig_of(t), case, "%s.build(<%d units>) -> %r" % (T.show(t), n, b[:2]))
                continue
            p = rt.parse(d, b[1], {}, timeout=60)
            ok = p[0] == "ok" and p[2] == len(b[1]) and matches(T.norm(v) if not isinstance(v, (bytes, str, int)) else v, p[1])
            r.case(nontrivial=True, outcome="ok" if ok else "differs", transitions=2, validated=1)
            if not ok:
                r.violation("C01/roundtrip-differs/scale:" + T.sig_of(t), case, "%s: the %d-byte encoding of a value of %d units parses to %s (consumed %s)" % (
                    T.show(t), len(b[1]), n, srepr(p[1]) if p[0] == "ok" else repr(p[:2]), p[2] if p[0] == "ok" else "-"))
        r.sample({"scale": n, "formats": len(scale_cases(n))})
        return r
    if unit.get("adapters"):
        run_adapters(r)
        return r
    if unit.get("extras"):
        for t, vals in extras():
            d = T.mk(t)
            tsig = T.sig_of(t, 3)
            for vin, vexp in vals:
                r.states += 1
                res, vs = check_value(t, d, vin, vexp, {}, tsig)
                r.case(nontrivial=True, outcome=res, transitions=2, validated=1)
                for v in vs:
                    r.violation(v["sig"], v["case"], v["detail"])
            r.sample({"term": T.show(t), "tier": "extra", "values": len(vals)}, cap=3)
        return r
    for t, tn in unit["terms"]:
        run_term(t, tn, tier, r)
    return r


def replay(case):
    if "scale" in case:
        return [v for v in run_unit({"scale": case["scale"][1]}, "quick").violations if v["case"] == case]
    if "adapter" in case:
        r = UnitResult(); run_adapters(r)
        return [v for v in r.violations if v["case"] == case]
    t = case["term"]
    return check_value(t, T.mk(t), dec_value(case["value"]), dec_value(case["expected"]), case.get("kw") or {}, T.sig_of(t))[1]
