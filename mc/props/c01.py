"""C01 - build then parse returns the value that was built (symmetry)."""
import itertools
from ..engine import UnitResult, jkey
from .. import ref as R, terms as T, gen as G, rt
from .c03 import sigma, enc_value, dec_value, chunks

INFO = {
    "rule": "every strict-typed term of tiers T1..T3 (+T5 thorough) x every (build input, expected result) pair of its value domain "
            "(full integer/float/string alphabets for primitives, bounded products for composites; thorough: also every value the reference reads from an accepted string over S6^<=5); every T4 shape (context "
            "dependencies: length/count/condition/switch refs, Rebuild(len_), Default, Computed, Const, StopIf, _ / _root / _params) x "
            "keyword contexts x every value obtained from an accepted byte string over S6^<=4, also with each derived member "
            "omitted. Oracle: parse(build(v)) matches the expected value structurally (derived members filled in), the whole "
            "encoding is consumed. non-trivial = a value whose round trip was executed and compared; distinct = distinct (term, kw, value)",
    "bounds": {"quick": {"tiers": "T1,T2,T3,T4", "L_T4": 4, "L_ctxfree": 0}, "thorough": {"tiers": "T1..T5", "L_T4": 6, "L_ctxfree": 5}},
    "trusted_base": ["value domains and expected results in mc/gen.py:values()", "mc/ref.py is used ONLY as a domain filter "
                     "(a value whose reference round trip is not the identity is a representational gap of the composition and is "
                     "skipped, counted as 'gap'); the verdict compares the implementation with the expected value"],
    "assumptions": ["compositions follow the typing rules of DESIGN 2.1 (strict mode)"],
}

DERIVED = ("Rebuild", "ConstB", "ConstV", "Computed", "Padding", "Check", "StopIf", "Pass", "Tell", "Index")


def terms_for(tier):
    out = [(t, "T1") for t in G.tier1()] + [(t, "T2") for t in G.tier2()] + [(t, "T3") for t in G.tier3()] + [(t, "T4") for t in G.tier4()]
    if tier == "thorough":
        out += [(t, "T5") for t in G.tier5()]
    return out


def extras():
    """shapes whose value domain is not derivable generically: (term, [(build input, expected)])"""
    B = lambda n, s=False: ["BitsInteger", n, s, False]
    bits = lambda s: bytes(int(c) for c in s)
    out = []
    for w in (1, 3, 4, 7):
        tail = [bits("1011" * 4)[:(-w) % 8 or 8], bits("0" * ((-w) % 8 or 8)), bits(("10" * 12)[:((-w) % 8 or 8) + 8])]
        t = ["Bitwise", ["Struct", [["a", B(w)], ["rest", ["GreedyBytes"]]]]]
        out.append((t, [({"a": 1, "rest": x}, {"a": 1, "rest": x}) for x in tail]))
        t2 = ["Bitwise", ["Struct", [["a", B(w, True)], ["b", ["Flag"]], ["rest", ["GreedyBytes"]]]]]
        out.append((t2, [({"a": -1, "b": True, "rest": x[1:]}, {"a": -1, "b": True, "rest": x[1:]}) for x in tail if len(x) > 1]))
    out.append((["Bitwise", ["Struct", [["a", B(4)], ["rest", ["GreedyRange", B(4)]]]]], [({"a": 5, "rest": [1]}, {"a": 5, "rest": [1]}), ({"a": 5, "rest": [1, 2, 3]}, {"a": 5, "rest": [1, 2, 3]})]))
    out.append((["Bitwise", ["Sequence", [[None, B(3)], [None, B(5)], [None, ["GreedyBytes"]]]]], [([1, 2, bits("10000001")], [1, 2, bits("10000001")]), ([7, 31, b""], [7, 31, b""])]))
    out.append((["BitsSwapped", ["Struct", [["a", ["VarInt"]], ["rest", ["GreedyBytes"]]]]], [({"a": 300, "rest": b"xyz"}, {"a": 300, "rest": b"xyz"})]))
    return out


def units(tier):
    us = [{"terms": [[t, tn] for t, tn in ch]} for ch in chunks(terms_for(tier), 10)]
    us.append({"extras": True})
    return us


def matches(exp, got):
    """structural relation: every member the expectation names is present and equal; lists element-wise"""
    if isinstance(exp, dict):
        if not isinstance(got, dict):
            return False
        return all(k in got and matches(v, got[k]) for k, v in exp.items())
    if isinstance(exp, list):
        return isinstance(got, list) and len(exp) == len(got) and all(matches(a, b) for a, b in zip(exp, got))
    return T.eqv(exp, got)


def drop_derived(t, v):
    """variants of a value with members that build derives by itself omitted (one at a time and all together)"""
    out = []
    k = t[0]
    if k == "Struct" and isinstance(v, dict):
        names = [n for n, s in t[1] if n is not None and s[0] in DERIVED and n in v]
        for n in names:
            out.append({kk: vv for kk, vv in v.items() if kk != n})
        if len(names) > 1:
            out.append({kk: vv for kk, vv in v.items() if kk not in names})
        for n, s in t[1]:
            if n is not None and n in v:
                for sub in drop_derived(s, v[n]):
                    out.append(dict(v, **{n: sub}))
    elif k in ("Array", "PrefixedArray", "GreedyRange", "RepeatUntil") and isinstance(v, list) and v:
        s = t[2] if k != "GreedyRange" else t[1]
        for sub in drop_derived(s, v[0]):
            out.append([sub] + v[1:])
    elif R.child(t) is not None and k not in ("Enum", "FlagsEnum", "Mapping", "RawCopy"):
        out += drop_derived(R.child(t), v)
    return out


def check_value(t, d, vin, vexp, kw, tsig):
    b = rt.build(d, vin, kw)
    case = {"term": t, "value": enc_value(vin), "expected": enc_value(vexp), "kw": kw}
    if b[0] != "ok":
        return "build-failed", [{"sig": "C01/build-rejects-domain-value/%s/%s" % (b[1] if len(b) > 1 else b[0], tsig), "case": case,
                                 "detail": "%s.build(%r) -> %r; the value is in the domain (expected to parse back as %r)" % (T.show(t), vin, b, vexp)}]
    p = rt.parse(d, b[1], kw)
    if p[0] != "ok":
        return "parse-failed", [{"sig": "C01/parse-rejects-own-encoding/%s/%s" % (p[1] if len(p) > 1 else p[0], tsig), "case": case,
                                 "detail": "%s: build(%r) = %s, parsing that -> %r" % (T.show(t), vin, b[1].hex(), p)}]
    if not matches(vexp, p[1]):
        return "differs", [{"sig": "C01/roundtrip-differs/" + tsig, "case": case,
                            "detail": "%s: build(%r) = %s parses to %r, expected %r" % (T.show(t), vin, b[1].hex(), p[1], vexp)}]
    if p[2] != len(b[1]):
        return "unconsumed", [{"sig": "C01/encoding-not-consumed/" + tsig, "case": case,
                               "detail": "%s: build(%r) = %s, parse consumed only %d bytes" % (T.show(t), vin, b[1].hex(), p[2])}]
    return "ok", []


def admissible(t, vin, vexp, kw):
    try:
        rb = R.build(t, vin, **kw)
        rv, end = R.parse(t, rb, **kw)
        return matches(vexp, rv) and end == len(rb)
    except Exception:
        return False


def run_term(t, tn, tier, r):
    d = T.mk(t)
    tsig = T.sig_of(t)
    a = G.attrs(t)
    if a.ctxfree:
        try:
            vals = G.values(t)
        except Exception as e:
            r.extra["values-unavailable"] += 1
            vals = []
        if tier == "thorough":
            # plus every value the reference reads from an accepted byte string (a far larger, systematically derived domain)
            try:
                vals = list(G.values(t, 24)) + [v for v in vals if v not in G.values(t, 24)]
            except Exception:
                pass
            got = {}
            for x in sigma(INFO["bounds"][tier]["L_ctxfree"]):
                try:
                    v, end = R.parse(t, x)
                except Exception:
                    continue
                if end == len(x):
                    got.setdefault(repr(v), v)
            vals = list(vals) + [(T.denorm(v), v) for v in got.values()]
        seen = set()
        for vin, vexp in vals:
            key = repr((vin, vexp))
            if key in seen:
                continue
            seen.add(key)
            r.states += 1
            if not admissible(t, vin, vexp, {}):
                r.case(nontrivial=False, outcome="gap", transitions=0)
                continue
            res, vs = check_value(t, d, vin, vexp, {}, tsig)
            r.case(nontrivial=True, outcome=res, transitions=2, validated=1)
            for v in vs:
                r.violation(v["sig"], v["case"], v["detail"])
        r.sample({"term": T.show(t), "tier": tn, "values": len(seen)}, cap=2)
        return
    # context-dependent shapes: the domain is every value the reference reads from an accepted input
    L = INFO["bounds"][tier]["L_T4"]
    n = 0
    for kw in G.kwargs_for(t):
        seen = set()
        for x in sigma(L):
            try:
                v, end = R.parse(t, x, **kw)
            except Exception:
                continue
            cands = [v] + drop_derived(t, v)
            for vin in cands:
                vin = T.denorm(vin)
                key = repr(vin)
                if key in seen:
                    continue
                seen.add(key)
                r.states += 1
                if not admissible(t, vin, v, kw):
                    r.case(nontrivial=False, outcome="gap", transitions=0)
                    continue
                res, vs = check_value(t, d, vin, v, kw, tsig)
                r.case(nontrivial=True, outcome=res, transitions=2, validated=1)
                for vv in vs:
                    r.violation(vv["sig"], vv["case"], vv["detail"])
        n += len(seen)
    r.sample({"term": T.show(t), "tier": tn, "values": n}, cap=2)


def run_unit(unit, tier):
    r = UnitResult()
    if unit.get("extras"):
        for t, vals in extras():
            d = T.mk(t)
            tsig = T.sig_of(t, 3)
            for vin, vexp in vals:
                r.states += 1
                res, vs = check_value(t, d, vin, vexp, {}, tsig)
                r.case(nontrivial=True, outcome=res, transitions=2, validated=1)
                for v in vs:
                    r.violation(v["sig"], v["case"], v["detail"])
            r.sample({"term": T.show(t), "tier": "extra", "values": len(vals)}, cap=3)
        return r
    for t, tn in unit["terms"]:
        run_term(t, tn, tier, r)
    return r


def replay(case):
    t = case["term"]
    return check_value(t, T.mk(t), dec_value(case["value"]), dec_value(case["expected"]), case.get("kw") or {}, T.sig_of(t))[1]
