"""C02 - re-encoding parsed data is canonical and stable (build-after-parse is idempotent)."""
import os, sys, io, itertools
from ..engine import UnitResult, jkey, watchdog, Hang, REPO
from .. import ref as R, terms as T, gen as G, rt
from .c03 import sigma, chunks, S6
from . import c01

INFO = {
    "rule": "every strict-typed non-seeking term of tiers T1..T4 (+T5 thorough) x every byte string over S6 up to length L, plus every "
            "canonical encoding of the term's value domain with every single-bit flip, every single-byte insertion from S6 at every "
            "position, every deletion and every truncation (two mutations in thorough for encodings <= 6 bytes); the gallery "
            "formats on their sample files with truncations and byte replacements. Oracle: if parse accepts x then y=build(parse(x)) "
            "succeeds, parse(y) equals parse(x), build(parse(y)) == y; T1 terms inside streaming bit/byte transforms; require=False terminated regions where representable. non-trivial = accepted inputs (the oracle ran to the final "
            "comparison); distinct = distinct (term, kw, input)",
    "bounds": {"quick": {"L_T1": 4, "L_T2": 4, "L_T3": 3, "mutations": 1}, "thorough": {"L_T1": 6, "L_T2": 5, "L_T3": 4, "L_T5": 3, "mutations": 2}},
    "trusted_base": ["typing rules of mc/gen.py (strict mode) decide which compositions are in the property's domain"],
    "assumptions": ["region-deriving wrappers (NullStripped, multi-byte NullTerminated, ProcessXor/Rotate, streaming BitsSwapped) take only "
                    "region-filling children; Optional only over non-nullable children that do not accept None"],
}


def terms_for(tier):
    b = INFO["bounds"][tier]
    out = [(t, "T1", b["L_T1"]) for t in G.tier1()] + [(t, "T2", b["L_T2"]) for t in G.tier2()] + [(t, "T3", b["L_T3"]) for t in G.tier3()] \
        + [(t, "T4", b["L_T2"]) for t in G.tier4()] + [(t, "TS", b["L_T2"]) for t in G.select_records()]
    out += [(t, "TSt", b["L_T3"]) for t in G.streaming_terms(1 if tier == "quick" else 2)]
    out += [(t, "TL", b["L_T2"] + 1) for t in G.lenient_terminated()]
    if tier == "thorough":
        out += [(t, "T5", b["L_T5"]) for t in G.tier5()]
    return out


def units(tier):
    us = [{"kind": "terms", "terms": [[t, tn, L] for t, tn, L in ch]} for ch in chunks(terms_for(tier), 8 if tier == "quick" else 4)]
    for name in GALLERY:
        us.append({"kind": "gallery", "name": name})
    from .c03 import TEXT_ENCODINGS
    for enc in TEXT_ENCODINGS:
        us.append({"kind": "text", "encoding": enc})
    from .. import scale
    for n in scale.sizes(tier):
        us.append({"kind": "scale", "size": n})
    return us


def raw_parse(d, x, kw):
    import construct as C
    try:
        with watchdog(5):
            return ("ok", d.parse(x, **kw))
    except Hang:
        return ("hang",)
    except C.ConstructError as e:
        return ("cerr", type(e).__name__)
    except Exception as e:
        return ("foreign", type(e).__name__, str(e)[:80])


def raw_build(d, v, kw):
    import construct as C
    try:
        with watchdog(5):
            return ("ok", d.build(v, **kw))
    except Hang:
        return ("hang",)
    except C.ConstructError as e:
        return ("cerr", type(e).__name__)
    except Exception as e:
        return ("foreign", type(e).__name__, str(e)[:80])


def check_input(show, d, x, kw, tsig, case):
    """-> (outcome, violations)"""
    p = raw_parse(d, x, kw)
    if p[0] != "ok":
        return "rejected", []
    try:
        v1 = T.norm(p[1])
    except Exception as e:
        return "norm-failed", []
    b = raw_build(d, p[1], kw)
    if b[0] != "ok":
        return "bad", [{"sig": "C02/build-rejects-parsed-value/%s/%s" % (b[1] if len(b) > 1 else b[0], tsig), "case": case,
                        "detail": "%s: parse(%s) = %r but build of that value -> %r" % (show, x.hex()[:80], short(v1), b)}]
    y = b[1]
    p2 = raw_parse(d, y, kw)
    if p2[0] != "ok":
        return "bad", [{"sig": "C02/rebuilt-bytes-rejected/%s/%s" % (p2[1] if len(p2) > 1 else p2[0], tsig), "case": case,
                        "detail": "%s: parse(%s) = %r, build gives %s, which parse rejects: %r" % (show, x.hex()[:80], short(v1), y.hex()[:80], p2)}]
    v2 = T.norm(p2[1])
    if not T.eqv(strip_offsets(v1), strip_offsets(v2)):
        return "bad", [{"sig": "C02/reparse-differs/" + tsig, "case": case,
                        "detail": "%s: parse(%s) = %r; build -> %s; parse -> %r" % (show, x.hex()[:80], short(v1), y.hex()[:80], short(v2))}]
    b2 = raw_build(d, p2[1], kw)
    if b2 != ("ok", y):
        return "bad", [{"sig": "C02/not-idempotent/" + tsig, "case": case,
                        "detail": "%s: parse(%s) -> build = %s -> parse -> build = %r" % (show, x.hex()[:80], y.hex()[:80], b2 if b2[0] != "ok" else b2[1].hex()[:80])}]
    return ("canonical" if y == x else "normalised"), []


def short(v):
    s = repr(v)
    return s if len(s) < 300 else s[:300] + "..."


def strip_offsets(v):
    """RawCopy's offset1/offset2 are absolute positions: they legitimately move when bytes before them are normalised"""
    if isinstance(v, dict):
        if set(v) >= {"data", "value", "offset1", "offset2", "length"}:
            return {k: strip_offsets(x) for k, x in v.items() if k not in ("offset1", "offset2")}
        return {k: strip_offsets(x) for k, x in v.items()}
    if isinstance(v, list):
        return [strip_offsets(x) for x in v]
    return v


def mutations(x, depth):
    out = []
    n = len(x)
    for i in range(n * 8):
        y = bytearray(x)
        y[i // 8] ^= 0x80 >> (i % 8)
        out.append(bytes(y))
    for i in range(n + 1):
        for b in S6:
            out.append(x[:i] + bytes([b]) + x[i:])
    for i in range(n):
        out.append(x[:i] + x[i + 1:])
    for i in range(n):
        out.append(x[:i])
    if depth >= 2 and n <= 6:
        first = list(out)
        for y in first:
            if len(y) <= 7:
                m = len(y)
                for i in range(m * 8):
                    z = bytearray(y)
                    z[i // 8] ^= 0x80 >> (i % 8)
                    out.append(bytes(z))
                for i in range(m):
                    out.append(y[:i] + y[i + 1:])
    return out


def run_term(t, tn, L, tier, r):
    d = T.mk(t)
    tsig = T.sig_of(t)
    show = T.show(t)
    a = G.attrs(t)
    depth = INFO["bounds"][tier]["mutations"]
    for kw in G.kwargs_for(t):
        seen = set()
        inputs = list(sigma(L))
        # canonical encodings of the value domain and their neighbourhood
        canon = []
        if a.ctxfree:
            try:
                vals = G.values(t)
            except Exception:
                vals = []
            for vin, vexp in vals[:12]:
                if c01.admissible(t, vin, vexp, {}):
                    b = raw_build(d, vin, kw)
                    if b[0] == "ok" and len(b[1]) <= 12:
                        canon.append(b[1])
        else:
            for x in sigma(3):
                try:
                    v, end = R.parse(t, x, **kw)
                    canon.append(R.build(t, T.denorm(v), **kw))
                except Exception:
                    pass
        for c in dict.fromkeys(canon):
            inputs.append(c)
            inputs += mutations(c, depth)
        for x in inputs:
            if x in seen:
                continue
            seen.add(x)
            r.states += 1
            res, vs = check_input(show, d, x, kw, tsig, {"term": t, "data": x, "kw": kw})
            r.case(nontrivial=res in ("canonical", "normalised"), outcome=res, transitions=4 if res != "rejected" else 1, validated=1)
            for v in vs:
                r.violation(v["sig"], v["case"], v["detail"])
    r.sample({"term": show, "tier": tn, "inputs": len(seen)}, cap=2)


# ------------------------------------------------------------------------------ gallery

GALLERY = {
    "png": ("deprecated_gallery", "png_file", ["tests/deprecated_gallery/blobs/sample.png"]),
    "emf": ("deprecated_gallery", "emf_file", ["tests/deprecated_gallery/blobs/emf1.emf"]),
    "bmp": ("deprecated_gallery", "bitmap_file", ["tests/deprecated_gallery/blobs/bitmap1.bmp", "tests/deprecated_gallery/blobs/bitmap4.bmp",
                                                    "tests/deprecated_gallery/blobs/bitmap8.bmp", "tests/deprecated_gallery/blobs/bitmap24.bmp"]),
    "wmf": ("deprecated_gallery", "wmf_file", ["tests/deprecated_gallery/blobs/wmf1.wmf"]),
    "gif": ("deprecated_gallery", "gif_file", ["tests/deprecated_gallery/blobs/sample.gif"]),
    "mbr": ("deprecated_gallery", "mbr_format", ["tests/deprecated_gallery/blobs/mbr1"]),
    "cap": ("deprecated_gallery", "cap_file", ["tests/deprecated_gallery/blobs/cap2.cap"]),
    "snoop": ("deprecated_gallery", "snoop_file", ["tests/deprecated_gallery/blobs/snoop1"]),
    "pe32": ("deprecated_gallery", "pe32_file", ["tests/deprecated_gallery/blobs/python.exe", "tests/deprecated_gallery/blobs/sqlite3.dll"]),
    "elf32": ("deprecated_gallery", "elf32_file", ["tests/deprecated_gallery/blobs/ctypes.so"]),
    "pe32coff": ("gallery", "pe32file", ["tests/gallery/blobs/sqlite3.dll"]),
}


def gallery_format(name):
    import importlib
    mod, attr, files = GALLERY[name]
    if REPO not in sys.path:
        sys.path.insert(0, REPO)
    m = importlib.import_module(mod)
    return getattr(m, attr), [os.path.join(REPO, f) for f in files]


# formats that place data through Pointer/Seek: a corrupted offset can make regions overlap, and then rebuilding (which
# normalises padding) legitimately rewrites bytes of another field - outside "sequential (non-seeking)"; for these only the
# sample file and its truncations are explored, not byte replacements
# cap: the definition is Padded(24, GreedyRange(packet)) - a greedy non-filling child inside a padded region, which the strict
# typing rules exclude (rebuilt zero padding re-parses as a packet); same treatment
SEEKING_FORMATS = {"bmp", "elf32", "emf", "pe32", "pe32coff", "cap"}


def gallery_inputs(data, tier, name=None):
    n = len(data)
    out = [data]
    cuts = set(range(0, min(n, 96))) | set(range(0, n, max(1, n // 48)))
    for c in sorted(cuts):
        out.append(data[:c])
    if name in SEEKING_FORMATS:
        return out
    lim = min(n, 128 if tier == "thorough" else 64)
    for i in range(lim):
        for b in (0x00, 0xff, data[i] ^ 0x01, data[i] ^ 0x80):
            if b != data[i]:
                out.append(data[:i] + bytes([b]) + data[i + 1:])
    return out


def run_gallery(name, tier, r):
    fmt, files = gallery_format(name)
    for f in files:
        with open(f, "rb") as fh:
            data = fh.read()
        if len(data) > 400000:
            data = data            # large PE files: only the full file and header mutations
        for i, x in enumerate(gallery_inputs(data, tier, name)):
            r.states += 1
            res, vs = check_input("gallery:" + name, fmt, x, {}, "gallery-" + name,
                                  {"gallery": name, "file": os.path.relpath(f, REPO), "mutation": i})
            r.case(nontrivial=res in ("canonical", "normalised"), outcome="gallery-" + res, transitions=4 if res != "rejected" else 1, validated=1)
            for v in vs:
                r.violation(v["sig"], v["case"], v["detail"])
    r.sample({"gallery": name, "files": [os.path.basename(f) for f in files]})


def run_unit(unit, tier):
    r = UnitResult()
    if unit["kind"] == "terms":
        for t, tn, L in unit["terms"]:
            run_term(t, tn, L, tier, r)
    elif unit["kind"] == "scale":
        # the size axis: the encodings of large values, and the same with a non-canonical tail where the format ignores one
        from .c03 import scale_cases, real_build, _BUDGET
        n = unit["size"]
        _BUDGET[0] = 60
        for t, v in scale_cases(n):
            d = T.mk(t)
            b = real_build(d, v, {})
            if b[0] != "ok":
                continue
            for data in (b[1], b[1] + b"\x00", b[1] + b"\x01\x02"):
                r.states += 1
                oc, vs = check_input(T.show(t), d, data, {}, "scale:" + T.sig_of(t), {"scale": [T.show(t)[:60], n, len(data)]})
                r.case(nontrivial=oc not in ("rejected",), outcome=oc, transitions=3, validated=1)
                for x in vs:
                    x["detail"] = x["detail"][:500]
                    r.violation(x["sig"], x["case"], x["detail"])
        _BUDGET[0] = 3
        r.sample({"scale_size": n, "formats": len(scale_cases(64))})
    elif unit["kind"] == "text":
        # the text axis (see c03.TEXTS / RAW_TEXT): every string framing on every well-formed, borderline and malformed sequence
        from .c03 import text_space
        terms, frame, value_for, raws = text_space(unit["encoding"])
        for t in terms:
            d = T.mk(t)
            tsig = T.sig_of(t)
            for raw in raws:
                data = frame(t, raw)
                if data is None:
                    continue
                r.states += 1
                oc, vs = check_input(T.show(t), d, data, {}, tsig, {"term": t, "data": data, "kw": {}})
                r.case(nontrivial=oc not in ("rejected",), outcome=oc, transitions=3, validated=1)
                for v in vs:
                    r.violation(v["sig"], v["case"], v["detail"])
        r.sample({"text_encoding": unit["encoding"], "framings": len(terms), "raw_sequences": len(raws)})
    else:
        run_gallery(unit["name"], tier, r)
    return r


def replay(case):
    if "scale" in case:
        return [v for v in run_unit({"kind": "scale", "size": case["scale"][1]}, "quick").violations if v["case"] == case]
    if "gallery" in case:
        fmt, files = gallery_format(case["gallery"])
        f = os.path.join(REPO, case["file"])
        data = open(f, "rb").read()
        for tier in ("quick", "thorough"):
            xs = gallery_inputs(data, tier, case["gallery"])
            if case["mutation"] < len(xs):
                vs = check_input("gallery:" + case["gallery"], fmt, xs[case["mutation"]], {}, "gallery-" + case["gallery"], case)[1]
                if vs:
                    return vs
        return []
    t = case["term"]
    return check_input(T.show(t), T.mk(t), case["data"], case.get("kw") or {}, T.sig_of(t), case)[1]
