"""C06 - malformed, truncated or failing input is always reported as ConstructError."""
import io, itertools
from ..engine import UnitResult, jkey, watchdog, Hang
from .. import ref as R, terms as T, gen as G, rt
from ..streams import ScriptedStream, applicable
from .c03 import sigma, chunks, enc_value, dec_value

INFO = {
    "rule": "(1) every term of tiers T1..T4 (non-strict; T5 thorough) x every byte string over S6 up to length L plus huge length/count "
            "fields: parse must terminate and return or raise a ConstructError subclass; (2) every rigid term (no greedy, optional, "
            "look-ahead or lenient part outside a delimited region) x every value: every strict prefix of the canonical encoding must "
            "raise StreamError; (3) terms x 2 inputs/values x every index k of the k-th stream operation x every applicable deviation "
            "(raise / short read / short write / tell fails / seek fails; pairs of deviations in thorough) for parse_stream and "
            "build_stream: rigid terms must raise StreamError, recovering terms a ConstructError or return; a term without an error-absorbing "
            "part (Optional, Select, Peek, GreedyRange, Union, Pointer, lazy, require=False) must answer a RAISING operation with StreamError "
            "even where it is lenient towards short reads; T1 terms (T1+T2 thorough) also inside streaming bit/byte transforms. non-trivial = the "
            "execution reached the judged point (input accepted or rejected by the library / deviation applied); distinct = (term, input, script)",
    "bounds": {"quick": {"L_T1": 4, "L_T2": 4, "L_T3": 3, "fault_deviations": 1}, "thorough": {"L_T1": 6, "L_T2": 5, "L_T3": 4, "L_T5": 3, "fault_deviations": 2}},
    "trusted_base": ["mc/streams.py ScriptedStream (environment model)", "rigidity classification in this module"],
    "assumptions": ["an unsized read() cannot be detectably short; a one-byte request answered with nothing is end-of-stream, so lenient "
                    "readers (GreedyBytes, Terminated, require=False, greedy children of a streaming bit region) may return",
                    "core fragment only: no Compressed/Pickled/Numpy/Timestamp/Rebuffered/Probe/Debugger, no user callbacks"],
}

LENIENT = ("Optional", "Select", "Peek", "NullStripped", "ProcessXor", "ProcessRotateLeft", "GreedyBytes", "GreedyString", "GreedyRange",
           "Terminated", "OffsettedEnd", "Pointer", "Union", "Seek", "StopIf", "Lazy", "LazyStruct", "LazyArray")


def rigid(t, inside=False):
    """every strict prefix of an encoding must be rejected with StreamError, and any stream fault must surface as StreamError"""
    k = t[0]
    if k in LENIENT:
        return inside and k not in ("Pointer", "Union", "Seek", "OffsettedEnd", "Lazy", "LazyStruct", "LazyArray", "StopIf")
    if k == "NullTerminated":
        if not t[5] and not inside:
            return False
        return rigid(t[1], True)
    if k == "Prefixed":
        return rigid(t[1], inside) and rigid(t[2], True)
    if k == "FixedSized":
        return rigid(t[2], True)
    if k == "PrefixedArray":
        return rigid(t[1], inside) and rigid(t[2], inside)
    if k in ("ByteSwapped",):
        return rigid(t[1], True)
    if k in ("BitsSwapped", "Bitwise", "Bytewise"):
        a = G.attrs(t[1])
        return rigid(t[1], True if a.extent in ("fixed", "zero") else inside)
    if k in ("Struct", "Sequence"):
        return all(rigid(s, inside) for _, s in t[1])
    if k == "FocusedSeq":
        return all(rigid(s, inside) for _, s in t[2])
    if k == "IfThenElse":
        return rigid(t[2], inside) and rigid(t[3], inside)
    if k == "Switch":
        return all(rigid(s, inside) for _, s in t[2]) and (t[3] is None or rigid(t[3], inside))
    if k == "If":
        return rigid(t[2], inside)
    if k == "RepeatUntil":
        return rigid(t[2], inside)
    if k == "PascalString":
        return rigid(t[1], inside)
    c = R.child(t)
    if c is not None:
        return rigid(c, inside)
    return True


SWALLOWS = ("Optional", "Select", "Peek", "GreedyRange", "Lazy", "LazyStruct", "LazyArray", "Union", "Pointer")


def swallows(t):
    """the term has a part that is documented to absorb an error of its child (alternatives, optional parts, greedy repetition,
    look-ahead, deferred parsing, require=False regions).  Without such a part a stream operation that RAISES can only end in StreamError -
    lenient readers (Terminated, GreedyBytes) tolerate a short answer, never a failed one."""
    if not isinstance(t, list) or not t:
        return False
    if isinstance(t[0], str):
        if t[0] in SWALLOWS:
            return True
        if t[0] == "NullTerminated" and not t[5]:
            return True
    return any(swallows(x) for x in t if isinstance(x, list))


ABSORBING = ("Select", "Peek", "GreedyRange", "Lazy", "LazyStruct", "LazyArray", "LazyBound")


def absorbed(stack):
    """stack = construct methods at the moment the deviating operation was issued, innermost first.  True when a construct that is
    documented to absorb the failure of what it ENCLOSES is strictly above the issuing construct (an operation issued by Select, Peek or
    GreedyRange themselves - remembering and restoring the position - is not absorbed by them), or when the issuer is a require=False
    terminated region reading its own next unit"""
    if not stack:
        return True     # no construct frame identified: no claim
    if stack[0][0] == "NullTerminated":
        return True
    return any(cls in ABSORBING for cls, fn in stack[1:])


def terms_for(tier, strict=False):
    b = INFO["bounds"][tier]
    out = [(t, "T1", b["L_T1"]) for t in G.tier1()] + [(t, "T2", b["L_T2"]) for t in G.tier2(strict)] + [(t, "T3", b["L_T3"]) for t in G.tier3(strict)] \
        + [(t, "T4", b["L_T2"]) for t in G.tier4()] + [(t, "X", b["L_T2"]) for t in extra_terms() + G.discard_terms() + G.zero_size_terms()]
    out += [(t, "TSt", b["L_T3"]) for t in G.streaming_terms(1 if tier == "quick" else 2)]
    if tier == "thorough":
        out += [(t, "T5", b["L_T5"]) for t in G.tier5(strict)]
    return out


def extra_terms():
    """constructs the generic tiers do not contain but the property names"""
    B = G.BYTE
    return [
        ["Struct", [["a", B], [None, ["Terminated"]]]],
        ["Terminated"],
        ["Struct", [["n", G.I(8, False, "b")], ["d", ["Bytes", ["this", "n"]]]]],
        ["Struct", [["n", G.I(8, False, "b")], ["d", ["Array", ["this", "n"], B]]]],
        ["Struct", [["n", G.I(8, True, "b")], ["d", ["Padding", ["this", "n"]]]]],
        ["Prefixed", G.I(8, False, "b"), ["GreedyBytes"], False],
        ["Prefixed", ["VarInt"], ["GreedyBytes"], False],
        ["PrefixedArray", ["VarInt"], B],
        ["PascalString", ["VarInt"], "utf8"],
        ["Struct", [["n", ["VarInt"]], ["d", ["FixedSized", ["this", "n"], ["GreedyBytes"]]]]],
        ["Struct", [["n", ["VarInt"]], ["d", ["BytesInteger", ["this", "n"], False, False]]]],
        ["Union", None, [["a", B], ["b", G.I(2, False, "b")]]],
        ["Union", 0, [["a", B], ["b", G.I(2, False, "b")]]],
        ["Union", "b", [["a", B], ["b", ["VarInt"]]]],
        ["Pointer", 1, B],
        ["Pointer", -1, B],
        ["Struct", [["o", B], ["p", ["Pointer", ["this", "o"], B]]]],
        ["Peek", G.I(2, False, "b")],
        ["Struct", [["p", ["Peek", B]], ["v", ["VarInt"]]]],
        ["OffsettedEnd", -1, ["GreedyBytes"]],
        ["Struct", [["a", B], ["rest", ["OffsettedEnd", -2, ["GreedyRange", B]]], ["t", G.I(2, False, "b")]]],
        ["Struct", [["a", B], ["s", ["Seek", 0, 0]], ["b", B]]],
        ["Bitwise", ["GreedyRange", ["BitsInteger", 4, False, False]]],
        ["Bitwise", ["Struct", [["a", ["BitsInteger", 4, False, False]], ["b", ["Bytewise", ["VarInt"]]], ["c", ["BitsInteger", 4, False, False]]]]],
        ["Lazy", G.I(2, False, "b")],
        ["LazyStruct", [["a", B], ["b", ["VarInt"]], ["c", ["Bytes", 2]]]],
        ["LazyArray", 2, G.I(2, False, "b")],
        ["GreedyRange", G.I(2, False, "b")],
        ["GreedyRange", ["LazyStruct", [["a", B], ["b", G.I(2, False, "b")]]]],
        ["GreedyRange", ["LazyArray", 2, B]],
        ["GreedyRange", ["Lazy", B]],
        ["GreedyRange", ["LazyStruct", [["a", B], ["b", ["VarInt"]]]]],
        ["Struct", [["n", B], ["v", ["Prefixed", B, ["GreedyRange", ["LazyStruct", [["a", B], ["b", B]]]], False]], ["t", B]]],
        ["RepeatUntil", ["objfield", "a", "==", 1], ["LazyStruct", [["a", B], ["b", B]]]],
        ["GreedyRange", ["Struct", [["a", B], ["b", ["CString", "ascii"]]]]],
        ["Struct", [["a", ["RawCopy", G.I(2, False, "b")]], ["b", B]]],
        ["Struct", [["m", B], ["v", ["Aligned", ["this", "m"], B, b"\x00"]], ["t", B]]],
        ["Struct", [["m", G.I(1, True, "b")], ["v", ["Aligned", ["this", "m"], ["VarInt"], b"\x00"]]]],
        ["Struct", [["n", G.I(1, True, "b")], ["v", ["Padded", ["this", "n"], B, b"\x00"]]]],
        ["Struct", [["n", G.I(1, True, "b")], ["v", ["FixedSized", ["this", "n"], ["GreedyBytes"]]]]],
        ["Struct", [["n", G.I(1, True, "b")], ["v", ["PaddedString", ["this", "n"], "utf8"]]]],
        ["Struct", [["n", G.I(1, True, "b")], ["v", ["BytesInteger", ["this", "n"], True, False]]]],
        ["Struct", [["n", G.I(1, True, "b")], ["v", ["Array", ["this", "n"], ["VarInt"]]]]],
        ["Struct", [["a", G.I(1, True, "b")], ["g", G.I(1, True, "b")], ["v", ["ProcessRotateLeft", ["this", "a"], ["this", "g"], ["GreedyBytes"]]]]],
        ["Struct", [["k", B], ["v", ["ProcessXor", ["this", "k"], ["GreedyBytes"]]]]],
        ["Struct", [["n", G.I(1, True, "b")], ["v", ["Bitwise", ["BitsInteger", ["bin", "*", ["this", "n"], ["k", 8]], True, False]]]]],
        ["Struct", [["n", B], ["v", ["Bitwise", ["Struct", [["a", ["BitsInteger", ["path", ["_", "n"]], False, False]], ["r", ["GreedyBytes"]]]]]]]],
        ["Struct", [["o", G.I(1, True, "b")], ["v", ["Pointer", ["this", "o"], G.I(2, False, "b")]]]],
        # positions taken from 8-byte fields: beyond what a stream can address (2**63 and more), and far negative
        ["Struct", [["o", G.I(8, False, "b")], ["v", ["Pointer", ["this", "o"], B]]]],
        ["Struct", [["o", G.I(8, True, "b")], ["v", ["Pointer", ["this", "o"], B]]]],
        ["Struct", [["o", G.I(8, False, "b")], ["s", ["Seek", ["this", "o"], 0]], ["x", B]]],
        ["Struct", [["o", G.I(8, False, "l")], ["s", ["Seek", ["this", "o"], 1]], ["x", B]]],
        ["Struct", [["o", G.I(8, True, "b")], ["s", ["Seek", ["this", "o"], 2]], ["x", B]]],
        ["Struct", [["o", G.I(8, False, "b")], ["e", ["OffsettedEnd", ["un", "-", ["this", "o"]], ["GreedyBytes"]]]]],
        ["Struct", [["o", ["VarInt"]], ["v", ["Pointer", ["this", "o"], B]]]],
        ["Struct", [["o", G.I(1, True, "b")], ["w", B], ["v", ["Seek", ["this", "o"], ["this", "w"]]], ["x", B]]],
        ["Struct", [["k", G.I(1, True, "b")], ["v", ["OffsettedEnd", ["this", "k"], ["GreedyBytes"]]]]],
        ["Struct", [["n", B], ["v", ["RepeatUntil", ["ctxlenge", ["this", "n"]], B]]]],
        ["Struct", [["n", G.I(1, True, "b")], ["v", ["LazyArray", ["this", "n"], B]]]],
        ["Array", 2, ["Struct", [["n", B], ["v", ["Padding", ["bin", "-", ["this", "n"], ["k", 2]]]]]]],
        ["Aligned", 4, ["VarInt"], b"\x00"],
        ["Padded", 4, ["CString", "ascii"], b"\x00"],
    ]


HUGE = [b"\xff" * 8, b"\x80" + bytes(7), b"\x7f" + b"\xff" * 7, b"\xff" * 9 + b"\x7f", b"\xff" * 10 + b"\x01", b"\x80" * 11 + b"\x01" + b"ab",
        b"\xff\xff\xff\xff\x0f" + b"x", b"\x81" + b"\x80" * 9 + b"\x01",
        # a variable-length integer of more than 4300 decimal digits (the interpreter's int->str limit: error messages must not trip over it)
        b"\xff" * 2100 + b"\x01" + b"ab", b"\x80" * 2099 + b"\x7f"]


def units(tier):
    us = []
    for ch in chunks(terms_for(tier), 8 if tier == "quick" else 4):
        us.append({"kind": "input", "terms": [[t, tn, L] for t, tn, L in ch]})
    tt = [(t, tn) for t, tn, L in terms_for(tier) if tn in ("T1", "T2", "T4", "X") or tier == "thorough"]
    for ch in chunks(tt, 12):
        us.append({"kind": "trunc-fault", "terms": [[t, tn] for t, tn in ch]})
    from .. import scale
    for n in scale.sizes(tier):
        us.append({"kind": "scale-trunc", "size": n})
    for n in scale.BIG:
        us.append({"kind": "scale-trunc", "size": n, "big": True})
    return us


# ---------------------------------------------------------------------------- part 1

def run_input(unit, tier, r):
    for t, tn, L in unit["terms"]:
        d = T.mk(t)
        tsig = T.sig_of(t)
        for kw in G.kwargs_for(t):
            for x in sigma(L) + HUGE:
                r.states += 1
                p = rt.parse(d, x, kw, timeout=3)
                r.case(nontrivial=True, outcome=p[0] if p[0] != "cerr" else "ConstructError", validated=0)
                if p[0] == "foreign" and p[1] == "ValueError" and "integer string conversion" in p[2]:
                    # one root cause whatever the construct: an error message interpolates an integer of more than 4300 decimal
                    # digits (int->str limit of Python >= 3.11) - the signature names the cause, not the term
                    r.violation("C06/foreign-exception-ValueError-int-str-digit-limit", {"part": 1, "term": t, "data": x, "kw": kw},
                                "%s.parse(<%d bytes: %s...>) raised ValueError: %s while formatting its own error message" % (T.show(t), len(x), x[:6].hex(), p[2]))
                elif p[0] == "foreign":
                    r.violation("C06/foreign-exception-%s/%s" % (p[1], tsig), {"part": 1, "term": t, "data": x, "kw": kw},
                                "%s.parse(%s) raised %s: %s (only ConstructError may escape)" % (T.show(t), x.hex(), p[1], p[2]))
                elif p[0] == "hang":
                    r.violation("C06/non-termination/" + tsig, {"part": 1, "term": t, "data": x, "kw": kw}, "%s.parse(%s) did not terminate" % (T.show(t), x.hex()))
        r.sample({"term": T.show(t), "tier": tn, "strings": len(sigma(L)) + len(HUGE)}, cap=2)


def replay_input(case):
    t = case["term"]
    p = rt.parse(T.mk(t), case["data"], case.get("kw") or {})
    if p[0] == "foreign" and p[1] == "ValueError" and "integer string conversion" in p[2]:
        return [{"sig": "C06/foreign-exception-ValueError-int-str-digit-limit", "detail": repr(p)}]
    if p[0] == "foreign":
        return [{"sig": "C06/foreign-exception-%s/%s" % (p[1], T.sig_of(t)), "detail": repr(p)}]
    if p[0] == "hang":
        return [{"sig": "C06/non-termination/" + T.sig_of(t), "detail": "hang"}]
    return []


# ---------------------------------------------------------------------------- parts 2 and 3

def encodings(t, d, kw, limit=3):
    """(value, canonical bytes) pairs"""
    out = []
    a = G.attrs(t)
    if a.ctxfree and not kw:
        try:
            vals = [v for v, _ in G.values(t)]
        except Exception:
            vals = []
        for v in vals:
            b = rt.build(d, v, kw)
            if b[0] == "ok":
                out.append((v, b[1]))
    if not out:
        for x in sigma(4):
            try:
                v, end = R.parse(t, x, **kw)
                if end != len(x):
                    continue
                v = T.denorm(v)
                b = rt.build(d, v, kw)
                if b[0] == "ok":
                    out.append((v, b[1]))
            except Exception:
                pass
            if len(out) >= 12:
                break
    # prefer distinct, longer encodings
    seen, res = set(), []
    for v, b in sorted(out, key=lambda vb: -len(vb[1])):
        if b not in seen:
            seen.add(b)
            res.append((v, b))
    return res[:limit]


def prefix_free(t, v, b, kw):
    """the encoding is canonical and self-consistent under the reference (a child encoding that contains its region's
    terminator, e.g. NullTerminated(include=True) or a utf-16 string under a one-byte terminator, has valid strict prefixes)"""
    try:
        v2, end = R.parse(t, b, **kw)
        return end == len(b) and R.build(t, T.denorm(v2), **kw) == b
    except Exception:
        return False


def judge_trunc(t, d, b, kw, tsig):
    out = []
    for cut in range(len(b)):
        p = rt.parse(d, b[:cut], kw)
        if p[0] == "cerr" and p[1] == "StreamError":
            continue
        out.append({"sig": "C06/truncation-%s/%s" % ("accepted" if p[0] == "ok" else p[1] if len(p) > 1 else p[0], tsig),
                    "case": {"part": 2, "term": t, "data": b, "cut": cut, "kw": kw},
                    "detail": "%s: canonical encoding %s truncated to %d bytes -> %r (expected StreamError)" % (T.show(t), b.hex(), cut, p[:2] if p[0] != "ok" else ("returned", p[1]))})
    return out


def run_parse_faulted(d, data, kw, script):
    import construct as C
    s = ScriptedStream(data, script)
    try:
        with watchdog(3):
            v = d.parse_stream(s, **kw)
            v = T.norm(v)
        return ("ok", v), s
    except Hang:
        return ("hang",), s
    except C.ConstructError as e:
        return ("cerr", type(e).__name__), s
    except Exception as e:
        return ("foreign", type(e).__name__, str(e)[:80]), s


def run_build_faulted(d, v, kw, script):
    import construct as C
    s = ScriptedStream(b"", script)
    try:
        with watchdog(3):
            d.build_stream(v, s, **kw)
        return ("ok", s.getvalue()), s
    except Hang:
        return ("hang",), s
    except C.ConstructError as e:
        return ("cerr", type(e).__name__), s
    except Exception as e:
        return ("foreign", type(e).__name__, str(e)[:80]), s


def scripts(trace, depth):
    """all scripts with <= depth deviations over the operations of a fault-free run"""
    out = []
    single = []
    for k, (op, arg) in enumerate(trace):
        for dev in applicable(op, arg):
            single.append((k, dev))
            out.append({k: dev})
    if depth >= 2 and len(trace) <= 14:
        for (k1, d1), (k2, d2) in itertools.combinations(single, 2):
            if k1 != k2:
                out.append({k1: d1, k2: d2})
    return out


def judge_fault(op, t, is_rigid, res, s, script, tsig, case):
    applied = [a for a in s.applied]
    if not applied:
        return "not-reached", []
    kinds = sorted(set("%s-%s" % (o, dv) for _, o, dv in applied))
    if res[0] == "foreign":
        return "foreign", [{"sig": "C06/%s-fault-foreign-%s/%s" % (op, res[1], tsig), "case": case,
                            "detail": "%s.%s_stream with stream deviation %s (trace %s) raised %s: %s" % (T.show(t), op, applied, s.trace[:12], res[1], res[2])}]
    if res[0] == "hang":
        return "hang", [{"sig": "C06/%s-fault-hang/%s" % (op, tsig), "case": case, "detail": "did not terminate under %s" % (applied,)}]
    raising = all(dv in ("raise", "raise2") for _, _, dv in applied)
    if op == "parse" and not is_rigid and res[0] == "ok" and raising and (not swallows(t) or not any(absorbed(st) for st in s.stacks)):
        return "silent", [{"sig": "C06/parse-raising-stream-silently-accepted/%s/%s" % ("+".join(kinds), tsig), "case": case,
                           "detail": "%s.parse_stream: the stream operation(s) %s raised (trace %s; issued by %s), yet parse returned %r; nothing "
                                     "that encloses the issuing construct absorbs errors" % (T.show(t), applied, s.trace[:12], [st[:1] for st in s.stacks], res[1])}]
    if is_rigid or op == "build":
        if res[0] == "ok":
            return "silent", [{"sig": "C06/%s-fault-silently-accepted/%s/%s" % (op, "+".join(kinds), tsig), "case": case,
                               "detail": "%s.%s_stream with stream deviation %s (trace %s) returned normally: %r" % (T.show(t), op, applied, s.trace[:12], res[1])}]
        if res[1] != "StreamError":
            return "other-cerr", [{"sig": "C06/%s-fault-%s/%s" % (op, res[1], tsig), "case": case,
                                   "detail": "%s.%s_stream with stream deviation %s raised %s (expected StreamError)" % (T.show(t), op, applied, res[1])}]
    return "reported", []


def run_trunc_fault(unit, tier, r):
    depth = INFO["bounds"][tier]["fault_deviations"]
    for t, tn in unit["terms"]:
        d = T.mk(t)
        tsig = T.sig_of(t)
        is_rigid = rigid(t)
        for kw in G.kwargs_for(t)[:1]:
            encs = encodings(t, d, kw, limit=3 if is_rigid else 2)
            for v, b in encs:
                # ---- part 2: truncation
                if is_rigid and prefix_free(t, v, b, kw):
                    r.states += len(b)
                    vs = judge_trunc(t, d, b, kw, tsig)
                    r.case(nontrivial=len(b) > 0, outcome="truncations-ok" if not vs else "truncation-bad", transitions=len(b), validated=0)
                    for x in vs:
                        r.violation(x["sig"], x["case"], x["detail"])
                # ---- part 3: stream faults, parse
                res0, s0 = run_parse_faulted(d, b, kw, {})
                for script in scripts(s0.trace, depth):
                    r.states += 1
                    res, s = run_parse_faulted(d, b, kw, script)
                    case = {"part": 3, "op": "parse", "term": t, "data": b, "kw": kw, "script": {str(k): x for k, x in script.items()}}
                    oc, vs = judge_fault("parse", t, is_rigid, res, s, script, tsig, case)
                    r.case(nontrivial=oc != "not-reached", outcome="parse-fault-" + oc, validated=0)
                    for x in vs:
                        r.violation(x["sig"], x["case"], x["detail"])
                # ---- part 3: stream faults, build
                res0, s0 = run_build_faulted(d, v, kw, {})
                if res0[0] != "ok":
                    continue
                for script in scripts(s0.trace, depth):
                    r.states += 1
                    res, s = run_build_faulted(d, v, kw, script)
                    case = {"part": 3, "op": "build", "term": t, "value": enc_value(v), "kw": kw, "script": {str(k): x for k, x in script.items()}}
                    oc, vs = judge_fault("build", t, is_rigid, res, s, script, tsig, case)
                    r.case(nontrivial=oc != "not-reached", outcome="build-fault-" + oc, validated=0)
                    for x in vs:
                        r.violation(x["sig"], x["case"], x["detail"])
        r.sample({"term": T.show(t), "tier": tn, "rigid": is_rigid}, cap=2)


def scale_rigid_terms(n):
    """constructs whose fixed part is n bytes long (size axis): every strict prefix of the encoding must be rejected"""
    B, I16 = G.BYTE, G.I(2, False, "b")
    S = lambda *ms: ["Struct", [list(m) for m in ms]]
    return [
        ["Padding", n], S(("h", B), ("p", ["Padding", n])), S(("h", B), ("p", ["Padding", n]), ("t", B)), ["Padded", n, I16, b"\x00"], S(("a", ["Padded", n, B, b"\x00"]), ("pos", ["Tell"])),
        ["Aligned", n, B, b"\x00"], S(("a", ["Aligned", n, I16, b"\xff"]), (None, ["Terminated"])), ["Bytes", n], ["Array", n, B], ["Discard", ["Array", n, B]],
        ["FixedSized", n, ["GreedyBytes"]], ["FixedSized", n, B], S(("f", ["FixedSized", n, I16]), ("pos", ["Tell"])), ["PaddedString", n, "ascii"],
        S(("n", G.I(4, False, "b")), ("d", ["Bytes", ["this", "n"]])), S(("n", G.I(4, False, "b")), ("p", ["Padding", ["this", "n"]])),
        ["Prefixed", G.I(4, False, "l"), ["GreedyBytes"], False], ["Array", 2, ["Padded", n // 2 + 1, B, b"\x00"]], ["BytesInteger", n, False, False],
        ["Bitwise", ["Struct", [["a", ["BitsInteger", 8, False, False]], [None, ["Padding", 8 * (n - 1)]]]]], ["ByteSwapped", ["Bytes", n]],
        ["LazyStruct", [["a", B], ["b", ["Bytes", n - 1]]]], ["LazyArray", n, B], S(("z", ["Lazy", ["Bytes", n]]), ("pos", ["Tell"])),
    ]


def run_scale_trunc(n, r, big=False):
    terms = scale_rigid_terms(n)
    if big:
        # beyond 2**20 bytes: only the constructs whose fixed part costs nothing to process (pads, raw bytes, regions)
        B = G.BYTE
        S = lambda *ms: ["Struct", [list(m) for m in ms]]
        terms = [["Padding", n], S(("h", ["Bytes", 16]), ("p", ["Padding", n])), S(("h", B), ("p", ["Padding", n]), ("t", B)), ["Padded", n, G.I(2, False, "b"), b"\x00"],
                 S(("m", ["ConstB", b"\x00\x00\x00\x00"]), ("a", ["Padded", n, B, b"\x00"]), ("pos", ["Tell"])), ["Aligned", n, B, b"\x00"], ["Bytes", n], ["FixedSized", n, ["GreedyBytes"]],
                 S(("h", B), ("f", ["FixedSized", n, B])), S(("n", G.I(4, False, "b")), ("p", ["Padding", ["this", "n"]]))]
    for t in terms:
        d = T.mk(t)
        tsig = "scale:" + T.sig_of(t)
        if t[0] == "Struct" and t[1][0][0] == "n":
            enc = n.to_bytes(4, "big") + bytes(n)
        elif t[0] == "Prefixed":
            enc = n.to_bytes(4, "little") + bytes(n)
        else:
            try:
                try:
                    v, end = R.parse(t, bytes(4 * n + 16))
                except R.Reject as e:
                    if e.kind != "TerminatedError":
                        raise
                    # ends with Terminated: the encoding is exactly the sized part
                    v, end = R.parse(["Struct", t[1][:-1]], bytes(4 * n + 16))
                enc = bytes(end)
            except Exception:
                r.extra["scale-term-without-encoding"] += 1
                continue
        full = rt.parse(d, enc, {}, timeout=60)
        r.states += 1
        if full[0] != "ok":
            r.violation("C06/scale/canonical-encoding-rejected/" + tsig, {"part": "scale", "term": t, "size": n}, "%s: its %d-byte encoding is rejected: %r" % (T.show(t), len(enc), full[:2]))
            continue
        cuts = sorted(c for c in {0, 1, len(enc) // 2, len(enc) - 2, len(enc) - 1, len(enc) - 8192, len(enc) - 8193, 5, 16, 17, len(enc) - 4097, len(enc) - 16, len(enc) - 17} if 0 <= c < len(enc))
        for cut in cuts:
            r.states += 1
            p = rt.parse(d, enc[:cut], {}, timeout=60)
            r.case(nontrivial=True, outcome=p[0] if p[0] != "cerr" else p[1], validated=1)
            if not (p[0] == "cerr" and p[1] == "StreamError"):
                r.violation("C06/truncation-%s/%s" % ("accepted" if p[0] == "ok" else p[1] if len(p) > 1 else p[0], tsig), {"part": "scale", "term": t, "size": n, "cut": cut},
                            "%s: the %d-byte encoding truncated to %d bytes -> %s (expected StreamError)" % (T.show(t), len(enc), cut, "a value was returned" if p[0] == "ok" else repr(p[:2])))
    r.sample({"scale_size": n, "terms": len(scale_rigid_terms(n))})


def run_unit(unit, tier):
    r = UnitResult()
    if unit["kind"] == "scale-trunc":
        run_scale_trunc(unit["size"], r, unit.get("big", False))
        return r
    if unit["kind"] == "input":
        run_input(unit, tier, r)
    else:
        run_trunc_fault(unit, tier, r)
    return r


def replay(case):
    if case.get("part") == "scale":
        r = UnitResult(); run_scale_trunc(case["size"], r, case["size"] > 1000000)
        return [v for v in r.violations if v["case"].get("term") == case["term"] and v["case"].get("cut") == case.get("cut")]
    t = case["term"]
    d = T.mk(t)
    kw = case.get("kw") or {}
    tsig = T.sig_of(t)
    if case["part"] == 1:
        return replay_input(case)
    if case["part"] == 2:
        return [v for v in judge_trunc(t, d, case["data"], kw, tsig) if v["case"]["cut"] == case["cut"]]
    script = {int(k): x for k, x in case["script"].items()}
    if case["op"] == "parse":
        res, s = run_parse_faulted(d, case["data"], kw, script)
        res2, s2 = run_parse_faulted(d, case["data"], kw, script)
        if res != res2:
            raise RuntimeError("machinery error: replay of the same script diverged: %r vs %r" % (res, res2))
    else:
        res, s = run_build_faulted(d, dec_value(case["value"]), kw, script)
    return judge_fault(case["op"], t, rigid(t), res, s, script, tsig, case)[1]
