"""C08 - delimited regions confine their inner construct; offsets stay absolute."""
import io, itertools
from ..engine import UnitResult, jkey
from .. import ref as R, terms as T, gen as G, rt

INFO = {
    "rule": "every nesting (depth <=2 quick, <=3 thorough) of region delimiters - Prefixed(Byte), Prefixed(Int16ul, includelength), "
            "FixedSized(0|2|4), NullTerminated x (include, consume, require, 1- and 2-byte terminator), NullStripped(1- and 2-byte pad), "
            "OffsettedEnd(0|-1), ProcessXor(0|0x20) - around every inner observer (Tell/GreedyBytes/Tell, Tell/Byte/Tell, "
            "Tell/Bytes(2)/Tell, Tell/Tell, RawCopy(GreedyBytes), RawCopy(Byte), Pointer(-1), Pointer(absolute)), followed by a sentinel "
            "Tell, parsed with parse_stream at every start offset in {0,1,3} over every payload string of the alphabet up to length L "
            "(region lengths 0..4 and overlong arise from the payload bytes). Oracle: reference interpreter with absolute offsets - the "
            "inner greedy value, every Tell, RawCopy.offset1/2/data, the sentinel and the outer stream position must agree, or both "
            "reject. non-trivial = both accept; distinct = (term, start, payload)",
    "bounds": {"quick": {"depth": 2, "L1": 4, "L2": 4, "L3": 0}, "thorough": {"depth": 3, "L1": 6, "L2": 5, "L3": 4}},
    "trusted_base": ["mc/ref.py region/offset semantics (RS: data + absolute base offset)"],
    "assumptions": ["bit-level regions are excluded (docs: no telling inside Transformed/Restreamed)"],
}

BYTE = G.BYTE
A6 = [0x00, 0x01, 0x02, 0x03, 0x04, 0xff]
A5 = [0x00, 0x01, 0x02, 0x03, 0xff]


def strings(alpha, L):
    out = []
    for n in range(L + 1):
        for t in itertools.product(alpha, repeat=n):
            out.append(bytes(t))
    return out


def delimiters(small=False):
    D = [
        ("P8", lambda x: ["Prefixed", BYTE, x, False]),
        ("P16i", lambda x: ["Prefixed", G.I(2, False, "l"), x, True]),
        ("F0", lambda x: ["FixedSized", 0, x]),
        ("F2", lambda x: ["FixedSized", 2, x]),
        ("F4", lambda x: ["FixedSized", 4, x]),
        ("NT", lambda x: ["NullTerminated", x, b"\x00", False, True, True]),
        ("NTi", lambda x: ["NullTerminated", x, b"\x00", True, True, True]),
        ("NTnc", lambda x: ["NullTerminated", x, b"\x00", False, False, True]),
        ("NTinc", lambda x: ["NullTerminated", x, b"\x00", True, False, True]),
        ("NTnr", lambda x: ["NullTerminated", x, b"\x00", False, True, False]),
        ("NT2", lambda x: ["NullTerminated", x, b"\x00\x00", False, True, True]),
        ("NT2inc", lambda x: ["NullTerminated", x, b"\x01\x00", True, False, False]),
        ("NS", lambda x: ["NullStripped", x, b"\x00"]),
        ("NS2", lambda x: ["NullStripped", x, b"\x00\x00"]),
        ("OE0", lambda x: ["OffsettedEnd", 0, x]),
        ("OE1", lambda x: ["OffsettedEnd", -1, x]),
        ("PX0", lambda x: ["ProcessXor", 0, x]),
        ("PX20", lambda x: ["ProcessXor", 0x20, x]),
    ]
    if small:
        keep = {"P8", "P16i", "F2", "NT", "NTinc", "NT2", "NS", "OE1", "PX20", "F4"}
        D = [d for d in D if d[0] in keep]
    return D


def observers():
    S = lambda *ms: ["Struct", [list(m) for m in ms]]
    return [
        ("tGt", S(("t0", ["Tell"]), ("g", ["GreedyBytes"]), ("t1", ["Tell"]))),
        ("tBt", S(("t0", ["Tell"]), ("b", BYTE), ("t1", ["Tell"]))),
        ("tB2t", S(("t0", ["Tell"]), ("b", ["Bytes", 2]), ("t1", ["Tell"]))),
        ("tt", S(("t0", ["Tell"]), ("t1", ["Tell"]))),
        ("rcG", ["RawCopy", ["GreedyBytes"]]),
        ("rcB", S(("x", ["RawCopy", BYTE]), ("t", ["Tell"]))),
        ("pEnd", S(("p", ["Pointer", -1, BYTE]), ("t", ["Tell"]))),
        ("pAbs", S(("p", ["Pointer", 4, BYTE]), ("t", ["Tell"]), ("g", ["GreedyBytes"]))),
        # the optional stream= parameter: a target in the OUTERMOST stream, read from inside the region (region bytes follow it)
        ("pRoot", S(("b", BYTE), ("p", ["Pointer", 1, BYTE, "root"]), ("t", ["Tell"]), ("g", ["GreedyBytes"]))),
        ("pRootEnd", S(("p", ["Pointer", -1, BYTE, "root"]), ("t", ["Tell"]), ("b", BYTE))),
        # relative and end-relative repositioning inside the region
        ("skF", S(("b", BYTE), ("s", ["Seek", 1, 1]), ("t", ["Tell"]), ("g", ["GreedyBytes"]))),
        ("skB", S(("b", ["Bytes", 2]), ("s", ["Seek", -1, 1]), ("t", ["Tell"]), ("g", ["GreedyBytes"]))),
        ("skE", S(("s", ["Seek", -1, 2]), ("t", ["Tell"]), ("g", ["GreedyBytes"]))),
        ("skA", S(("b", BYTE), ("s", ["Seek", 4, 0]), ("t", ["Tell"]), ("g", ["GreedyBytes"]))),
    ]


def mk_term(dnames, obs):
    D = dict(delimiters())
    x = dict(observers())[obs]
    for i, n in enumerate(reversed(dnames)):
        x = D[n](x)
        if i < len(dnames) - 1:
            # what follows a nested region inside its parent region: the position it left behind and the rest of the parent
            x = ["Struct", [["in", x], ["at", ["Tell"]], ["rest", ["GreedyBytes"]]]]
    return ["Struct", [["r", x], ["end", ["Tell"]]]]


def units(tier):
    b = INFO["bounds"][tier]
    us = []
    names = [d[0] for d in delimiters()]
    small = [d[0] for d in delimiters(True)]
    for o, _ in observers():
        for d1 in names:
            us.append({"chain": [d1], "obs": o, "L": b["L1"], "alpha": 6, "starts": [0, 1, 3]})
    if b["depth"] >= 2:
        for d1 in names:
            for o, _ in observers():
                us.append({"chains": [[d1, d2] for d2 in names], "obs": o, "L": b["L2"], "alpha": 5, "starts": [0, 3] if tier == "quick" else [0, 1, 3]})
    from .. import scale
    for n in scale.sizes(tier):
        us.append({"kind": "scale", "sizes": [n]})
    if b["depth"] >= 3:
        for d1 in small:
            for d2 in small:
                us.append({"chains": [[d1, d2, d3] for d3 in small], "obsall": True, "L": b["L3"], "alpha": 5, "starts": [0, 3]})
    return us


def check(t, d, data, start, tsig):
    case = {"term": t, "data": data, "start": start}
    try:
        v, end = R.parse(t, b"\xee" * start + data, start=start)
        want = ("ok", v, end)
    except R.RefHang:
        return None, []
    except (R.Reject, R.Stop) as e:
        want = ("rej", getattr(e, "kind", "Stop"))
    except Exception as e:
        want = ("rej", "foreign:" + type(e).__name__)
    s = io.BytesIO(b"\xee" * start + data)
    s.seek(start)
    import construct as C
    try:
        got = ("ok", T.norm(d.parse_stream(s)), s.tell())
    except C.ConstructError as e:
        got = ("rej", type(e).__name__)
    except Exception as e:
        got = ("rej", "foreign:" + type(e).__name__)
    if want[0] == "ok" and got[0] == "ok":
        if not T.eqv(want[1], got[1]):
            return want, [{"sig": "C08/value-or-offset-differs/" + tsig, "case": case,
                           "detail": "%s at start %d on %s: parsed %r, reference %r" % (T.show(t), start, data.hex(), got[1], want[1])}]
        if want[2] != got[2]:
            return want, [{"sig": "C08/final-position-differs/" + tsig, "case": case,
                           "detail": "%s at start %d on %s: stream ends at %d, reference %d" % (T.show(t), start, data.hex(), got[2], want[2])}]
        return want, []
    if want[0] != got[0]:
        return want, [{"sig": "C08/%s/%s" % ("rejects-valid" if want[0] == "ok" else "accepts-invalid", tsig), "case": case,
                       "detail": "%s at start %d on %s: library %r, reference %r" % (T.show(t), start, data.hex(), got[:2], want[:2])}]
    return want, []


_STR = {}


def scale_terms(n):
    """regions holding n payload bytes (the size axis of mc/scale.py): -> [(name, term, data)]; observers report the inner greedy
    value and absolute positions before, after and behind the region"""
    from .. import scale
    S = lambda *ms: ["Struct", [list(m) for m in ms]]
    obs = S(("t0", ["Tell"]), ("g", ["GreedyBytes"]), ("t1", ["Tell"]))
    tail = b"\x07tail"
    after = lambda x: S(("r", x), ("at", ["Tell"]), ("b", BYTE), ("rest", ["GreedyBytes"]))
    nz = scale.payload(n, "nozero")
    varint = R.leb128(n)
    even = nz[:n - n % 2]
    mult3 = bytes(b if b != 0x45 else 0x46 for b in nz[:n - n % 3])      # no 'E': the 3-byte terminator cannot occur
    out = [
        ("NT", after(["NullTerminated", obs, b"\x00", False, True, True]), nz + b"\x00" + tail),
        ("NTi", after(["NullTerminated", obs, b"\x00", True, True, True]), nz + b"\x00" + tail),
        ("NTnc", after(["NullTerminated", obs, b"\x00", False, False, True]), nz + b"\x00" + tail),
        ("NTnr-eof", S(("r", ["NullTerminated", obs, b"\x00", False, True, False]), ("at", ["Tell"])), nz),
        ("NT2", after(["NullTerminated", obs, b"\x00\x00", False, True, True]), even + b"\x00\x00" + tail),
        ("NT3", after(["NullTerminated", obs, b"END", False, True, True]), mult3 + b"END" + tail),
        ("CString", after(["CString", "ascii"]), scale.payload(n, "text") + b"\x00" + tail),
        ("CString16", after(["CString", "utf_16_le"]), b"".join(bytes([c, 0]) for c in scale.payload(n // 2, "text")) + b"\x00\x00" + tail),
        ("PV", after(["Prefixed", ["VarInt"], obs, False]), varint + nz + tail),
        ("P32>NT", after(["Prefixed", G.I(4, False, "l"), S(("in", ["NullTerminated", obs, b"\x00", False, True, True]), ("at", ["Tell"]), ("rest", ["GreedyBytes"])), False]),
         (n + 4).to_bytes(4, "little") + nz + b"\x00abc" + tail),
        ("NT>PV", after(["NullTerminated", S(("in", ["Prefixed", ["VarInt"], obs, False]), ("at", ["Tell"]), ("rest", ["GreedyBytes"])), b"\x00", False, True, True]),
         bytes(b | 0x80 if i < len(varint) - 1 else b for i, b in enumerate(varint)) + nz + b"xy\x00" + tail if 0 not in varint else None),
        ("F>NS", after(["FixedSized", n + 16, ["NullStripped", obs, b"\x00"]]), nz + bytes(16) + tail),
        ("OE", S(("r", ["OffsettedEnd", -5, obs]), ("at", ["Tell"]), ("rest", ["GreedyBytes"])), nz + tail),
        ("PX", after(["FixedSized", n, ["ProcessXor", 0x20, obs]]), nz + tail),
        ("PascalString", after(["PascalString", ["VarInt"], "ascii"]), varint + scale.payload(n, "text") + tail),
        ("RawCopy", after(["FixedSized", n, ["RawCopy", ["GreedyBytes"]]]), nz + tail),
    ]
    return [(a, b, c) for a, b, c in out if c is not None]


def run_scale(unit, tier, r):
    from .. import scale
    for n in unit["sizes"]:
        for name, t, data in scale_terms(n):
            d = T.mk(t)
            tsig = "scale:%s" % name
            for start in (0, 3):
                r.states += 1
                want, vs = check(t, d, data, start, tsig)
                if want is None:
                    continue
                r.case(nontrivial=want[0] == "ok" and not vs, outcome=want[0], transitions=1, validated=1)
                for v in vs:
                    v["case"]["scale"] = [name, n]
                    v["case"]["data"] = {"$payload-size": n}
                    r.violation(v["sig"], v["case"], v["detail"][:600])
                # cut one byte short: both must reject
                r.states += 1
                want, vs = check(t, d, data[:n // 2], start, tsig)
                for v in vs:
                    v["case"]["scale"] = [name, n, "half"]
                    v["case"]["data"] = {"$payload-size": n}
                    r.violation(v["sig"], v["case"], v["detail"][:600])
    r.sample({"scale_sizes": unit["sizes"], "regions": [x[0] for x in scale_terms(64)]})


def run_unit(unit, tier):
    r = UnitResult()
    if unit.get("kind") == "scale":
        run_scale(unit, tier, r)
        return r
    chains = unit.get("chains") or [unit["chain"]]
    obs_list = [o for o, _ in observers()] if unit.get("obsall") else [unit["obs"]]
    key = (unit["alpha"], unit["L"])
    if key not in _STR:
        _STR[key] = strings(A6 if unit["alpha"] == 6 else A5, unit["L"])
    datas = _STR[key]
    for chain in chains:
        for o in obs_list:
            t = mk_term(chain, o)
            d = T.mk(t)
            tsig = "%s(%s)" % (">".join(chain), o)
            for start in unit["starts"]:
                for data in datas:
                    r.states += 1
                    want, vs = check(t, d, data, start, tsig)
                    if want is None:
                        continue
                    r.case(nontrivial=want[0] == "ok" and not vs, outcome=want[0], transitions=1, validated=1)
                    for v in vs:
                        r.violation(v["sig"], v["case"], v["detail"])
            r.sample({"term": T.show(t), "starts": unit["starts"], "payloads": len(datas)}, cap=2)
    return r


def replay(case):
    if "scale" in case:
        r = UnitResult()
        run_scale({"sizes": [case["scale"][1]]}, "quick", r)
        return [v for v in r.violations if v["case"].get("scale") == case["scale"]]
    t = case["term"]
    return check(t, T.mk(t), case["data"], case["start"], T.sig_of(t, 4))[1]
