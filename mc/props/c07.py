"""C07 - context expressions resolve identically when parsing, building and sizing."""
import io, itertools
from ..engine import UnitResult, jkey, watchdog, Hang
from .. import ref as R, terms as T, gen as G, rt
from .c03 import enc_value, dec_value

BYTE = G.BYTE

INFO = {
    "rule": "every scope chain (length <=2 quick + a reduced alphabet at length 3; <=3 full thorough) over scope-pushing composites {Struct, "
            "Sequence, FocusedSeq, Union, LazyStruct}, repeaters {Array, GreedyRange, RepeatUntil, Array/GreedyRange with discard=True} and transparent wrappers {Prefixed, "
            "FixedSized, Padded, IfThenElse, Switch, Renamed}, with at the innermost position every reference path available there "
            "(earlier sibling, one '_' per enclosing scope to that scope's sibling, _root.x, _params.k, _index and _._index, the three "
            "mode flags) in every role (value: Computed; length: Bytes(p&1); count: Array(p&1, Byte); branch: If(p, Byte); selector: Union(p&1, ..) and FocusedSeq(computed name, ..) with the extra '_' their own scope needs, "
            "also with own members shadowing an outer name), run through "
            "parse (5 inputs x 2 keyword contexts), build (the parsed values) and sizeof. Oracle: the reference scope model of mc/ref.py "
            "(a stack of frames: S pushes, '_' pops one, _root is the outermost pushed frame, _params the keyword frame at every depth, "
            "_index the innermost repeater's index as seen from the frame, exactly one flag true); bytes built for a value must parse "
            "back to it. non-trivial = library and reference both accept and value/bytes were compared; distinct = (shape, op, input, kw)",
    "bounds": {"quick": {"depth": 2, "depth3_alphabet": ["Struct", "SequenceD", "StructF", "StructK", "Array", "Prefixed", "LazyStruct"]},
               "thorough": {"depth": 3, "depth3_alphabet": None}},
    "trusted_base": ["mc/ref.py context model (push/top_ctx, 25 lines) and expression evaluator"],
    "assumptions": ["LazyStruct members refer only to _, _root, _params (documented restriction: no sibling cross references)",
                    "forward references only in dict-built composites; sizeof claims cover kwargs/_/_root/_params/flags, not siblings or _index",
                    "Select/Tunnel re-root the context by design and are not in the property's list"],
}

# StructD / SequenceD: the sibling is a derived member (Rebuild of a keyword argument), so what the context holds after building
# it is the value build computed, not the one supplied
# StructF: the sibling is derived from a LATER member whose name starts with an underscore (forward reference at build time: the
# supplied value must already be visible; private-looking names are ordinary member names)
# StructK: the sibling's name is a Python keyword with the conventional trailing underscore (class_, in_, from_ ...: the only way to
# spell such a member as a keyword argument or attribute)
S_KINDS = ["Struct", "Sequence", "FocusedSeq", "Union", "LazyStruct", "StructD", "SequenceD", "StructF", "StructK"]
KEYWORD_NAMES = ["class_", "in_", "from_", "pass_", "lambda_", "if_", "is_", "not_"]


def sib_name(kind, level):
    return KEYWORD_NAMES[level % len(KEYWORD_NAMES)] if kind == "StructK" else "x%d" % level
DERIVED = ["Rebuild", BYTE, ["bin", "+", ["path", ["_params", "k"]], ["k", 1]]]
R_KINDS = ["Array", "GreedyRange", "RepeatUntil", "ArrayD", "GreedyRangeD"]      # ..D: built with discard=True
W_KINDS = ["Prefixed", "FixedSized", "Padded", "IfThenElse", "Switch", "Renamed"]
ALL_KINDS = S_KINDS + R_KINDS + W_KINDS


def wrap(kind, inner, level):
    x = sib_name(kind, level)
    if kind in ("Struct", "StructK"):
        return ["Struct", [[x, BYTE], ["in", inner]]]
    if kind == "Sequence":
        return ["Sequence", [[x, BYTE], ["in", inner]]]
    if kind == "StructD":
        return ["Struct", [[x, DERIVED], ["in", inner]]]
    if kind == "StructF":
        w = "_w%d" % level
        return ["Struct", [[x, ["Rebuild", BYTE, ["fn", "len_", ["this", w]]]], [w, ["Bytes", 1]], ["in", inner]]]
    if kind == "SequenceD":
        return ["Sequence", [[x, DERIVED], ["in", inner]]]
    if kind == "FocusedSeq":
        return ["FocusedSeq", "in", [[x, ["ConstV", 2, BYTE]], ["in", inner]]]
    if kind == "Union":
        return ["Union", "in", [[x, BYTE], ["in", inner]]]
    if kind == "LazyStruct":
        return ["LazyStruct", [[x, BYTE], ["in", inner]]]
    if kind == "Array":
        return ["Array", 2, inner]
    if kind == "GreedyRange":
        return ["GreedyRange", inner]
    if kind == "ArrayD":
        return ["Discard", ["Array", 2, inner]]
    if kind == "GreedyRangeD":
        return ["Discard", ["GreedyRange", inner]]
    if kind == "RepeatUntil":
        return ["RepeatUntil", ["lenge", 2], inner]
    if kind == "Prefixed":
        return ["Prefixed", BYTE, inner, False]
    if kind == "FixedSized":
        return ["FixedSized", 6, inner]
    if kind == "Padded":
        return ["Padded", 6, inner, b"\x00"]
    if kind == "IfThenElse":
        return ["IfThenElse", True, inner, ["Pass"]]
    if kind == "Switch":
        return ["Switch", 1, [[1, inner], [2, BYTE]], None]
    if kind == "Renamed":
        return ["Renamed", inner, "rn"]
    raise ValueError(kind)


def strip_private(v):
    """norm() of a parsed value leaves out members whose name starts with an underscore (they are not shown / compared by
    Container either); the reference keeps them, so they are dropped on that side before comparing"""
    if isinstance(v, dict):
        return {k: strip_private(x) for k, x in v.items() if not (isinstance(k, str) and k.startswith("_"))}
    if isinstance(v, list):
        return [strip_private(x) for x in v]
    return v


def undiscard(t):
    if isinstance(t, list):
        if t and t[0] == "Discard":
            return undiscard(t[1])
        return [undiscard(x) for x in t]
    return t


def probes(chain):
    """reference paths available at the innermost struct, with the kind of value they yield"""
    # same scope; and downward into an earlier nested sibling (what a later member sees is that struct's parse / build result),
    # also through a member whose name starts with an underscore
    out = [(["y"], "int"), (["hdr", "p"], "int"), (["hdr", "_n"], "int")]
    # scopes enclosing the probe struct, innermost first
    scopes = [(k, lvl) for lvl, k in reversed(list(enumerate(chain))) if k in S_KINDS]
    ups = []
    for j, (k, lvl) in enumerate(scopes, start=1):
        ups.append((j, k, lvl))
        if k != "LazyStruct":
            out.append((["_"] * j + [sib_name(k, lvl)], "int"))
    if scopes:
        k, lvl = scopes[-1]
        if k != "LazyStruct":
            out.append((["_root", sib_name(k, lvl)], "int"))
        else:
            out.append((["_root", "_params", "k"], "int"))
    else:
        out.append((["_root", "y"], "int"))
    out.append((["_params", "k"], "int"))
    for j in range(1, len(scopes) + 1):
        out.append((["_"] * j + ["_params", "k"], "int"))
    in_rep = any(k in R_KINDS for k in chain)
    out.append((["_index"], "index" if in_rep else "none"))
    for j in range(1, len(scopes) + 1):
        # seen from an outer frame: the index of a repeater enclosing that frame
        outer_rep = any(k in R_KINDS for k in chain[:scopes[j - 1][1]])
        out.append((["_"] * j + ["_index"], "index" if outer_rep else "none"))
    for f in ("_parsing", "_building", "_sizing"):
        out.append(([f], "flag"))
        if scopes:
            out.append((["_"] * len(scopes) + [f], "flag"))
    return out


def probe_struct(path, kind, role):
    P = ["path", path]
    if role == "value":
        m = ["Computed", P]
    elif role == "length":
        m = ["Bytes", ["bin", "&", P, ["k", 1]]]
    elif role == "count":
        m = ["Array", ["bin", "&", P, ["k", 1]], BYTE]
    elif role == "branch":
        m = ["If", P, BYTE]
    elif role in ("sel-union", "sel-focus", "sel-union-own", "sel-focus-own"):
        # the selector parameter of a scope-opening composite is an expression in the scope that composite opens (like its members'
        # expressions): one '_' more than the members of the probe struct need, and the composite's own members shadow outer names
        I16 = G.I(2, False, "b")
        own = role.endswith("-own")
        Q = ["bin", "&", (["this", "y"] if own else ["path", ["_"] + path]), ["k", 1]]
        a, b = ("y", "yy") if own else ("f", "ff")
        if role.startswith("sel-union"):
            m = ["Union", Q, [[a, BYTE], [b, I16]]]
        else:
            m = ["FocusedSeq", ["bin", "+", ["k", a], ["bin", "*", ["k", a], Q]], [[a, ["Default", BYTE, 7]], [b, ["Default", I16, 9]]]]
    else:
        raise ValueError(role)
    if path[0] == "hdr":
        return ["Struct", [["y", BYTE], ["hdr", ["Struct", [["_n", BYTE], ["p", BYTE]]]], ["m", m], ["z", BYTE]]]
    return ["Struct", [["y", BYTE], ["m", m], ["z", BYTE]]]


def roles_for(kind):
    if kind == "int":
        return ["value", "length", "count", "branch", "sel-union", "sel-focus"]
    if kind == "index":
        return ["value", "length", "branch"]
    if kind == "flag":
        return ["value", "branch", "length"]
    return ["value", "branch"]


def shapes_for(chain):
    out = []
    for path, kind in probes(chain):
        for role in roles_for(kind):
            t = probe_struct(path, kind, role)
            for lvl in range(len(chain) - 1, -1, -1):
                t = wrap(chain[lvl], t, lvl)
            out.append((t, path, role))
            if path == ["y"] and role in ("sel-union", "sel-focus"):
                t = probe_struct(path, kind, role + "-own")
                for lvl in range(len(chain) - 1, -1, -1):
                    t = wrap(chain[lvl], t, lvl)
                out.append((t, path, role + "-own"))
    return out


def chains(tier):
    b = INFO["bounds"][tier]
    out = [[]]
    for n in range(1, b["depth"] + 1):
        out += [list(c) for c in itertools.product(ALL_KINDS, repeat=n)]
    alpha3 = b["depth3_alphabet"]
    if alpha3 and b["depth"] < 3:
        out += [list(c) for c in itertools.product(alpha3, repeat=3)]
    return out


def units(tier):
    cs = chains(tier)
    us = []
    for i in range(0, len(cs), 6):
        us.append({"chains": cs[i:i + 6]})
    us.append({"kind": "flags"})
    us.append({"kind": "index-after"})
    us.append({"kind": "entry-context"})
    return us


INPUTS = [bytes([1] * 40), bytes([2, 1, 3] * 14), bytes([3, 2, 1, 0] * 10), bytes([1, 2] * 20), bytes([2, 3, 3, 1, 1, 2, 0, 1] * 5), bytes([6, 1, 2, 3, 1, 2, 1]) * 6]
KWS = [{"k": 0}, {"k": 1}]


def outcome_ref(f):
    try:
        return ("ok",) + tuple(f())
    except R.RefHang:
        return ("refhang",)
    except (R.Reject, R.Stop) as e:
        return ("rej", getattr(e, "kind", "Stop"))
    except Exception as e:
        return ("rej", "foreign:" + type(e).__name__)


def check_shape(t, d, chain, r=None, only=None, path=None):
    out = []
    sizeof_claimed = path is None or ("_index" not in path)
    is_flag = path is not None and path[-1] in ("_parsing", "_building", "_sizing")     # flags differ between parse and build by definition
    tsig = ">".join(chain) if chain else "top"
    show = T.show(t)
    # no round-trip claim where the composition itself cannot represent it: a Union builds only its first present member, and
    # zero padding of FixedSized/Padded re-parses as further elements of a GreedyRange (typing rule of DESIGN 2.1)
    chain_g = ["GreedyRange" if k == "GreedyRangeD" else k for k in chain]
    has_union = "Union" in chain or ("GreedyRange" in chain_g and ("FixedSized" in chain or "Padded" in chain))
    discards = "ArrayD" in chain or "GreedyRangeD" in chain
    t_full = undiscard(t) if discards else t
    def bad(kind, case, detail):
        out.append({"sig": "C07/%s/%s" % (kind, tsig), "case": dict(case, term=t, chain=chain), "detail": detail})
    for kw in KWS:
        for x in INPUTS:
            if only is not None and (only.get("data") != x or only.get("kw") != kw):
                continue
            want = outcome_ref(lambda: R.parse(t, x, **kw))
            if want[0] == "refhang":
                continue
            got = rt.parse(d, x, kw, timeout=1)
            case = {"op": "parse", "data": x, "kw": kw}
            if r is not None:
                r.states += 1
            if want[0] == "ok" and got[0] == "ok":
                if not T.eqv(strip_private(want[1]), got[1]) or want[2] != got[2]:
                    bad("parse-differs", case, "%s.parse(%s, %s): %r ending at %d; scope model: %r ending at %d" % (show, x[:12].hex(), kw, got[1], got[2], want[1], want[2]))
                    if r is not None:
                        r.case(nontrivial=True, outcome="parse-bad", validated=1)
                    continue
                if r is not None:
                    r.case(nontrivial=True, outcome="parse-ok", validated=1)
                # build the parsed value: same bytes as the model, and they parse back to the value
                v = T.denorm(want[1])
                if discards:
                    # a discarding repeater returns nothing, so the value to build comes from the collecting twin; no round trip
                    full = outcome_ref(lambda: R.parse(t_full, x, **kw))
                    if full[0] != "ok":
                        continue
                    v = T.denorm(full[1])
                wb = outcome_ref(lambda: (R.build(t, v, **kw),))
                gb = rt.build(d, v, kw)
                caseb = {"op": "build", "value": enc_value(v), "kw": kw}
                if r is not None:
                    r.states += 1
                if wb[0] == "ok" and gb[0] == "ok":
                    if wb[1] != gb[1]:
                        bad("build-differs", caseb, "%s.build(%r, %s) = %s, scope model %s" % (show, v, kw, gb[1].hex(), wb[1].hex()))
                    elif not has_union and not is_flag and not discards:
                        back = rt.parse(d, gb[1], kw)
                        # what the bytes mean according to the scope model (equals the value unless a derived member was recomputed)
                        wback = outcome_ref(lambda: R.parse(t, wb[1], **kw))
                        if wback[0] == "ok" and (back[0] != "ok" or not T.eqv(back[1], strip_private(wback[1]))):
                            bad("build-selects-other-layout", caseb, "%s: build(%r, %s) = %s parses back to %r" % (show, v, kw, gb[1].hex(), back[1:2]))
                    if r is not None:
                        r.case(nontrivial=True, outcome="build-ok", validated=1)
                elif (wb[0] == "ok") != (gb[0] == "ok"):
                    bad("build-accept-differs", caseb, "%s.build(%r, %s): library %r, scope model %r" % (show, v, kw, gb[:2], wb[:2]))
            elif (want[0] == "ok") != (got[0] == "ok"):
                bad("parse-accept-differs", case, "%s.parse(%s, %s): library %r, scope model %r" % (show, x[:12].hex(), kw, got[:2], want[:2]))
                if r is not None:
                    r.case(nontrivial=True, outcome="parse-bad", validated=1)
            elif r is not None:
                r.case(nontrivial=False, outcome="both-reject", validated=1)
        # sizeof
        if sizeof_claimed and (only is None or only.get("op") == "sizeof"):
            ws = outcome_ref(lambda: (R.sizeof(t, **kw),))
            gs = rt.sizeof(d, kw)
            if r is not None:
                r.states += 1
                r.case(nontrivial=ws[0] == "ok", outcome="sizeof-" + ws[0], validated=1)
            if ws[0] == "ok":
                if gs[0] != "ok" or gs[1] != ws[1]:
                    bad("sizeof-differs", {"op": "sizeof", "kw": kw}, "%s.sizeof(%s): %r, scope model %r" % (show, kw, gs[:2], ws[1]))
            elif gs[0] == "ok":
                bad("sizeof-answers-unknowable", {"op": "sizeof", "kw": kw}, "%s.sizeof(%s) = %r, scope model says the size depends on data (%s)" % (show, kw, gs[1], ws[1]))
            elif gs[0] == "foreign":
                bad("sizeof-foreign", {"op": "sizeof", "kw": kw}, "%s.sizeof(%s) raised %s" % (show, kw, gs[1]))
    return out


def run_flags(r):
    """exactly one of the three mode flags is true, at every depth, for every public entry point"""
    import construct as C
    this = C.this
    flags = lambda: C.Struct("p" / C.Computed(this._parsing), "b" / C.Computed(this._building), "s" / C.Computed(this._sizing))
    for depth in range(0, 4):
        d = flags()
        for _ in range(depth):
            d = C.Struct("in" / d, "n" / C.Array(1, C.Sequence(C.Computed(this._._parsing), C.Computed(this._._building), C.Computed(this._._sizing))))
        def leaf(v):
            for _ in range(depth):
                v = v["in"]
            return (v["p"], v["b"], v["s"])
        r.states += 1
        got = leaf(d.parse(b""))
        r.case(key=("flags", depth, "parse"), outcome="flags", validated=1)
        if got != (True, False, False):
            r.violation("C07/flags/parse", {"flags": depth}, "depth %d parse flags %r" % (depth, got))
        seen = {}
        probe = C.Struct("x" / C.Computed(lambda ctx: seen.update(f=(ctx._parsing, ctx._building, ctx._sizing))))
        dd = probe
        for _ in range(depth):
            dd = C.Struct("in" / dd)
        dd.build({})
        r.case(key=("flags", depth, "build"), outcome="flags", validated=1)
        if seen.get("f") != (False, True, False):
            r.violation("C07/flags/build", {"flags": depth}, "depth %d build flags %r" % (depth, seen.get("f")))
        sz = C.Bytes(lambda ctx: 4 * ctx._parsing + 2 * ctx._building + 1 * ctx._sizing)
        for _ in range(depth):
            sz = C.Struct("in" / sz)
        r.case(key=("flags", depth, "sizeof"), outcome="flags", validated=1)
        if sz.sizeof() != 1:
            r.violation("C07/flags/sizeof", {"flags": depth}, "depth %d sizeof sees flags giving size %r" % (depth, sz.sizeof()))
    r.sample({"flags_depths": 4})


def run_index_after(r):
    """statement-level oracle: a member that follows a completed inner repeater inside an element of an outer repeater
    still belongs to the outer repetition, so _index is the outer index"""
    import construct as C
    this = C.this
    outers = {"Array": lambda e: C.Array(2, e), "GreedyRange": lambda e: C.GreedyRange(e), "RepeatUntil": lambda e: C.RepeatUntil(lambda o, l, c: len(l) >= 2, e)}
    inners = {"Array": lambda: C.Array(3, C.Byte), "RepeatUntil": lambda: C.RepeatUntil(C.obj_ == 9, C.Byte), "PrefixedGreedyRange": lambda: C.Prefixed(C.Byte, C.GreedyRange(C.Byte))}
    data = {"Array": bytes([1, 2, 3]), "RepeatUntil": bytes([1, 2, 9]), "PrefixedGreedyRange": bytes([2, 1, 2])}
    for on, omk in outers.items():
        for iname, imk in inners.items():
            for scope in ("Struct", "Sequence"):
                for probe in ("Computed", "Index"):
                    pm = C.Computed(this._index) if probe == "Computed" else C.Index
                    elem = C.Struct("a" / imk(), "i" / pm) if scope == "Struct" else C.Sequence("a" / imk(), "i" / pm)
                    d = omk(elem)
                    x = data[iname] * 2
                    r.states += 1
                    try:
                        v = d.parse(x)
                        got = [(e["i"] if scope == "Struct" else e[1]) for e in v]
                    except Exception as e:
                        got = repr(e)
                    r.case(key=("ia", on, iname, scope, probe), outcome="index-after", validated=1)
                    if got != [0, 1]:
                        r.violation("C07/index-stale-after-inner-repeater", {"index_after": [on, iname, scope, probe]},
                                    "%s(%s(a/%s, i/%s)).parse(%s): the member after the inner repeater sees _index %r, the outer repetition index is [0, 1]"
                                    % (on, scope, iname, probe, x.hex(), got))
    r.sample({"index_after": "3 outer x 3 inner repeaters x 2 scopes x 2 probes"})


def run_unit(unit, tier):
    r = UnitResult()
    if unit.get("kind") == "flags":
        run_flags(r)
        return r
    if unit.get("kind") == "index-after":
        run_index_after(r)
        return r
    if unit.get("kind") == "entry-context":
        # the keyword context is the outermost frame whichever entry point creates it: this.k, this._params.k at top level and
        # this._.k from inside a Struct resolve the same through parse / parse_stream / parse_file / build / build_stream / build_file
        # (the enumeration is the one of C17's entry-kw unit: every context-parameter slot x reference x keyword value)
        from .c17 import run_entry_kw
        run_entry_kw(r, prop="C07")
        return r
    for chain in unit["chains"]:
        dpos = [i for i, k in enumerate(chain) if k in ("ArrayD", "GreedyRangeD")]
        if dpos and "LazyStruct" in chain[dpos[0]:]:
            # discarded lazy elements are never evaluated, so their deferred validation never happens (laziness, not a scope question)
            r.extra["skipped-discard-over-lazystruct"] += 1
            continue
        chain_g = ["GreedyRange" if k == "GreedyRangeD" else k for k in chain]
        if "GreedyRange" in chain_g and "LazyStruct" in chain_g[chain_g.index("GreedyRange"):]:
            # a lazy element defers the validation of what it skips (a Const inside it), so GreedyRange stops elsewhere than over
            # the eager twin and the error surfaces on access: laziness, not a scope question
            r.extra["skipped-greedyrange-over-lazystruct"] += 1
            continue
        lazy_at = chain.index("LazyStruct") if "LazyStruct" in chain else None
        if lazy_at is not None and "Prefixed" in chain[lazy_at:]:
            # a lazily skipped Prefixed member is measured by its static sizeof, not by its length field: lazy-vs-eager
            # agreement on such members is C16's subject, not a scope question
            r.extra["skipped-prefixed-under-lazystruct"] += 1
            continue
        for t, path, role in shapes_for(chain):
            if lazy_at is not None and "_index" in path:
                # lazy measuring does not know the running index (sizes depending on it come out wrong or raise TypeError on the
                # unchanged tree): recorded as a finding of C16 (lazy = eager), not re-reported here per scope chain
                continue
            try:
                d = T.mk(t)
            except Exception as e:
                r.extra["unbuildable"] += 1
                continue
            for v in check_shape(t, d, chain, r, path=path):
                r.violation(v["sig"], v["case"], v["detail"])
        r.sample({"chain": chain, "probes": len(probes(chain))}, cap=2)
    return r


def replay(case):
    if "entrykw" in case:
        from .c17 import run_entry_kw
        r = UnitResult(); run_entry_kw(r, only=case["entrykw"], prop="C07"); return r.violations
    if "flags" in case:
        r = UnitResult(); run_flags(r); return r.violations
    if "index_after" in case:
        r = UnitResult(); run_index_after(r); return r.violations
    t = case["term"]
    d = T.mk(t)
    vs = check_shape(t, d, case["chain"])
    if case.get("op") == "parse":
        vs2 = [v for v in vs if v["case"].get("data") == case["data"] and v["case"].get("kw") == case["kw"]]
        return vs2 or []
    return [v for v in vs if v["case"].get("op") == case.get("op")]
