"""C05 - sizeof is exact when it answers and fails only with SizeofError."""
import io, itertools
from ..engine import UnitResult, jkey, watchdog, Hang
from .. import ref as R, terms as T, gen as G, rt
from .c03 import chunks, srepr

INFO = {
    "rule": "(a) every term of tiers T1..T4 (non-strict, incl. unsized ones; T5 thorough): sizeof() must return a non-negative int or "
            "raise SizeofError, must agree with the reference, and when it returns n every buildable value of the domain must advance "
            "the output stream by exactly n (from start offsets 0 and 3) and parsing those bytes followed by each trailer must advance "
            "by exactly n; (b) every class that takes a context parameter x every way of referring to the key (this.k, lambda ctx: ctx.k, "
            "this._.k, this._params.k, sibling, two levels up, _root) x every embedding (top level, Struct member, nested Struct, Array, "
            "Prefixed, IfThenElse, Switch, Aligned, Renamed) x contexts that supply each alphabet value or omit the key. "
            "(c) classes with user-given amounts (Transformed with every pair of decode/encode amounts over {None,1..4}, Restreamed) and the adapter "
            "classes: exception class and measured advance; (d) every sized T1/T2 term as a lazily skipped member (LazyStruct, Lazy, LazyArray). non-trivial = sizeof answered and the stream advance of build and parse was measured; distinct = (term, kw, value)",
    "bounds": {"quick": {"ctx_values": [0, 1, 2, 3]}, "thorough": {"ctx_values": [0, 1, 2, 3, 5, 255, 256], "values": "every value read from every n-byte string over S6 (n<=4), {00,01,ff} (n<=6), {00,ff} (n<=8)"}},
    "trusted_base": ["mc/ref.py sizeof (cross-check only; the verdict is the measured stream advance and the exception class)"],
    "assumptions": ["exempt by the property: read-to-EOF transforms outside a delimiter are measured with an empty trailer only; "
                    "negative lengths and modulus < 2 are not in the context alphabet"],
}

TRAILERS = [b"", b"\xff", b"\x00\x00\x7f"]
BYTE = G.BYTE
I16 = G.I(2, False, "l")


def units(tier):
    us = []
    terms = [(t, "T1") for t in G.tier1()] + [(t, "T2") for t in G.tier2(False)] + [(t, "T3") for t in G.tier3(False)] + [(t, "T4") for t in G.tier4()]
    if tier == "thorough":
        terms += [(t, "T5") for t in G.tier5(False)]
    terms += [(t, "X") for t in extra_terms() + G.discard_terms() + G.zero_size_terms()]
    terms += [(t, "TLz") for t in G.lazy_hosts()]
    for ch in chunks(terms, 12):
        us.append({"kind": "terms", "terms": [[t, tn] for t, tn in ch]})
    for i in range(len(slots())):
        us.append({"kind": "slot", "index": i})
    from .. import scale
    for n in scale.sizes(tier):
        us.append({"kind": "scale", "size": n})
    us.append({"kind": "direct"})
    return us


def extra_terms():
    """zero-size look-ahead / seeking members inside sized structs: their size is 0 and the struct's advance must not change"""
    B = BYTE
    S = lambda *ms: ["Struct", [list(m) for m in ms]]
    out = []
    for inner in (B, I16, ["ConstB", b"AB"], S(("p0", B), ("p1", I16)), ["OneOf", B, [1, 2]], ["Bytes", 3]):
        out.append(S(("p", ["Peek", inner]), ("x", B)))
        out.append(S(("x", B), ("p", ["Peek", inner])))
        out.append(S(("p", ["Peek", inner]), ("q", ["Peek", B]), ("x", I16)))
        out.append(S(("x", B), ("p", ["Pointer", 0, inner]), ("y", B)))
        out.append(["Peek", inner])
    out.append(S(("a", B), ("c", ["Computed", ["this", "a"]]), ("k", ["Check", ["bin", ">=", ["this", "a"], ["k", 0]]]), ("t", ["Tell"]), ("b", B)))
    out.append(S(("u", ["Union", None, [["a", I16], ["b", B]]]), ("t", B)))
    out.append(S(("u", ["Union", 0, [["a", I16], ["b", B]]]), ("t", B)))
    out.append(S(("k", B), ("v", ["Switch", ["this", "k"], [[1, I16], [2, G.I(2, True, "b")]], None])))
    out.append(S(("k", B), ("v", ["Switch", ["this", "k"], [[1, I16], [2, G.I(2, True, "b")]], B])))
    out.append(["Array", 2, S(("k", B), ("v", ["Switch", ["this", "k"], [[1, B]], I16]))])
    return out


# ------------------------------------------------------------------------------ part (a)

def measure(t, d, n, kw, tsig, r, values=None):
    """sizeof answered n: check the advance of build and parse"""
    out = []
    def bad(kind, case, detail):
        out.append({"sig": "C05/%s/%s" % (kind, tsig), "case": dict(case, term=t, kw=kw), "detail": detail})
    greedy = G.attrs(t).extent == "greedy"
    cands = []
    if values is not None:
        cands = list(values)
    # values from exactly-n-byte inputs through the reference (covers context-dependent terms)
    xs = []
    if _TIER[0] == "thorough" and 0 < n <= 8:
        # every n-byte string over S6 (n <= 4) / over {00, ff, 01} per position (n <= 6) / {00, ff} (n <= 8)
        alpha = (0x00, 0x01, 0x02, 0x7f, 0x80, 0xff) if n <= 4 else ((0x00, 0x01, 0xff) if n <= 6 else (0x00, 0xff))
        xs = [bytes(c) for c in itertools.product(alpha, repeat=n)]
    for x in xs:
        try:
            v, end = R.parse(t, x + b"\xee", **kw) if not greedy else R.parse(t, x, **kw)
            if end <= n:      # a value that needed the sentinel byte beyond the n-byte string says nothing about n
                cands.append(T.denorm(v))
        except Exception:
            pass
    for filler in (0x00, 0x01, 0xff, None):
        x = bytes(n) if filler == 0 else (bytes([filler]) * n if filler is not None else bytes((i * 37 + 11) % 256 for i in range(n)))
        try:
            v, end = R.parse(t, x + b"\xee", **kw) if not greedy else R.parse(t, x, **kw)
            if end <= n:      # a value that needed the sentinel byte beyond the n-byte string says nothing about n
                cands.append(T.denorm(v))
        except Exception:
            pass
    seen = set()
    tried = 0
    for v in cands:
        try:
            key = repr(v)
        except ValueError:          # an integer beyond the int->str digit limit
            key = "id%d" % id(v)
        if key in seen:
            continue
        seen.add(key)
        for start in (0, 3):
            s = io.BytesIO()
            s.write(bytes(start))
            try:
                with watchdog(3):
                    d.build_stream(v, s, **kw)
            except Hang:
                bad("build-hang", {"value": srepr(v)}, "build did not terminate")
                continue
            except Exception:
                continue            # not buildable: nothing to measure
            adv = s.tell() - start
            tried += 1
            if adv != n:
                bad("build-advance-differs", {"value": srepr(v), "start": start},
                    "%s.sizeof(%s) = %d but build(%s) at offset %d advanced the stream by %d" % (T.show(t), kw, n, srepr(v), start, adv))
                continue
            built = s.getvalue()[start:start + adv]
            for trail in (TRAILERS if not greedy else [b""]):
                s2 = io.BytesIO(bytes(start) + built + trail)
                s2.seek(start)
                try:
                    with watchdog(3):
                        d.parse_stream(s2, **kw)
                except Hang:
                    bad("parse-hang", {"value": srepr(v)}, "parse did not terminate")
                    continue
                except Exception as e:
                    # "parsing those bytes ... advances the input stream by exactly n": the construct's own n-byte encoding must parse;
                    # judged for the bare encoding only (a trailer can legitimately change the outcome, e.g. Terminated)
                    if trail == b"" and (start == 0 or not G.attrs(t).seeks) and admissible_encoding(t, v, built, kw):
                        bad("parse-rejects-own-encoding", {"value": srepr(v), "start": start},
                            "%s.sizeof(%s) = %d, build(%s) wrote %s, but parsing exactly those bytes raised %s" % (T.show(t), kw, n, srepr(v), built.hex()[:200], type(e).__name__))
                    continue
                adv2 = s2.tell() - start
                if adv2 != n:
                    bad("parse-advance-differs", {"value": srepr(v), "start": start, "trail": trail},
                        "%s.sizeof(%s) = %d but parsing its own %d-byte encoding %s followed by %s advanced the stream by %d"
                        % (T.show(t), kw, n, adv, built.hex(), trail.hex(), adv2))
    if r is not None:
        r.case(nontrivial=tried > 0, outcome="measured" if tried else "sized-no-buildable-value", transitions=1 + 4 * tried, validated=1)
    return out


def admissible_encoding(t, v, built, kw):
    """the reference builds the same bytes and reads them back completely (filters representational gaps such as a
    child encoding that contains its region's terminator)"""
    try:
        if R.build(t, v, **kw) != built:
            return False
        v2, end = R.parse(t, built, **kw)
        return end == len(built)
    except Exception:
        return False


def judge_sizeof(t, d, kw, tsig, r, values=None, expect_missing=False):
    """-> violations.  Calls sizeof, checks the contract, cross-checks the reference, measures advances."""
    out = []
    g = rt.sizeof(d, kw)
    try:
        want = ("ok", R.sizeof(t, **kw))
    except R.Reject as e:
        want = ("rej", e.kind)
    except Exception as e:
        want = ("rej", "foreign:" + type(e).__name__)
    case = {"term": t, "kw": kw}
    if g[0] in ("foreign", "cerr"):
        if g[0] == "cerr" and g[1] == "PaddingError" and want == ("rej", "PaddingError"):
            pass        # negative length / modulus < 2: exempt by the property
        else:
            out.append({"sig": "C05/sizeof-raises-%s/%s" % (g[1], tsig), "case": case,
                        "detail": "%s.sizeof(%s) raised %s%s; only SizeofError is allowed%s" %
                                  (T.show(t), kw, g[1], (": " + g[2]) if g[0] == "foreign" else "", " (the context lacks a key)" if expect_missing else "")})
        if r is not None:
            r.case(nontrivial=False, outcome="sizeof-" + g[1])
        return out
    if g[0] == "sizeof-error":
        if want[0] == "ok" and not expect_missing:
            out.append({"sig": "C05/sizeof-refuses-computable/" + tsig, "case": case,
                        "detail": "%s.sizeof(%s) raised SizeofError, the reference computes %r" % (T.show(t), kw, want[1])})
        if r is not None:
            r.case(nontrivial=False, outcome="SizeofError")
        return out
    n = g[1]
    if isinstance(n, bool) or not isinstance(n, int) or n < 0:
        out.append({"sig": "C05/sizeof-not-a-size/" + tsig, "case": case, "detail": "%s.sizeof(%s) returned %r" % (T.show(t), kw, n)})
        return out
    if expect_missing:
        # answered although a referenced key is missing: acceptable only if the answer does not depend on it (measured below)
        pass
    if want[0] == "ok" and want[1] != n:
        out.append({"sig": "C05/sizeof-differs-from-reference/" + tsig, "case": case,
                    "detail": "%s.sizeof(%s) = %r, reference %r" % (T.show(t), kw, n, want[1])})
    out += measure(t, d, n, kw, tsig, r, values)
    return out


def run_terms(unit, tier, r):
    for t, tn in unit["terms"]:
        d = T.mk(t)
        tsig = T.sig_of(t)
        a = G.attrs(t)
        vals = None
        if a.ctxfree:
            try:
                vals = [v for v, _ in G.values(t)]
            except Exception:
                vals = None
        for kw in G.kwargs_for(t):
            r.states += 1
            for v in judge_sizeof(t, d, kw, tsig, r, vals):
                r.violation(v["sig"], v["case"], v["detail"])
        r.sample({"term": T.show(t), "tier": tn}, cap=2)


# ------------------------------------------------------------------------------ classes outside the term language

def direct_cases():
    """(name, factory, build values): classes whose parameters are amounts / functions given directly by the user.
    Transformed and Restreamed with every combination of amounts (absent, equal, different), and the adapter classes of C01."""
    import construct as C
    out = []
    fit = lambda k: (lambda b: (bytes(b) + bytes(8))[:k])
    amounts = (None, 1, 2, 3, 4)
    for da in amounts:
        for ea in amounts:
            for k in (0, 2):
                enc = fit(ea) if ea is not None else (lambda b: b)
                out.append(("Transformed(Bytes(%d), fit, %r, fit, %r)" % (k, da, ea),
                            (lambda k=k, da=da, ea=ea, enc=enc: C.Transformed(C.Bytes(k), fit(k), da, enc, ea)), [bytes([7]) * k, bytes([255]) * k]))
            out.append(("Struct(Byte, Transformed(Byte, fit, %r, fit, %r), Byte)" % (da, ea),
                        (lambda da=da, ea=ea: C.Struct("a" / C.Byte, "t" / C.Transformed(C.Byte, fit(1), da, fit(ea) if ea is not None else (lambda b: b), ea), "z" / C.Byte)),
                        [dict(a=1, t=2, z=3)]))
            out.append(("Array(2, Transformed(Byte, fit, %r, fit, %r))" % (da, ea),
                        (lambda da=da, ea=ea: C.Array(2, C.Transformed(C.Byte, fit(1), da, fit(ea) if ea is not None else (lambda b: b), ea))), [[1, 2]]))
    from construct.lib import bytes2bits, bits2bytes
    for k in (1, 2, 3):
        # the size computer is the user's statement about the two functions; only correct ones are in scope
        out.append(("Restreamed(Bytes(%d), bytes2bits, 1, bits2bytes, 8, n//8)" % (8 * k,),
                    (lambda k=k: C.Restreamed(C.Bytes(8 * k), bytes2bits, 1, bits2bytes, 8, lambda n: n // 8)), [bytes([1, 0] * (4 * k))]))
        out.append(("Restreamed(Bytes(%d), bits2bytes, 8, bytes2bits, 1, n*8)" % (k,),
                    (lambda k=k: C.Restreamed(C.Bytes(k), bits2bytes, 8, bytes2bits, 1, lambda n: n * 8)), [bytes([0x81]) * k]))
    from .c01 import adapter_cases
    for name, mk, vals in adapter_cases():
        out.append((name, mk, [vin for vin, _ in vals]))
    return out


def run_direct(r):
    """no reference here: the verdict is the exception class and the measured stream advance of the real build and parse"""
    for name, mk, vals in direct_cases():
        d = mk()
        r.states += 1
        g = rt.sizeof(d, {})
        case = {"direct": name}
        if g[0] in ("foreign", "cerr"):
            r.violation("C05/sizeof-raises-%s/direct" % g[1], case, "%s.sizeof() raised %s; only SizeofError is allowed" % (name, g[1]))
            continue
        if g[0] == "sizeof-error":
            r.case(nontrivial=False, outcome="SizeofError")
            continue
        n = g[1]
        if isinstance(n, bool) or not isinstance(n, int) or n < 0:
            r.violation("C05/sizeof-not-a-size/direct", case, "%s.sizeof() returned %r" % (name, n))
            continue
        tried = 0
        for v in vals:
            for start in (0, 3):
                s = io.BytesIO()
                s.write(bytes(start))
                try:
                    with watchdog(3):
                        d.build_stream(v, s)
                except Hang:
                    r.violation("C05/build-hang/direct", case, "%s: build did not terminate" % name)
                    continue
                except Exception:
                    continue
                adv = s.tell() - start
                tried += 1
                if adv != n:
                    r.violation("C05/build-advance-differs/direct", dict(case, value=srepr(v)),
                                "%s.sizeof() = %d but build(%s) at offset %d advanced the stream by %d" % (name, n, srepr(v), start, adv))
                    continue
                built = s.getvalue()[start:]
                for trail in TRAILERS:
                    s2 = io.BytesIO(bytes(start) + built + trail)
                    s2.seek(start)
                    try:
                        with watchdog(3):
                            d.parse_stream(s2)
                    except Hang:
                        r.violation("C05/parse-hang/direct", case, "%s: parse did not terminate" % name)
                        continue
                    except Exception:
                        continue
                    adv2 = s2.tell() - start
                    if adv2 != n:
                        r.violation("C05/parse-advance-differs/direct", dict(case, value=srepr(v), trail=trail.hex()),
                                    "%s.sizeof() = %d but parsing its own encoding %s followed by %s advanced the stream by %d"
                                    % (name, n, built.hex(), trail.hex(), adv2))
        r.case(nontrivial=tried > 0, outcome="measured" if tried else "sized-no-buildable-value", transitions=1 + 4 * tried, validated=1)
    r.sample({"direct_cases": len(direct_cases())})


# ------------------------------------------------------------------------------ part (b)

def slots():
    """(name, make(P) -> term, kind of parameter)"""
    return [
        ("Bytes", lambda P: ["Bytes", P], "len"),
        ("BytesInteger", lambda P: ["BytesInteger", P, False, False], "len1"),
        ("Array/Byte", lambda P: ["Array", P, BYTE], "len"),
        ("Array/Int16", lambda P: ["Array", P, I16], "len"),
        ("Array/VarInt", lambda P: ["Array", P, ["VarInt"]], "len"),
        ("LazyArray", lambda P: ["LazyArray", P, BYTE], "len"),
        ("Padded", lambda P: ["Padded", P, ["Pass"], b"\x00"], "len"),
        ("Padding", lambda P: ["Padding", P], "len"),
        ("Aligned", lambda P: ["Aligned", P, BYTE, b"\x00"], "mod"),
        ("FixedSized/Greedy", lambda P: ["FixedSized", P, ["GreedyBytes"]], "len"),
        ("FixedSized/Pass", lambda P: ["FixedSized", P, ["Pass"]], "len"),
        ("PaddedString", lambda P: ["PaddedString", P, "ascii"], "len"),
        ("If", lambda P: ["If", P, BYTE], "bool"),
        ("IfThenElse", lambda P: ["IfThenElse", P, BYTE, I16], "bool"),
        ("IfThenElse/unsized", lambda P: ["IfThenElse", P, BYTE, ["VarInt"]], "bool"),
        ("Switch", lambda P: ["Switch", P, [[1, BYTE], [2, I16]], None], "key"),
        ("Switch/default", lambda P: ["Switch", P, [[1, BYTE]], I16], "key"),
        ("Computed", lambda P: ["Computed", P], "len"),
        ("Check", lambda P: ["Check", P], "bool"),
        ("StopIf", lambda P: ["StopIf", P], "bool"),
        ("Prefixed(Bytes)", lambda P: ["Prefixed", BYTE, ["Bytes", P], False], "len"),
        ("Hex(Bytes)", lambda P: ["Hex", ["Bytes", P]], "len"),
        ("Default(Bytes)", lambda P: ["Default", ["Bytes", P], b""], "len"),
        ("Rebuild(Bytes)", lambda P: ["Rebuild", ["Bytes", P], b""], "len"),
        ("Enum(BytesInteger)", lambda P: ["Enum", ["BytesInteger", P, False, False], [["a", 1]]], "len1"),
        ("ProcessXor(Bytes)", lambda P: ["ProcessXor", 7, ["Bytes", P]], "len"),
        ("RawCopy(Bytes)", lambda P: ["RawCopy", ["Bytes", P]], "len"),
        ("OneOf(BytesInteger)", lambda P: ["OneOf", ["BytesInteger", P, False, False], [0, 1]], "len1"),
        ("Bitwise(BitsInteger)", lambda P: ["Bitwise", ["BitsInteger", ["bin", "*", P, ["k", 8]], False, False]], "len1"),
        ("Bitwise(Bytewise(Bytes))", lambda P: ["Bitwise", ["Bytewise", ["Bytes", P]]], "len"),
        ("BitStruct(Bytewise(Bytes))", lambda P: ["Bitwise", ["Struct", [["hi", ["BitsInteger", 4, False, False]], ["body", ["Bytewise", ["Bytes", up(P)]]], ["lo", ["BitsInteger", 4, False, False]]]]], "len"),
    ]


def up(P):
    """the same reference seen from one structure deeper"""
    if P[0] == "this":
        return ["path", ["_", P[1]]]
    if P[0] in ("path", "lam"):
        return [P[0], ["_"] + list(P[1])]
    if P[0] == "bin":
        return ["bin", P[1], up(P[2]), up(P[3])] if isinstance(P[3], list) and P[3][0] != "k" else ["bin", P[1], up(P[2]), P[3]]
    return P


def embeddings():
    """(name, embed(make) -> term using key 'n', how the key is reachable)"""
    TH = ["this", "n"]
    LAM = ["lam", ["n"]]
    return [
        ("top/this", lambda mk: mk(TH), True),
        ("top/lambda", lambda mk: mk(LAM), True),
        ("top/item", lambda mk: mk(["item", "n"]), True),
        ("top/expr", lambda mk: mk(["bin", "+", TH, ["k", 0]]), True),
        ("renamed", lambda mk: ["Renamed", mk(TH), "x"], True),
        ("struct/_", lambda mk: ["Struct", [["m", mk(["path", ["_", "n"]])]]], True),
        ("struct/lambda_", lambda mk: ["Struct", [["m", mk(["lam", ["_", "n"]])]]], True),
        ("struct/_params", lambda mk: ["Struct", [["m", mk(["path", ["_params", "n"]])]]], True),
        ("struct2/_._", lambda mk: ["Struct", [["s", ["Struct", [["a", BYTE], ["m", mk(["path", ["_", "_", "n"]])]]]]]], True),
        ("struct2/_params", lambda mk: ["Struct", [["s", ["Struct", [["m", mk(["lam", ["_params", "n"]])]]]]]], True),
        ("sequence/_", lambda mk: ["Sequence", [[None, BYTE], ["m", mk(["path", ["_", "n"]])]]], True),
        ("focusedseq/_", lambda mk: ["FocusedSeq", "m", [["m", mk(["path", ["_", "n"]])]]], True),
        ("array", lambda mk: ["Array", 2, mk(TH)], True),
        ("prefixed", lambda mk: ["Prefixed", BYTE, mk(TH), False], True),
        ("ifthenelse", lambda mk: ["IfThenElse", True, mk(TH), BYTE], True),
        ("switch", lambda mk: ["Switch", 1, [[1, mk(LAM)]], None], True),
        ("aligned", lambda mk: ["Aligned", 4, mk(TH), b"\x00"], True),
        ("sibling", lambda mk: ["Struct", [["n", BYTE], ["m", mk(TH)]]], False),
        ("sibling/lambda", lambda mk: ["Struct", [["n", BYTE], ["m", mk(LAM)]]], False),
        ("struct/_root", lambda mk: ["Struct", [["m", mk(["path", ["_root", "n"]])]]], False),
        ("struct/this(no _)", lambda mk: ["Struct", [["m", mk(TH)]]], False),
        ("keyless container", lambda mk: ["Struct", [["m", mk(["path", ["_", "a", "n"]])]]], False),
        # the repetition index is only known while parsing / building: a size that depends on it cannot be stated
        ("index/array-of-struct", lambda mk: ["Array", 3, ["Struct", [["m", mk(["bin", "+", ["path", ["_index"]], ["k", 1]])]]]], False),
        ("index/array", lambda mk: ["Array", 3, mk(["bin", "+", ["path", ["_index"]], ["k", 1]])], False),
        ("index/nested", lambda mk: ["Array", 2, ["Struct", [["s", ["Struct", [["m", mk(["bin", "+", ["path", ["_", "_index"]], ["k", 1]])]]]]]]], False),
        ("index/jagged", lambda mk: ["Array", 3, ["Array", ["bin", "+", ["path", ["_index"]], ["k", 1]], mk(["bin", "+", ["path", ["_index"]], ["k", 1]])]], False),
        ("index/two-levels", lambda mk: ["Array", 2, ["Struct", [["h", mk(["bin", "+", ["path", ["_index"]], ["k", 1]])], ["x", ["Array", 3, mk(["bin", "+", ["path", ["_index"]], ["k", 1]])]]]]], False),
        ("index/no-repeater", lambda mk: ["Struct", [["m", mk(["bin", "+", ["path", ["_index"]], ["k", 1]])]]], False),
    ]


def param_values(kind, tier):
    vals = INFO["bounds"][tier]["ctx_values"]
    if kind == "len":
        return vals
    if kind == "len1":
        return [v for v in vals if 1 <= v <= 16]
    if kind == "mod":
        return [2, 4]
    if kind == "bool":
        return [False, True, 0, 2]
    if kind == "key":
        return [1, 2, 3]
    return vals


def run_slot(index, tier, r):
    name, make, kind = slots()[index]
    for ename, embed, reachable in embeddings():
        try:
            t = embed(make)
            d = T.mk(t)
        except Exception as e:
            r.extra["unbuildable-embedding"] += 1
            continue
        tsig = "%s@%s" % (name, ename)
        # key supplied
        if reachable:
            for v in param_values(kind, tier):
                kw = {"n": v}
                r.states += 1
                for x in judge_sizeof(t, d, kw, tsig, r):
                    r.violation(x["sig"], x["case"], x["detail"])
        # key omitted, and (for unreachable spellings) supplied where the expression cannot see it
        for kw in ({}, {"zz": 1}) + (({"n": 2},) if not reachable else ()):
            r.states += 1
            for x in judge_sizeof(t, d, kw, tsig, r, expect_missing=True):
                r.violation(x["sig"], x["case"], x["detail"])
        if ename == "keyless container":
            r.states += 1
            for x in judge_sizeof(t, d, {"a": {}}, tsig, r, expect_missing=True):
                r.violation(x["sig"], x["case"], x["detail"])
    r.sample({"slot": name, "embeddings": len(embeddings()), "values": param_values(kind, tier)})


_TIER = ["quick"]


def run_unit(unit, tier):
    r = UnitResult()
    _TIER[0] = tier
    if unit["kind"] == "scale":
        # the size axis: where sizeof answers for a large construct, build and parse of a large value advance by exactly that
        from .c03 import scale_cases
        n = unit["size"]
        _TIER[0] = "quick"
        for t, v in scale_cases(n):
            d = T.mk(t)
            r.states += 1
            for x in judge_sizeof(t, d, {}, "scale:" + T.sig_of(t), r, [v]):
                x["case"] = {"scale": [T.show(t)[:60], n]}
                r.violation(x["sig"], x["case"], x["detail"][:500])
        r.sample({"scale_size": n})
        return r
    if unit["kind"] == "direct":
        run_direct(r)
        return r
    if unit["kind"] == "terms":
        run_terms(unit, tier, r)
    else:
        run_slot(unit["index"], tier, r)
    return r


def replay(case):
    if "direct" in case:
        r = UnitResult()
        run_direct(r)
        return [v for v in r.violations if v["case"].get("direct") == case["direct"]]
    t = case["term"]
    kw = case.get("kw") or {}
    d = T.mk(t)
    vals = None
    if G.attrs(t).ctxfree:
        try:
            vals = [v for v, _ in G.values(t)]
        except Exception:
            vals = None
    return judge_sizeof(t, d, kw, T.sig_of(t), None, vals, expect_missing=not kw or "zz" in kw)
