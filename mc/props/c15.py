"""C15 - byte transforms invert exactly and match their definition."""
import itertools, io, zlib, gzip, bz2, lzma
from ..engine import UnitResult, jkey

INFO = {
    "rule": "ProcessXor: all 256 integer keys and all 256 one-byte keys, key strings of every length 1..80 x patterns (zero, "
            "01.., ramp, one ff at each position <8, trailing nonzero), context-supplied keys, x data = all strings over S6 up to "
            "length 4 (3 for long keys) + ramps; ProcessRotateLeft: every amount -64..64 (+over-wide extras) x every group 1..8 x "
            "0..2 groups of pattern bytes and every non-multiple length; ByteSwapped/BitsSwapped over sizes 1..16, integers, "
            "structs, and the unsized (streaming) path; every transform family again placed behind 0..8 header bytes (Struct member, stream entry points at an offset, consecutive Prefixed regions, Array of FixedSized regions); Compressed x 4 codecs x levels x data. Each case: build == T(inner bytes), "
            "parse sees T^-1(stream), parse(build(v)) == v; codec levels {None,0,1,5,9}. non-trivial = non-empty data with a transform that is not the identity",
    "bounds": {"quick": {"data_len": 4}, "thorough": {"data_len": 5}},
    "trusted_base": ["xor/rotate/reverse written with big integers in this module", "zlib, gzip, bz2, lzma stdlib modules define the codecs"],
    "assumptions": ["gzip output embeds a timestamp: byte equality of gzip output is not demanded, only decompress(build(v)) == v"],
}

S6 = [0x00, 0x01, 0x02, 0x7f, 0x80, 0xff]


def sigma(maxlen):
    out = []
    for n in range(maxlen + 1):
        for t in itertools.product(S6, repeat=n):
            out.append(bytes(t))
    return out


def ramps(maxn=16):
    return [bytes((i * 37 + 11) % 256 for i in range(n)) for n in range(1, maxn + 1)]


def ref_xor(data, key):
    if isinstance(key, int):
        key = bytes([key])
    return bytes(b ^ key[i % len(key)] for i, b in enumerate(data))


def ref_rotl(data, amount, group):
    out = bytearray()
    bits = 8 * group
    a = amount % bits
    mask = (1 << bits) - 1
    for i in range(0, len(data), group):
        n = int.from_bytes(data[i:i + group], "big")
        n = ((n << a) | (n >> (bits - a))) & mask
        out += n.to_bytes(group, "big")
    return bytes(out)


def ref_bitrev(data):
    return bytes(int("{:08b}".format(b)[::-1], 2) for b in data)


def units(tier):
    us = []
    for k0 in range(0, 256, 16):
        us.append({"kind": "xor1", "from": k0, "to": k0 + 16})
    for n0 in range(1, 81, 8):
        us.append({"kind": "xorN", "from": n0, "to": n0 + 8})
    us.append({"kind": "xorctx"})
    for g in range(1, 9):
        for a0 in (-64, -32, 0, 33):
            us.append({"kind": "rot", "group": g, "from": a0, "to": min(a0 + 32, 65) if a0 < 33 else 65})
    us.append({"kind": "rotextra"})
    us.append({"kind": "scale-xor"})
    us.append({"kind": "scale-rot"})
    for name in ("xor/90", "xor/0102", "xor/010203", "xor/800000007f", "xor/0102030405060708", "rot/3/1", "rot/8/2", "rot/5/2", "rot/12/3", "rot/-3/1", "bitsswapped"):
        us.append({"kind": "placed", "name": name})
    us.append({"kind": "swap"})
    for enc in ("zlib", "gzip", "bzip2", "lzma"):
        us.append({"kind": "codec", "encoding": enc})
    return us


def tryex(f):
    try:
        return ("ok", f())
    except Exception as e:
        return ("exc", type(e).__name__, str(e)[:80])


def check_transform(mkcon, fwd_parse, fwd_build, data, case, sigbase, r=None, ctx=None):
    """mkcon() -> construct over GreedyBytes.  fwd_parse(x): what the inner construct must see when the stream holds x.
    fwd_build(v): what must be emitted when the inner construct produced v."""
    out = []
    ctx = ctx or {}
    d = mkcon()
    def bad(kind, detail):
        out.append({"sig": "C15/%s/%s" % (sigbase, kind), "case": case, "detail": detail})
    want_p = tryex(lambda: fwd_parse(data))
    got_p = tryex(lambda: bytes(d.parse(data, **ctx)))
    if want_p[0] == "ok":
        if got_p != want_p:
            bad("parse-differs", "parse(%s) inner sees %r, definition %r" % (data.hex(), got_p, want_p))
    else:
        if got_p[0] == "ok":
            bad("parse-accepts-invalid", "parse(%s) returned %r, definition rejects (%s)" % (data.hex(), got_p[1], want_p[1]))
        elif got_p[1] != want_p[1]:
            bad("parse-wrong-error", "parse(%s) raised %s, expected %s" % (data.hex(), got_p[1], want_p[1]))
    want_b = tryex(lambda: fwd_build(data))
    got_b = tryex(lambda: d.build(data, **ctx))
    if want_b[0] == "ok":
        if got_b != want_b:
            bad("build-differs", "build(%s) emitted %r, definition %r" % (data.hex(), got_b, want_b))
        else:
            back = tryex(lambda: bytes(d.parse(got_b[1], **ctx)))
            if back != ("ok", data):
                bad("roundtrip-differs", "parse(build(%s)) = %r" % (data.hex(), back))
    else:
        if got_b[0] == "ok":
            bad("build-accepts-invalid", "build(%s) returned %r, definition rejects (%s)" % (data.hex(), got_b[1], want_b[1]))
        elif got_b[1] != want_b[1]:
            bad("build-wrong-error", "build(%s) raised %s, expected %s" % (data.hex(), got_b[1], want_b[1]))
    if r is not None:
        ident = want_p[0] == "ok" and want_p[1] == data
        r.case(nontrivial=bool(data) and not ident, outcome=want_p[0] if want_p[0] == "ok" else "reject", transitions=3, validated=3)
        for v in out:
            r.violation(v["sig"], v["case"], v["detail"])
    return out


class Reject(Exception):
    pass


def xor_case(key, data, r=None, via_ctx=False):
    import construct as C
    case = {"t": "xor", "key": key, "data": data, "ctx": via_ctx}
    if via_ctx:
        mk = lambda: C.ProcessXor(C.this.key, C.GreedyBytes)
        ctx = {"key": key}
    else:
        mk = lambda: C.ProcessXor(key, C.GreedyBytes)
        ctx = None
    kk = "int" if isinstance(key, int) else ("bytes1" if len(key) == 1 else ("zero-bytes" if not any(key) else ("bytes<=64" if len(key) <= 64 else "bytes>64")))
    return check_transform(mk, lambda x: ref_xor(x, key), lambda v: ref_xor(v, key), data, case, "xor/" + kk, r, ctx)


def rot_case(amount, group, data, r=None, via_ctx=False):
    import construct as C
    case = {"t": "rot", "amount": amount, "group": group, "data": data, "ctx": via_ctx}
    def fp(x):
        if group < 1 or len(x) % group:
            raise type("RotationError", (Exception,), {})()
        return ref_rotl(x, amount, group)
    def fb(v):
        if group < 1 or len(v) % group:
            raise type("RotationError", (Exception,), {})()
        return ref_rotl(v, -amount, group)
    if via_ctx:
        mk = lambda: C.ProcessRotateLeft(C.this.a, C.this.g, C.GreedyBytes)
        ctx = {"a": amount, "g": group}
    else:
        mk = lambda: C.ProcessRotateLeft(amount, group, C.GreedyBytes)
        ctx = None
    if group < 1:
        branch = "bad-group"
    else:
        a = amount % (group * 8)
        branch = "zero" if a == 0 else ("table" if group == 1 else ("bytes" if a % 8 == 0 else "bits"))
    return check_transform(mk, fp, fb, data, case, "rot/" + branch, r, ctx)


def transforms_placed():
    """name -> (make construct over GreedyBytes, what the inner construct sees for stream bytes x, what is emitted for v)"""
    import construct as C
    out = {}
    for key in (0x5a, b"\x01\x02", b"\x01\x02\x03", b"\x80\x00\x00\x00\x7f", bytes(range(1, 9))):
        out["xor/%s" % (key if isinstance(key, int) else key.hex())] = (lambda key=key: C.ProcessXor(key, C.GreedyBytes), lambda x, key=key: ref_xor(x, key), lambda v, key=key: ref_xor(v, key), 1)
    for a, g in ((3, 1), (8, 2), (5, 2), (12, 3), (-3, 1)):
        out["rot/%d/%d" % (a, g)] = (lambda a=a, g=g: C.ProcessRotateLeft(a, g, C.GreedyBytes), lambda x, a=a, g=g: ref_rotl(x, a, g), lambda v, a=a, g=g: ref_rotl(v, -a, g), g)
    out["bitsswapped"] = (lambda: C.BitsSwapped(C.GreedyBytes), ref_bitrev, ref_bitrev, 1)
    return out


def placed_case(name, data, hdr, r=None):
    """the transform does not depend on where in the stream its region starts: after a header of hdr bytes in a Struct,
    from parse_stream/build_stream at offset hdr, in two consecutive Prefixed regions and in an Array of FixedSized regions"""
    import construct as C
    mk, fp, fb, unit = transforms_placed()[name]
    out = []
    case = {"t": "placed", "name": name, "data": data, "hdr": hdr}
    def bad(kind, detail):
        out.append({"sig": "C15/placed/%s/%s" % (name.split("/")[0], kind), "case": case, "detail": "%s with %d bytes before it, data %s: %s" % (name, hdr, data.hex(), detail)})
    if len(data) % unit:
        return out
    head = bytes((0xa0 + i) & 0xff for i in range(hdr))
    inner, emitted = fp(data), fb(data)
    # Struct member after a header
    d = C.Struct("h" / C.Bytes(hdr), "v" / mk())
    got = tryex(lambda: bytes(d.parse(head + data).v))
    if got != ("ok", inner):
        bad("struct-parse", "inner sees %r, definition %r" % (got, inner))
    got = tryex(lambda: d.build(dict(h=head, v=data)))
    if got != ("ok", head + emitted):
        bad("struct-build", "emitted %r, definition %r" % (got, head + emitted))
    # stream entry points at an offset
    def ps():
        st = io.BytesIO(head + data); st.seek(hdr)
        return bytes(mk().parse_stream(st))
    got = tryex(ps)
    if got != ("ok", inner):
        bad("parse_stream-at-offset", "inner sees %r, definition %r" % (got, inner))
    def bs():
        st = io.BytesIO(); st.write(head)
        mk().build_stream(data, st)
        return st.getvalue()
    got = tryex(bs)
    if got != ("ok", head + emitted):
        bad("build_stream-at-offset", "emitted %r, definition %r" % (got, head + emitted))
    # consecutive regions
    if len(data) < 256:
        d = C.Struct("h" / C.Bytes(hdr), "p" / C.Prefixed(C.Byte, mk()), "q" / C.Prefixed(C.Byte, mk()))
        msg = head + bytes([len(data)]) + data + bytes([len(data)]) + data
        got = tryex(lambda: [bytes(x) for x in (lambda o: (o.p, o.q))(d.parse(msg))])
        if got != ("ok", [inner, inner]):
            bad("prefixed-parse", "inner constructs see %r, definition %r twice" % (got, inner))
        got = tryex(lambda: d.build(dict(h=head, p=data, q=data)))
        want = head + bytes([len(data)]) + emitted + bytes([len(data)]) + emitted
        if got != ("ok", want):
            bad("prefixed-build", "emitted %r, definition %r" % (got, want))
    if data:
        d = C.Struct("h" / C.Bytes(hdr), "a" / C.Array(3, C.FixedSized(len(data), mk())))
        got = tryex(lambda: [bytes(x) for x in d.parse(head + data * 3).a])
        if got != ("ok", [inner] * 3):
            bad("array-parse", "elements see %r, definition %r each" % (got, inner))
    if r is not None:
        r.states += 1
        r.case(nontrivial=bool(data), outcome="placed", transitions=7, validated=7)
        for v in out:
            r.violation(v["sig"], v["case"], v["detail"])
    return out


def run_unit(unit, tier):
    r = UnitResult()
    k = unit["kind"]
    L = INFO["bounds"][tier]["data_len"]
    if k == "scale-xor":
        from .. import scale
        keys = [0x5a, b"\x01\x02", b"\x01\x02\x03", bytes(range(1, 6)), bytes(range(1, 8)), bytes(range(3, 13)), bytes(range(1, 18)), bytes(range(1, 65)), bytes(range(1, 81)),
                bytes(range(1, 256)), bytes(range(256)) + b"\x01"]
        for n in scale.sizes(tier):
            for kind in ("ramp", "ff"):
                data = scale.payload(n, kind)
                for key in keys:
                    r.states += 1
                    xor_case(key, data, r)
                    if kind == "ramp" and isinstance(key, bytes) and len(key) in (3, 7):
                        xor_case(key, data, r, via_ctx=True)
        # beyond 2**20 bytes (a second "large block"), a few keys only
        for n in scale.BIG:
            data = scale.payload(n, "ramp")
            for key in (0x5a, b"\x01\x02\x03", bytes(range(1, 8)), bytes(range(1, 101))):
                r.states += 1
                xor_case(key, data, r)
        r.sample({"scale": "xor", "sizes": scale.sizes(tier) + scale.BIG, "key_lengths": [1, 2, 3, 5, 7, 10, 17, 64, 80, 255, 257]})
        return r
    if k == "scale-rot":
        from .. import scale
        for n in scale.sizes(tier):
            for a, g in ((3, 1), (8, 2), (5, 2), (12, 3), (24, 4), (1, 8), (-7, 5), (63, 8)):
                data = scale.payload(n - n % g, "ramp")
                r.states += 1
                rot_case(a, g, data, r)
            r.states += 1
            rot_case(3, 2, scale.payload(n | 1, "ramp"), r)        # odd length, group 2: must be refused
            for nm in ("bitsswapped",):
                placed_case(nm, scale.payload(n, "ramp")[:255], 3, r)
            # swapped transforms on long data
            import construct as C
            data = scale.payload(n, "ramp")
            got = tryex(lambda: bytes(C.BitsSwapped(C.GreedyBytes).parse(data)))
            r.case(nontrivial=True, outcome="ok", validated=1)
            if got != ("ok", ref_bitrev(data)):
                r.violation("C15/swap/bits-long", {"t": "swaplong", "n": n}, "BitsSwapped(GreedyBytes) on %d bytes differs from the bit reversal of every byte" % n)
            got = tryex(lambda: bytes(C.ByteSwapped(C.Bytes(n)).parse(data)))
            if got != ("ok", data[::-1]):
                r.violation("C15/swap/bytes-long", {"t": "swaplong", "n": n}, "ByteSwapped(Bytes(%d)) differs from the reversed data" % n)
            got = tryex(lambda: C.ByteSwapped(C.Bytes(n)).build(data))
            if got != ("ok", data[::-1]):
                r.violation("C15/swap/bytes-long", {"t": "swaplong", "n": n}, "ByteSwapped(Bytes(%d)).build differs from the reversed data" % n)
        r.sample({"scale": "rot/swap", "sizes": scale.sizes(tier)})
        return r
    if k == "placed":
        datas = sigma(min(L, 4) - 1) + ramps(12)
        for hdr in range(0, 9):
            for d in datas:
                placed_case(unit["name"], d, hdr, r)
        r.sample({"placed": unit["name"], "header_lengths": [0, 8], "data_strings": len(datas)})
        return r
    if k == "xor1":
        datas = sigma(L) + ramps()
        for key in range(unit["from"], unit["to"]):
            for kf in (key, bytes([key])):
                r.states += len(datas)
                for d in datas:
                    xor_case(kf, d, r)
        r.sample({"keys": [unit["from"], unit["to"] - 1], "forms": ["int", "bytes"], "data_strings": len(datas)})
    elif k == "xorN":
        datas = sigma(L - 1) + ramps() + [bytes((i * 7 + 1) % 256 for i in range(n)) for n in (63, 64, 65, 100, 200)]
        for n in range(unit["from"], unit["to"]):
            keys = [bytes(n), bytes([1] * n), bytes((i + 1) % 256 for i in range(n)), bytes([0] * (n - 1) + [3]), bytes([0x80] + [0] * (n - 1))]
            for pos in range(min(n, 8)):
                kk = bytearray(n); kk[pos] = 0xff
                keys.append(bytes(kk))
            seen = set()
            for key in keys:
                if key in seen:
                    continue
                seen.add(key)
                r.states += len(datas)
                for d in datas:
                    xor_case(key, d, r)
        r.sample({"key_lengths": [unit["from"], unit["to"] - 1], "data_strings": len(datas)})
    elif k == "xorctx":
        import construct as C
        datas = sigma(3) + ramps(8)
        for key in (0, 5, 255, b"\x00", b"\x07", b"\x01\x02", b"\x00\x00\x00", bytes(65), bytes(64) + b"\x01"):
            r.states += len(datas)
            for d in datas:
                xor_case(key, d, r, via_ctx=True)
        # wrong key types are StringError; structured inner construct sees the decoded bytes
        for key in ("s", 1.5, None, [1]):
            res = tryex(lambda: C.ProcessXor(key, C.GreedyBytes).parse(b"ab"))
            res2 = tryex(lambda: C.ProcessXor(key, C.GreedyBytes).build(b"ab"))
            r.case(key=("badkey", repr(key)), outcome="badkey", validated=1)
            for nm, x in (("parse", res), ("build", res2)):
                if x[:2] != ("exc", "StringError"):
                    r.violation("C15/xor/bad-key-type", {"t": "xorbad", "key": repr(key)}, "%s with key %r: %r (expected StringError)" % (nm, key, x))
        d = C.ProcessXor(0x20, C.Struct("a" / C.Int16ub, "rest" / C.GreedyBytes))
        for data in sigma(3):
            if len(data) >= 2:
                got = d.parse(data)
                dec = ref_xor(data, 0x20)
                r.case(key=("xs", data), outcome="ok", validated=1)
                if got.a != int.from_bytes(dec[:2], "big") or got.rest != dec[2:] or d.build(dict(a=got.a, rest=got.rest)) != data:
                    r.violation("C15/xor/struct-inner", {"t": "xorstruct", "data": data}, "inner struct sees %r for %s" % (got, data.hex()))
        r.sample({"ctx_keys": 9})
    elif k == "rot":
        g = unit["group"]
        datas = rot_data(g)
        for a in range(unit["from"], unit["to"]):
            r.states += len(datas)
            for d in datas:
                rot_case(a, g, d, r)
        r.sample({"group": g, "amounts": [unit["from"], unit["to"] - 1], "data_strings": len(datas)})
    elif k == "rotextra":
        for g in (1, 2, 3, 8):
            for a in (65, -65, 129, -129, 1000, -1000, 8 * g, -8 * g, 8 * g + 1):
                for d in rot_data(g)[:12]:
                    r.states += 1
                    rot_case(a, g, d, r)
                    rot_case(a, g, d, r, via_ctx=True)
        for g in (0, -1):
            for d in (b"", b"ab"):
                r.states += 1
                rot_case(3, g, d, r)
        r.sample({"extra_amounts": [65, -65, 129, -129, 1000, -1000]})
    elif k == "swap":
        run_swap(r)
    elif k == "codec":
        run_codec(unit["encoding"], tier, r)
    return r


def rot_data(g):
    pats = [bytes(g), bytes([1] * g), bytes([0x80] * g), bytes([0xff] * g), bytes((i * 37 + 11) % 256 for i in range(g)),
            bytes([0x80] + [0] * (g - 1)), bytes([0] * (g - 1) + [1]), bytes((0xa5, 0x5a) * g)[:g]]
    out = [b""]
    seen = set()
    for p in pats:
        if p not in seen:
            seen.add(p)
            out.append(p)
    u = [p for p in out if p][:4]
    for p, q in itertools.product(u, repeat=2):
        out.append(p + q)
    # lengths that are not a multiple of the group must be rejected
    for rem in range(1, g):
        out.append(bytes(range(1, rem + 1)))
        out.append(bytes(g) + bytes(range(1, rem + 1)))
    return out


def run_swap(r):
    import construct as C
    def chk(name, d, data, want_value, want_build_of=None):
        r.states += 1
        got = tryex(lambda: d.parse(data))
        ok = got == ("ok", want_value)
        r.case(key=(name, data), outcome="ok", transitions=2, validated=2)
        if not ok:
            r.violation("C15/swap/%s/parse-differs" % name, {"t": "swap", "name": name, "data": data}, "parse(%s) = %r, definition %r" % (data.hex(), got, want_value))
            return
        b = tryex(lambda: d.build(want_value))
        if b != ("ok", data):
            r.violation("C15/swap/%s/build-differs" % name, {"t": "swap", "name": name, "data": data}, "build(%r) = %r, expected %s" % (want_value, b, data.hex()))
    for n in range(1, 17):
        for data in [bytes((i * 37 + 11) % 256 for i in range(n)), bytes(range(1, n + 1)), bytes([0x80] + [0] * (n - 1)), bytes([0] * (n - 1) + [1])]:
            chk("ByteSwapped(Bytes)", C.ByteSwapped(C.Bytes(n)), data, data[::-1])
            chk("BitsSwapped(Bytes)", C.BitsSwapped(C.Bytes(n)), data, ref_bitrev(data))
            chk("ByteSwapped(BytesInteger)", C.ByteSwapped(C.BytesInteger(n)), data, int.from_bytes(data, "little"))
            # every combination of the inner field's own parameters: the wrapper reverses the bytes, nothing else
            for signed in (False, True):
                for inner_swapped in (False, True):
                    chk("ByteSwapped(BytesInteger signed=%s swapped=%s)" % (signed, inner_swapped), C.ByteSwapped(C.BytesInteger(n, signed=signed, swapped=inner_swapped)), data,
                        int.from_bytes(data, "big" if inner_swapped else "little", signed=signed))
            if n == 3:
                for nm, order in (("Int24sb", "little"), ("Int24sl", "big"), ("Int24ub", "little"), ("Int24ul", "big")):
                    chk("ByteSwapped(%s)" % nm, C.ByteSwapped(getattr(C, nm)), data, int.from_bytes(data, order, signed=nm[5] == "s"))
            chk("BitsSwapped(BytesInteger)", C.BitsSwapped(C.BytesInteger(n, signed=True)), data, int.from_bytes(ref_bitrev(data), "big", signed=True))
    for data in sigma(4):
        if len(data) == 4:
            chk("ByteSwapped(Int32ub)", C.ByteSwapped(C.Int32ub), data, int.from_bytes(data, "little"))
            chk("ByteSwapped(Int32sl)", C.ByteSwapped(C.Int32sl), data, int.from_bytes(data, "big", signed=True))
        if len(data) == 3:
            st = C.Struct("a" / C.Byte, "b" / C.Int16ub)
            rev = data[::-1]
            chk("ByteSwapped(Struct)", C.ByteSwapped(st), data, C.Container(a=rev[0], b=int.from_bytes(rev[1:], "big")))
            bst = C.BitsSwapped(st)
            br = ref_bitrev(data)
            chk("BitsSwapped(Struct)", bst, data, C.Container(a=br[0], b=int.from_bytes(br[1:], "big")))
        # unsized: streaming implementation
        d = C.BitsSwapped(C.GreedyBytes)
        if not isinstance(d, C.Restreamed):
            raise RuntimeError("harness: BitsSwapped(GreedyBytes) expected to stream")
        chk("BitsSwapped(GreedyBytes)", d, data, ref_bitrev(data))
        if data:
            d2 = C.BitsSwapped(C.Struct("n" / C.VarInt, "rest" / C.GreedyBytes))
            br = ref_bitrev(data)
            try:
                want = C.Struct("n" / C.VarInt, "rest" / C.GreedyBytes).parse(br)
            except C.ConstructError:
                want = None
            if want is not None:
                got = tryex(lambda: d2.parse(data))
                r.states += 1
                r.case(key=("bsv", data), outcome="ok", validated=1)
                if got[0] != "ok" or got[1].n != want.n or got[1].rest != want.rest:
                    r.violation("C15/swap/BitsSwapped(unsized struct)/parse-differs", {"t": "swap", "name": "bsv", "data": data}, "%r vs %r" % (got, want))
    # docstring example
    d = C.BitsSwapped(C.Bitwise(C.Bytes(8)))
    if d.parse(b"\x01") != b"\x01\x00\x00\x00\x00\x00\x00\x00":
        r.violation("C15/swap/docstring-example", {"t": "swap", "name": "doc", "data": b"\x01"}, repr(d.parse(b"\x01")))
    r.sample({"sizes": "1..16", "wrappers": ["ByteSwapped", "BitsSwapped"], "inner": ["Bytes", "BytesInteger", "Int32", "Struct", "GreedyBytes (streaming)"]})


CODECS = {"zlib": zlib, "gzip": gzip, "bzip2": bz2, "lzma": lzma}


def R_leb(n):
    out = bytearray()
    while True:
        b = n & 0x7f
        n >>= 7
        out.append(b | (0x80 if n else 0))
        if not n:
            return bytes(out)


def run_codec(enc, tier, r):
    import construct as C
    lib = CODECS[enc]
    datas = sigma(3 if enc in ("lzma", "bzip2") or tier == "quick" else 4) + [bytes(n) for n in range(0, 65, 4)] + [bytes(i % 251 for i in range(300))]
    for level in (None, 0, 1, 5, 9):
        d = C.Compressed(C.GreedyBytes, enc, level=level)
        p = C.Prefixed(C.VarInt, C.Compressed(C.GreedyBytes, enc, level=level))
        st = C.Compressed(C.Struct("a" / C.Byte, "rest" / C.GreedyBytes), enc, level=level)
        for data in datas:
            r.states += 1
            case = {"t": "codec", "encoding": enc, "level": level, "data": data}
            built = tryex(lambda: d.build(data))
            r.case(nontrivial=bool(data), outcome="ok", transitions=4, validated=4)
            codec = tryex(lambda: lib.compress(data) if (level is None or enc == "lzma") else lib.compress(data, level))
            if codec[0] != "ok":
                # the codec itself refuses the level (bzip2 has no level 0): build must not invent an output
                if built[0] == "ok":
                    r.violation("C15/codec/%s/build-accepts-level-the-codec-refuses" % enc, case, "%s.compress(data, %r) raises %r, build returned %d bytes" % (enc, level, codec, len(built[1])))
                continue
            if built[0] != "ok":
                r.violation("C15/codec/%s/build-raised" % enc, case, repr(built)); continue
            dec = tryex(lambda: lib.decompress(built[1]))
            if dec != ("ok", data):
                r.violation("C15/codec/%s/build-not-codec-output" % enc, case, "%s.decompress(build(v)) = %r, v = %r" % (enc, dec, data)); continue
            if enc == "gzip":
                # the gzip header carries a timestamp (bytes 4..7); everything else is a function of data and level
                mask = lambda b: b[:4] + bytes(4) + b[8:]
                if mask(built[1]) != mask(codec[1]):
                    r.violation("C15/codec/%s/build-differs" % enc, case, "build != %s.compress(data, level=%r) (timestamp ignored)" % (enc, level))
            else:
                want = codec[1]
                if built[1] != want:
                    r.violation("C15/codec/%s/build-differs" % enc, case, "build != %s.compress(data, level=%r)" % (enc, level))
            ext = lib.compress(data)
            got = tryex(lambda: d.parse(ext))
            if got != ("ok", data):
                r.violation("C15/codec/%s/parse-differs" % enc, case, "parse(compress(v)) = %r" % (got,))
            got = tryex(lambda: d.parse(built[1]))
            if got != ("ok", data):
                r.violation("C15/codec/%s/roundtrip-differs" % enc, case, "parse(build(v)) = %r" % (got,))
            pb = tryex(lambda: p.build(data))
            if pb[0] != "ok" or tryex(lambda: p.parse(pb[1] + b"trailing")) != ("ok", data):
                r.violation("C15/codec/%s/prefixed-roundtrip" % enc, case, repr(pb)[:200])
            if data:
                sb = tryex(lambda: st.build(dict(a=data[0], rest=data[1:])))
                if sb[0] != "ok" or tryex(lambda: lib.decompress(sb[1])) != ("ok", data):
                    r.violation("C15/codec/%s/struct-inner" % enc, case, repr(sb)[:200])
    # streams of several concatenated members (cat a.gz b.gz, pbzip2, multi-stream xz): the codec's own decompress() defines the result
    d = C.Compressed(C.GreedyBytes, enc)
    p = C.Struct("z" / C.Prefixed(C.VarInt, C.Compressed(C.GreedyBytes, enc)), "t" / C.Byte)
    parts = [b"", b"a", b"hello world " * 20, bytes(range(256)) * 3, bytes(5000)]
    for members in itertools.chain(itertools.product(parts, repeat=2), [tuple(parts[1:]), (parts[2],) * 5]):
        ext = b"".join(lib.compress(m) for m in members)
        want = tryex(lambda: lib.decompress(ext))
        got = tryex(lambda: bytes(d.parse(ext)))
        r.states += 1
        r.case(nontrivial=True, outcome="multi-member", transitions=2, validated=1)
        case = {"t": "codec", "encoding": enc, "level": None, "data": b"", "members": [len(m) for m in members]}
        if want[0] == "ok" and got != want:
            r.violation("C15/codec/%s/multi-member-differs" % enc, case, "%d concatenated members (%s bytes): parse gives %r..., %s.decompress gives %d bytes" % (
                len(members), [len(m) for m in members], (got[1][:20] if got[0] == "ok" else got), enc, len(want[1])))
        elif want[0] != "ok" and got[0] == "ok":
            r.violation("C15/codec/%s/multi-member-accepted" % enc, case, "parse accepts what %s.decompress refuses (%s)" % (enc, want[1]))
        if want[0] == "ok":
            msg = R_leb(len(ext)) + ext + b"\x07"
            got2 = tryex(lambda: (lambda o: (bytes(o.z), o.t))(p.parse(msg)))
            if got2 != ("ok", (want[1], 7)):
                r.violation("C15/codec/%s/multi-member-differs" % enc, dict(case, prefixed=True), "inside Prefixed: %r" % (got2[:1],))
    r.sample({"encoding": enc, "levels": [None, 0, 1, 5, 9], "data_strings": len(datas), "multi_member_streams": 27})


def replay(case):
    t = case["t"]
    if t == "xor":
        return xor_case(case["key"], case["data"], None, case.get("ctx", False))
    if t == "swaplong":
        return run_unit({"kind": "scale-rot"}, "quick").violations
    if t == "placed":
        return placed_case(case["name"], case["data"], case["hdr"])
    if t == "rot":
        return rot_case(case["amount"], case["group"], case["data"], None, case.get("ctx", False))
    r = UnitResult()
    if t == "swap":
        run_swap(r)
    elif t == "codec":
        run_codec(case["encoding"], "quick", r)
    else:
        return run_unit({"kind": "xorctx"}, "quick").violations
    return r.violations
