"""C20 - result containers and display helpers are faithful.

Explicit-state BFS over Container operation histories against a plain-dict
reference model; copy / deepcopy / pickle / constructor copies are taken in
every reached state and checked for equality, view coherence, independence and
equal one-step futures; equality laws over all pairs / triples of a generated
container family; search/search_all against a reference DFS; hexundump(hexdump).
"""
import copy, pickle, itertools, re
from ..engine import UnitResult, jkey, h64

INFO = {
    "rule": "BFS over histories of container operations (set/setattr/del/delattr/update x3/pop/popitem/clear/nested set) from "
            "the empty container, state = canonical ordered nested items of the reference dict, deduplicated; in every state "
            "all views are compared with the reference, 6 copy operators are applied and every copy is checked (equal, same "
            "views and types, independent at top level / every depth, equal one-step futures); equality laws on all pairs and "
            "all triples of a generated family; search on every family member x 5 patterns; hexundump(hexdump(b,n),n) for all "
            "byte strings of the alphabet x line sizes. non-trivial = a state/pair/string on which the compared observation was "
            "actually produced by the implementation",
    "bounds": {"quick": {"history_depth": 3, "keys": ["a", "b", "_p", "items", 1], "hex_len": 4},
               "thorough": {"history_depth": 3, "keys": ["a", "b", "_p", "items", 1, "keys", "update", "copy", "search"], "hex_len": 5,
                            "deep": "additionally depth 4 over keys a,_p,items and values 0, Container(x=0), ListContainer of containers"}},
    "trusted_base": ["CPython dict/list as reference model", "pickle and copy modules (they define what a copy is)"],
    "assumptions": ["nested dict-likes are Container/ListContainer (what parsing produces); plain lists only hold scalars",
                    "None is not used as a value (search cannot distinguish a None match from no match)"],
}

# value descriptors -------------------------------------------------------------------
V_SCALARS = [0, 1, "s"]
V_LIST = ["L", [1, 2]]
V_C0 = ["C", []]
V_C1 = ["C", [["x", 0]]]
V_C2 = ["C", [["x", 0], ["_q", 5]]]
V_CC = ["C", [["n", ["C", [["y", 1]]]]]]
V_LC = ["LC", [["C", [["y", 1]]], ["C", [["_z", 2], ["y", 2]]]]]


def mk_real(d):
    import construct as C
    if isinstance(d, list):
        if d[0] == "L":
            return list(d[1])
        if d[0] == "C":
            c = C.Container()
            for k, v in d[1]:
                c[k] = mk_real(v)
            return c
        if d[0] == "LC":
            return C.ListContainer(mk_real(x) for x in d[1])
    return d


def mk_ref(d):
    if isinstance(d, list):
        if d[0] == "L":
            return ("L", list(d[1]))
        if d[0] == "C":
            return {k: mk_ref(v) for k, v in d[1]}
        if d[0] == "LC":
            return ("LC", [mk_ref(x) for x in d[1]])
    return d


def nf_ref(r):
    if isinstance(r, dict):
        return ["C", [[k, nf_ref(v)] for k, v in r.items()]]
    if isinstance(r, tuple):
        return [r[0], [nf_ref(x) for x in r[1]]]
    return ["v", type(r).__name__, r]


def nf_real(o):
    """Normal form of a real object using dict-level access only (methods may be shadowed)."""
    import construct as C
    if type(o) is C.Container:
        return ["C", [[k, nf_real(v)] for k, v in dict.items(o)]]
    if type(o) is C.ListContainer:
        return ["LC", [nf_real(x) for x in o]]
    if type(o) is list:
        return ["L", [nf_real(x) for x in o]]
    if isinstance(o, dict):
        return ["dict!" + type(o).__name__, [[k, nf_real(v)] for k, v in dict.items(o)]]
    return ["v", type(o).__name__, o]


def strip(r):
    """reference equality normal form: drop '_' string keys, forget order, recursively"""
    if isinstance(r, dict):
        return ("C", frozenset((k if not isinstance(k, int) else ("int", k), strip(v)) for k, v in r.items()
                               if not (isinstance(k, str) and k.startswith("_"))))
    if isinstance(r, tuple):
        return ("list", tuple(strip(x) for x in r[1]))
    if r is None:
        return ("none",)
    return ("v", r) if not isinstance(r, bool) else ("v", int(r))


# events ------------------------------------------------------------------------------

SHADOW_NAMES = ["clear", "copy", "fromkeys", "get", "items", "keys", "pop", "popitem", "search", "search_all", "setdefault", "update", "values"]


def alphabet(tier, depth_left=None):
    if tier == "deep":
        return ["a", "_p", "items"], [0, V_C1, V_LC]
    if tier.startswith("shadow:"):
        # an entry named like a dict/Container method (the container's __dict__ is the container itself, so it shadows the method)
        return [tier.split(":", 1)[1], "a"], [0, V_C1]
    keys = INFO["bounds"][tier]["keys"]
    vals = [0, "s", V_LIST, V_C1, V_LC] if tier == "quick" else [0, 1, "s", V_LIST, V_C0, V_C2, V_CC, V_LC]
    return keys, vals


def enabled(ref, tier):
    keys, vals = alphabet(tier)
    ev = []
    for k in keys:
        for v in vals:
            ev.append(["set", k, v])
    for k in keys:
        if isinstance(k, str):
            ev.append(["setattr", k, 1])
            ev.append(["setattr", k, V_C1])
    for k in list(ref):
        ev.append(["del", k])
        ev.append(["pop", k])
        if isinstance(k, str):
            ev.append(["delattr", k])
    ev.append(["update_dict", [["b", 2], ["a", V_C1]]])
    ev.append(["update_pairs", [["_p", 0], ["a", "s"]]])
    ev.append(["update_kw", [["a", 0], ["items", 3]]])
    if ref:
        ev.append(["popitem"])
        ev.append(["clear"])
    for k, v in ref.items():
        if isinstance(v, dict):
            ev.append(["nested_set", k, "x", 7])
            ev.append(["nested_set", k, "_w", V_C0])
        if isinstance(v, tuple) and v[0] == "LC":
            ev.append(["nested_append", k, V_C1])
    return ev


PROBE_EVENTS = [["set", "a", 9], ["setattr", "b", 9], ["update_kw", [["zz", 1]]], ["popitem"], ["set", "_p", V_C1]]


def apply_real(c, ev):
    import construct as C
    k = ev[0]
    D = dict
    try:
        if k == "set":
            c[ev[1]] = mk_real(ev[2]); return None
        if k == "setattr":
            setattr(c, ev[1], mk_real(ev[2])); return None
        if k == "del":
            del c[ev[1]]; return None
        if k == "delattr":
            delattr(c, ev[1]); return None
        if k == "pop":
            return ("ret", nf_real(D.pop(c, ev[1])))
        if k == "popitem":
            kk, vv = D.popitem(c); return ("ret", [kk, nf_real(vv)])
        if k == "clear":
            D.clear(c); return None
        if k == "update_dict":
            C.Container.update(c, {a: mk_real(b) for a, b in ev[1]}); return None
        if k == "update_pairs":
            C.Container.update(c, [(a, mk_real(b)) for a, b in ev[1]]); return None
        if k == "update_kw":
            C.Container.update(c, **{a: mk_real(b) for a, b in ev[1]}); return None
        if k == "nested_set":
            c[ev[1]][ev[2]] = mk_real(ev[3]); return None
        if k == "nested_append":
            c[ev[1]].append(mk_real(ev[2])); return None
    except Exception as e:
        return ("exc", type(e).__name__)
    raise ValueError(ev)


def apply_ref(r, ev):
    k = ev[0]
    try:
        if k in ("set", "setattr"):
            r[ev[1]] = mk_ref(ev[2]); return None
        if k in ("del", "delattr"):
            del r[ev[1]]; return None
        if k == "pop":
            return ("ret", nf_ref(r.pop(ev[1])))
        if k == "popitem":
            kk, vv = r.popitem(); return ("ret", [kk, nf_ref(vv)])
        if k == "clear":
            r.clear(); return None
        if k in ("update_dict", "update_pairs", "update_kw"):
            r.update([(a, mk_ref(b)) for a, b in ev[1]]); return None
        if k == "nested_set":
            r[ev[1]][ev[2]] = mk_ref(ev[3]); return None
        if k == "nested_append":
            r[ev[1]][1].append(mk_ref(ev[2])); return None
    except Exception as e:
        return ("exc", type(e).__name__)
    raise ValueError(ev)


def build(hist):
    import construct as C
    c, r = C.Container(), {}
    for ev in hist:
        apply_real(c, ev)
        apply_ref(r, ev)
    return c, r


COPYOPS = ["method_copy", "copy.copy", "deepcopy", "pickle2", "pickle5", "ctor"]
DEEP = {"deepcopy", "pickle2", "pickle5"}


def do_copy(op, c):
    import construct as C
    if op == "method_copy":
        return C.Container.copy(c)
    if op == "copy.copy":
        return copy.copy(c)
    if op == "deepcopy":
        return copy.deepcopy(c)
    if op == "pickle2":
        return pickle.loads(pickle.dumps(c, 2))
    if op == "pickle5":
        return pickle.loads(pickle.dumps(c, 5))
    if op == "ctor":
        return C.Container(c)


def nested_paths(r, prefix=()):
    """paths to every nested mutable (dict or list) of the reference value"""
    out = []
    if isinstance(r, dict):
        for k, v in r.items():
            if isinstance(v, (dict, tuple)):
                out.append(prefix + (k,))
                out.extend(nested_paths(v, prefix + (k,)))
    elif isinstance(r, tuple):
        for i, v in enumerate(r[1]):
            if isinstance(v, (dict, tuple)):
                out.append(prefix + (i,))
                out.extend(nested_paths(v, prefix + (i,)))
    return out


def walk(o, path):
    for p in path:
        o = o[p]
    return o


def mutate(o):
    if isinstance(o, dict):
        dict.__setitem__(o, "MUT", 1)
    else:
        o.append("MUT")


def check_views(c, r, where):
    """-> list of (kind, detail) problems"""
    import construct as C
    bad = []
    want = nf_ref(r)
    got = nf_real(c)
    if got != want:
        bad.append(("views-differ", "%s: items %r, reference %r" % (where, got, want)))
        return bad
    if list(iter(c)) != list(r):
        bad.append(("iter-differs", "%s: iter %r vs %r" % (where, list(iter(c)), list(r))))
    if list(dict.keys(c)) != list(r) or len(c) != len(r):
        bad.append(("keys-differ", where))
    if [nf_real(v) for v in dict.values(c)] != [nf_ref(v) for v in r.values()]:
        bad.append(("values-differ", where))
    for k in r:
        if k not in c:
            bad.append(("contains-differs", "%s: %r not in container" % (where, k)))
        if isinstance(k, str) and k.isidentifier():
            try:
                a = getattr(c, k)
            except Exception as e:
                bad.append(("attribute-access-fails", "%s: getattr(c, %r) raised %s while c[%r] exists" % (where, k, type(e).__name__, k)))
                continue
            if a is not c[k]:
                bad.append(("attribute-differs-from-key", "%s: c.%s is %r, c[%r] is %r" % (where, k, a, k, c[k])))
    for k in ("nokey", "_no"):
        if k in c:
            bad.append(("contains-differs", "%s: %r reported present" % (where, k)))
        try:
            c[k]
            bad.append(("missing-key-no-error", where))
        except KeyError:
            pass
        try:
            getattr(c, k)
            bad.append(("missing-attr-no-error", where))
        except AttributeError:
            pass
    # attribute write is a key write
    return bad


def check_state(hist, tier, r_out, replay=False):
    """All invariants of one reached state.  Returns list of violation dicts."""
    out = []
    def bad(kind, detail, extra=None):
        case = {"history": hist}
        if extra:
            case.update(extra)
        out.append({"sig": "C20/" + kind, "case": case, "detail": detail})
    c, r = build(hist)
    for kind, detail in check_views(c, r, "original"):
        bad("orig/" + kind, detail)
    if out:
        return out
    if not (c == c) or (c != c):
        bad("eq/not-reflexive", "c == c is False for %r" % (nf_ref(r),))
    paths = nested_paths(r)
    for op in COPYOPS:
        c, r = build(hist)
        try:
            d = do_copy(op, c)
        except Exception as e:
            bad("%s/raised-%s" % (op, type(e).__name__), "%s of %r raised %r" % (op, nf_ref(r), e), {"copyop": op})
            continue
        import construct as C
        if type(d) is not C.Container:
            bad(op + "/wrong-type", "type %s" % type(d).__name__, {"copyop": op})
            continue
        if d is c:
            bad(op + "/same-object", "copy is the original", {"copyop": op})
        for kind, detail in check_views(d, r, op):
            bad("%s/%s" % (op, kind), detail, {"copyop": op})
        try:
            if not (d == c) or not (c == d) or (d != c):
                bad(op + "/not-equal-to-original", "copy %r != original %r" % (nf_real(d), nf_real(c)), {"copyop": op})
        except Exception as e:
            bad(op + "/eq-raised", repr(e), {"copyop": op})
        # attribute write coherence on the copy + top-level independence
        before = nf_real(c)
        try:
            d.attrw = 5
            if "attrw" not in d or dict.get(d, "attrw") != 5:
                bad(op + "/attribute-write-not-a-key", "d.attrw = 5 did not create key 'attrw': items %r" % (nf_real(d),), {"copyop": op})
            d["keyw"] = 6
            if getattr(d, "keyw", None) != 6:
                bad(op + "/key-write-not-an-attribute", "d['keyw'] = 6 but getattr gives %r" % (getattr(d, "keyw", None),), {"copyop": op})
            for k in list(dict.keys(d))[:1]:
                del d[k]
        except Exception as e:
            bad(op + "/mutation-raised-%s" % type(e).__name__, repr(e), {"copyop": op})
        if nf_real(c) != before:
            bad(op + "/top-level-shared", "mutating the copy changed the original: %r -> %r" % (before, nf_real(c)), {"copyop": op})
        c, r = build(hist)
        d = do_copy(op, c)
        before = nf_real(d)
        c["origw"] = 1
        for k in list(dict.keys(c))[:1]:
            del c[k]
        if nf_real(d) != before:
            bad(op + "/top-level-shared", "mutating the original changed the copy", {"copyop": op})
        # independence at every depth for deep copies
        if op in DEEP:
            for p in paths:
                for direction in (0, 1):
                    c, r = build(hist)
                    d = do_copy(op, c)
                    src, dst = (d, c) if direction == 0 else (c, d)
                    before = nf_real(dst)
                    mutate(walk(src, p))
                    if nf_real(dst) != before:
                        bad(op + "/nested-shared", "mutating %s at path %r changed the other object (%r)" %
                            ("copy" if direction == 0 else "original", list(p), nf_ref(r)), {"copyop": op, "path": list(p)})
                        break
        # equal one-step futures
        for ev in PROBE_EVENTS + [e for e in enabled(r, tier) if e[0] in ("nested_set", "nested_append", "delattr")][:3]:
            c, r = build(hist)
            d = do_copy(op, c)
            r2 = copy.deepcopy(r)
            ra = apply_real(d, ev)
            rb = apply_ref(r2, ev)
            if ra != rb or nf_real(d) != nf_ref(r2):
                bad(op + "/future-differs", "after %r on the copy: result %r items %r; reference result %r items %r" %
                    (ev, ra, nf_real(d), rb, nf_ref(r2)), {"copyop": op, "event": ev})
    return out


def units(tier):
    us = [{"kind": "bfs", "first": None}]
    for ev in enabled({}, tier):
        us.append({"kind": "bfs", "first": ev})
    if tier == "thorough":
        for ev in enabled({}, "deep"):
            us.append({"kind": "bfs", "first": ev, "alpha": "deep", "depth": 4})
    for name in SHADOW_NAMES:
        for ev in enabled({}, "shadow:" + name):
            if ev[0] in ("set", "setattr") and ev[1] == name:
                us.append({"kind": "bfs", "first": ev, "alpha": "shadow:" + name, "depth": 2})
    us.append({"kind": "laws"})
    us.append({"kind": "leaves"})
    us.append({"kind": "search"})
    n = INFO["bounds"][tier]["hex_len"]
    for ls in list(range(1, 21)) + [32]:
        us.append({"kind": "hex", "linesize": ls, "maxlen": n})
    us.append({"kind": "hexbig"})
    return us


def run_unit(unit, tier):
    r = UnitResult()
    k = unit["kind"]
    if k == "bfs":
        run_bfs(unit, tier, r)
    elif k == "laws":
        run_laws(tier, r)
    elif k == "leaves":
        run_leaves(tier, r)
    elif k == "search":
        run_search(tier, r)
    elif k == "hex":
        run_hex(unit, r)
    elif k == "hexbig":
        run_hexbig(r)
    return r


def run_bfs(unit, tier, r):
    depth = unit.get("depth") or INFO["bounds"][tier]["history_depth"]
    tier = unit.get("alpha", tier)
    r.export_states = True
    first = unit["first"]
    if first is None:
        hists = [[]]
        maxd = 0
    else:
        hists = [[first]]
        maxd = depth
    seen = set()
    frontier = list(hists)
    while frontier:
        nxt = []
        for hist in frontier:
            c, ref = build(hist)
            key = jkey(nf_ref(ref))
            if key in seen:
                continue
            seen.add(key)
            r.state("S" + key)
            vs = check_state(hist, tier, r)
            for v in vs:
                r.violation(v["sig"], v["case"], v["detail"])
            r.case(nontrivial=bool(ref), outcome="state-ok" if not vs else "state-bad", transitions=0, validated=1)
            r.extra["copies_checked"] += len(COPYOPS)
            if len(r.samples) < 2 and len(hist) >= 2:
                r.sample({"history": hist, "state": nf_ref(ref)})
            if len(hist) < maxd:
                for ev in enabled(ref, tier):
                    # transition: result and successor compared with the reference
                    c2, ref2 = build(hist)
                    ra = apply_real(c2, ev)
                    rb = apply_ref(ref2, ev)
                    r.transitions += 1
                    if ra != rb or nf_real(c2) != nf_ref(ref2):
                        r.violation("C20/transition/" + ev[0], {"history": hist + [ev]},
                                    "event %r from %r: result %r items %r, reference %r %r" % (ev, nf_ref(ref), ra, nf_real(c2), rb, nf_ref(ref2)))
                    nxt.append(hist + [ev])
        frontier = nxt


# ------------------------------------------------------------------------ equality laws

def family(tier):
    keys = ["a", "b", "_p", 1]
    vals = [0, 1, "s", None, V_C0, V_C1, V_C2, ["C", [["x", 1]]], ["LC", [["C", [["y", 1]]]]], ["LC", [["C", [["y", 1], ["_z", 2]]]]], V_LIST,
            ["C", [["x", None]]], False, ""]
    # lists that are prefixes of one another (plain and of containers), and the empty ones
    vals = vals[:8] + [["L", []], ["L", [1]], ["L", [1, 2, 3]], ["LC", []], ["LC", [["C", [["y", 1]]], ["C", [["y", 1]]]]]] + vals[8:]
    if tier == "thorough":
        vals = vals + [V_CC, ["C", [["n", ["C", [["y", 1], ["_h", 0]]]]]], True]
    fam = [["C", []]]
    for k in keys:
        for v in vals:
            fam.append(["C", [[k, v]]])
    for k1, k2 in itertools.permutations(keys, 2):
        for v1, v2 in itertools.product(vals[:8] if tier == "quick" else vals[:15], repeat=2):
            fam.append(["C", [[k1, v1], [k2, v2]]])
    return fam


def run_laws(tier, r):
    fam = family(tier)
    objs = [(d, mk_real(d), mk_ref(d)) for d in fam]
    stripped = [strip(x[2]) for x in objs]
    n = len(objs)
    for i in range(n):
        di, ci, ri = objs[i]
        r.state("L" + jkey(di))
        plain_i = _plain(ri)
        for j in range(n):
            dj, cj, rj = objs[j]
            want = stripped[i] == stripped[j]
            try:
                got = (ci == cj)
                ne = (ci != cj)
                got_rev = (cj == ci)
                got_plain = (ci == _plain(rj))
                got_plain_rev = (_plain(rj) == ci)
            except Exception as e:
                r.violation("C20/eq/raised-" + type(e).__name__, {"x": di, "y": dj}, repr(e))
                continue
            r.case(nontrivial=True, outcome="eq" if want else "ne", validated=1)
            if got != want:
                r.violation("C20/eq/disagrees-with-reference", {"x": di, "y": dj}, "%r == %r is %r, reference %r" % (nf_ref(ri), nf_ref(rj), got, want))
            if got != got_rev:
                r.violation("C20/eq/not-symmetric", {"x": di, "y": dj}, "x==y %r, y==x %r" % (got, got_rev))
            if ne == got:
                r.violation("C20/eq/ne-not-negation", {"x": di, "y": dj}, "== %r, != %r" % (got, ne))
            if got_plain != want or got_plain_rev != want:
                r.violation("C20/eq/disagrees-with-plain-dict", {"x": di, "y": dj},
                            "Container == dict %r, dict == Container %r, reference %r" % (got_plain, got_plain_rev, want))
    # transitivity on all triples of a core (by construction of == from a normal form it can only fail if == is wrong)
    core = list(range(0, n, max(1, n // (60 if tier == "quick" else 120))))
    for i in core:
        for j in core:
            if not objs[i][1] == objs[j][1]:
                continue
            for k in core:
                r.evals += 1
                if objs[j][1] == objs[k][1] and not objs[i][1] == objs[k][1]:
                    r.violation("C20/eq/not-transitive", {"x": objs[i][0], "y": objs[j][0], "z": objs[k][0]}, "x==y, y==z, x!=z")
    # ListContainer equals the list of its elements
    import construct as C
    for xs in ([], [1], [1, 2, "s"], [[1], [2]]):
        r.case(key=("lc", repr(xs)), outcome="lc", validated=1)
        if not (C.ListContainer(xs) == xs and xs == C.ListContainer(xs) and list(C.ListContainer(xs)) == xs):
            r.violation("C20/listcontainer-eq", {"list": xs}, "ListContainer(%r) != list" % (xs,))
    r.sample({"family_size": n, "example": fam[len(fam) // 2], "pairs": n * n, "triples_core": len(core)})


def _plain(ref):
    """plain dict/list version of a reference value (nested dict-likes stay Containers: plain nested
    dicts inside a Container compare with dict semantics and are outside the property)"""
    import construct as C
    if isinstance(ref, dict):
        return {k: _real_from_ref(v) for k, v in ref.items()}
    return ref


def _real_from_ref(ref):
    import construct as C
    if isinstance(ref, dict):
        c = C.Container()
        for k, v in ref.items():
            c[k] = _real_from_ref(v)
        return c
    if isinstance(ref, tuple):
        xs = [_real_from_ref(x) for x in ref[1]]
        return C.ListContainer(xs) if ref[0] == "LC" else xs
    return ref


# ------------------------------------------------------------------------------ search

S_FAMILY = [
    ["C", [["a", 1], ["ab", 2], ["b", 3]]],
    ["C", [["ab1", 0x21], ["ab2", 0x22], ["nested", ["C", [["ab3", 2], ["x", 5]]]], ["lst", ["LC", [["C", [["ab4", 2]]], ["C", [["a", 9]]]]]]]],
    ["C", [["n", ["C", [["n", ["C", [["a", 1]]]], ["a", 2]]]], ["a", 3]]],
    ["C", [["_a", 1], ["a_", 2], [1, 3], ["A", 4]]],
    ["C", []],
    ["C", [["lst", ["LC", []]], ["a", ["L", [1, 2]]], ["b", "s"]]],
    ["C", [["lst", ["LC", [["LC", [["C", [["a", 7]]]]], ["C", [["a", 8]]]]]]]],
    ["C", [["lst", ["LC", [["C", [["a", 0]]], ["C", [["a", 5]]]]]]]],
    ["C", [["lst", ["LC", [["C", [["a", ""]]], ["C", [["a", 5]]]]]], ["a", 6]]],
    ["C", [["n", ["C", [["a", 0]]]], ["a", 3]]],
    ["C", [["lst", ["LC", [["LC", [["C", [["a", False]]]]], ["C", [["a", 1]]]]]]]],
    ["C", [["a", 0], ["b", ["C", [["a", 1]]]]]],
]
# keys spelled like the containers' own methods (public and private), at top level, in a nested container and in a listed one:
# an entry never stands in for a method (search must still descend and still report it)
for _nm in SHADOW_NAMES + ["_search", "__class__"]:
    S_FAMILY.append(["C", [["a", 1], ["sub", ["C", [["x", "v"], [_nm, "s"]]]], ["lst", ["LC", [["C", [[_nm, 4], ["a", 5]]]]]], [_nm, 2], ["z", 3]]])
S_PATTERNS = ["a", "ab.*", "^$", "x", "a$", ".*", "[ab]", "n", "_?search.*"]


def ref_search_all(ref, pat):
    out = []
    if isinstance(ref, dict):
        for k, v in ref.items():
            if isinstance(v, dict) or (isinstance(v, tuple) and v[0] == "LC"):
                out.extend(ref_search_all(v, pat))
            elif isinstance(k, str) and pat.match(k):
                out.append(nf_ref(v))
    elif isinstance(ref, tuple) and ref[0] == "LC":
        for v in ref[1]:
            if isinstance(v, dict) or (isinstance(v, tuple) and v[0] == "LC"):
                out.extend(ref_search_all(v, pat))
    return out


def run_search(tier, r):
    import construct as C
    for d in S_FAMILY + [x for x in family("quick")[:80] if "None" not in repr(x)]:    # search() cannot tell a None value from "no match"
        c, ref = mk_real(d), mk_ref(d)
        r.state("Q" + jkey(d))
        for p in S_PATTERNS:
            want = ref_search_all(ref, re.compile(p))
            try:
                got = [nf_real(x) for x in C.Container.search_all(c, p)]
                one = C.Container.search(c, p)
            except Exception as e:
                r.violation("C20/search/raised-" + type(e).__name__, {"container": d, "pattern": p}, repr(e))
                continue
            r.case(key=("s", jkey(d), p), nontrivial=bool(want), outcome="match" if want else "nomatch", validated=1)
            if got != want:
                r.violation("C20/search_all/differs", {"container": d, "pattern": p}, "search_all(%r) on %r: %r, reference %r" % (p, d, got, want))
            w1 = want[0] if want else None
            g1 = nf_real(one) if one is not None else None
            if g1 != w1:
                r.violation("C20/search/differs", {"container": d, "pattern": p}, "search(%r) on %r: %r, reference %r" % (p, d, g1, w1))
    # on ListContainer directly
    lc = mk_real(V_LC)
    got = [nf_real(x) for x in lc.search_all("y")]
    if got != [nf_ref(1), nf_ref(2)]:
        r.violation("C20/search_all/listcontainer", {"container": V_LC, "pattern": "y"}, repr(got))
    r.sample({"containers": len(S_FAMILY) + 60, "patterns": S_PATTERNS})


# --------------------------------------------------------------------------------- hex

SIGMA6 = [0x00, 0x01, 0x02, 0x7f, 0x80, 0xff]


def hex_inputs(maxlen):
    for n in range(maxlen + 1):
        for t in itertools.product(SIGMA6, repeat=n):
            yield bytes(t)
    for b in range(256):
        yield bytes([b])
        yield bytes([0x20, b, 0x0a])
    for n in range(41):
        yield bytes(range(n))
        yield bytes((0x20 + i) % 256 for i in range(n))
        yield b"\n" * n
        yield b" " * n


def check_hex(data, ls):
    import construct.lib as L
    try:
        txt = L.hexdump(data, ls)
        back = L.hexundump(txt, ls)
    except Exception as e:
        return [{"sig": "C20/hex/raised-" + type(e).__name__, "case": {"data": data, "linesize": ls}, "detail": repr(e)}]
    if back != data:
        return [{"sig": "C20/hex/roundtrip-differs", "case": {"data": data, "linesize": ls},
                 "detail": "hexundump(hexdump(%r, %d)) = %r" % (data, ls, back)}]
    return []


def run_hex(unit, r):
    ls = unit["linesize"]
    seen = set()
    for data in hex_inputs(unit["maxlen"]):
        if data in seen:
            continue
        seen.add(data)
        r.states += 1
        vs = check_hex(data, ls)
        r.case(nontrivial=len(data) > 0, outcome="multi-line" if len(data) > ls else "one-line", validated=1)
        for v in vs:
            r.violation(v["sig"], v["case"], v["detail"])
    r.sample({"linesize": ls, "strings": len(seen)})


class Record:
    """an ordinary (hashable, mutable) object as an adapter may return it"""
    def __init__(self, v):
        self.v = v
    def __eq__(self, other):
        return isinstance(other, Record) and self.v == other.v
    def __hash__(self):
        return 7


def run_leaves(tier, r):
    """deep copies are independent at every depth whatever the leaves are: mutable values that are neither dict nor list
    (bytearray, set, array, an ordinary object, a tuple holding a list or an object, an open stream under _io) placed at
    depth 1..3 below Container / ListContainer / list nodes; identity and mutation are both checked"""
    import construct as C, array, io
    def leaves():
        return [("bytearray", bytearray(b"ab"), lambda x: x.append(1)), ("set", {1, 2}, lambda x: x.add(9)), ("array", array.array("B", [1, 2]), lambda x: x.append(3)),
                ("record", Record([1]), lambda x: x.v.append(2)), ("tuple-of-list", ([1], 2), lambda x: x[0].append(9)), ("tuple-of-record", (Record(1),), lambda x: setattr(x[0], "v", 5)),
                ("list", [1, 2], lambda x: x.append(3)), ("dict", {"k": 1}, lambda x: x.update(z=1)), ("frozen", (1, "a", b"b"), None)]
    def placements(leaf):
        yield "top", C.Container(a=1, x=leaf), lambda o: o["x"]
        yield "private-key", C.Container(a=1, _x=leaf), lambda o: o["_x"]
        yield "nested", C.Container(a=C.Container(b=C.Container(x=leaf))), lambda o: o["a"]["b"]["x"]
        yield "in-listcontainer", C.Container(a=C.ListContainer([C.Container(x=leaf), 5])), lambda o: o["a"][0]["x"]
        yield "in-list", C.Container(a=[0, [leaf]]), lambda o: o["a"][1][0]
        yield "listcontainer-top", C.ListContainer([1, leaf]), lambda o: o[1]
    for op in ("deepcopy", "pickle2", "pickle5"):
        for lname, _, _ in leaves():
            for i in range(6):
                leaf, mut = [(l, m) for n, l, m in leaves() if n == lname][0]
                pname, obj, get = list(placements(leaf))[i]
                r.states += 1
                case = {"leaves": [op, lname, pname]}
                try:
                    cp = do_copy(op, obj) if not isinstance(obj, list) or isinstance(obj, dict) else (copy.deepcopy(obj) if op == "deepcopy" else pickle.loads(pickle.dumps(obj, 2 if op == "pickle2" else 5)))
                except Exception as e:
                    r.violation("C20/%s/raised-%s" % (op, type(e).__name__), case, "copying a container holding a %s (%s) raised %r" % (lname, pname, e))
                    continue
                r.case(nontrivial=True, outcome="leaf-copy", transitions=2, validated=1)
                a, b = get(obj), get(cp)
                if not (a == b) or type(a) is not type(b):
                    r.violation("C20/%s/leaf-value-differs" % op, case, "%s at %s: original %r, copy %r" % (lname, pname, a, b))
                    continue
                if mut is not None:
                    if a is b:
                        r.violation("C20/%s/leaf-shared" % op, case, "%s at %s: the copy holds the very same object as the original" % (lname, pname))
                        continue
                    before = copy.deepcopy(a) if lname != "record" and "record" not in lname else repr(getattr(a, "v", a))
                    mut(b)
                    after = a if lname != "record" and "record" not in lname else repr(getattr(a, "v", a))
                    if after != before:
                        r.violation("C20/%s/leaf-shared" % op, case, "%s at %s: mutating the copy changed the original (%r)" % (lname, pname, a))
    # a parsed Struct result carries its stream under _io: deepcopy is documented to work on parsed containers
    d = C.Struct("a" / C.Byte, "b" / C.Array(2, C.Byte))
    obj = d.parse(b"\x01\x02\x03")
    r.states += 1
    try:
        cp = copy.deepcopy(obj)
        r.case(key=("leaves", "parsed"), nontrivial=True, outcome="leaf-copy", validated=1)
        if not (cp == obj) or cp["b"] is obj["b"]:
            r.violation("C20/deepcopy/parsed-container", {"leaves": ["deepcopy", "parsed", "struct"]}, "deepcopy of a parsed Struct result: %r vs %r" % (cp, obj))
        elif cp.get("_io") is not None and cp["_io"] is obj["_io"]:
            r.violation("C20/deepcopy/leaf-shared", {"leaves": ["deepcopy", "_io", "parsed"]}, "the copy of a parsed container shares the stream object _io with the original")
    except Exception as e:
        r.violation("C20/deepcopy/raised-%s" % type(e).__name__, {"leaves": ["deepcopy", "parsed", "struct"]}, "deepcopy of a parsed Struct result raised %r" % (e,))
    # many entries (size axis): order, equality, views and every copy on containers with n keys / elements, nested 3 deep
    from .. import scale
    for n in [x for x in scale.sizes(tier) if x <= 8193]:
        keys = ["k%d" % ((i * 7919) % n) for i in range(n)]                      # a permutation: insertion order != sorted order
        keys = list(dict.fromkeys(keys))
        big = C.Container()
        for i, k in enumerate(keys):
            big[k] = i if i % 5 else C.Container(v=i, _p=i)
        lc = C.ListContainer(C.Container(i=i, even=(i % 2 == 0)) for i in range(n))
        top = C.Container(a=big, b=lc, c=C.Container(z=C.ListContainer([big])))
        r.states += 1
        probs = []
        if list(big.keys()) != keys or [k for k in big] != keys or list(big.items()) != [(k, big[k]) for k in keys] or len(big) != len(keys):
            probs.append("keys/iteration/items of a %d-key container are not in insertion order" % len(keys))
        if any(getattr(big, k) is not big[k] for k in keys[::97]):
            probs.append("attribute and key access differ")
        other = C.Container()
        for k in reversed(keys):
            other[k] = big[k] if not isinstance(big[k], dict) else C.Container(v=big[k]["v"], _p=-1)
        if not (big == other and other == big) or big != other or not (big == dict(other)):
            probs.append("equality of two %d-key containers differing in insertion order and private entries only" % len(keys))
        other[keys[n // 2]] = "changed"
        if big == other or not (big != other):
            probs.append("containers differing in one of %d entries compare equal" % len(keys))
        if not (lc == list(lc)) or lc != [C.Container(i=i, even=(i % 2 == 0)) for i in range(n)]:
            probs.append("ListContainer of %d elements does not equal the list of its elements" % n)
        for op in COPYOPS:
            try:
                cp = do_copy(op, top)
            except Exception as e:
                probs.append("%s raised %r" % (op, e)); continue
            if not (cp == top) or list(cp["a"].keys()) != keys or type(cp["b"]) is not type(lc) or len(cp["b"]) != n:
                probs.append("%s of the %d-entry tree is not equal / ordered like the original" % (op, n))
            elif op in DEEP and (cp["a"] is big or cp["a"][keys[0]] is big[keys[0]] or cp["c"]["z"][0] is big):
                probs.append("%s shares nested nodes with the original" % op)
        try:
            hits = top.search_all("^even$")
            if len(hits) != n or hits[:4] != [True, False, True, False][:len(hits[:4])]:
                probs.append("search_all over %d elements returned %d matches" % (n, len(hits)))
            if top.search("^v$") != 0:
                probs.append("search returned %r instead of the first match in order" % (top.search("^v$"),))
        except Exception as e:
            probs.append("search raised %r" % (e,))
        r.case(nontrivial=True, outcome="many-ok" if not probs else "many-bad", transitions=12, validated=1)
        if probs:
            r.violation("C20/many-entries", {"leaves": ["many", n]}, "; ".join(probs[:4]))
    r.sample({"leaves": [n for n, _, _ in leaves()], "placements": 6, "copies": ["deepcopy", "pickle2", "pickle5"], "many_entries": [x for x in scale.sizes(tier) if x <= 8193]})


def run_hexbig(r):
    # the 8-digit offset format (len >= 16**4)
    for n in (65504, 65505, 65519, 65520, 65521, 65533, 16 ** 4 - 1, 16 ** 4, 16 ** 4 + 1, 16 ** 4 + 5, 65551, 65552, 131072 + 3):
        for ls in (1, 4, 7, 16, 17, 32):
            if ls == 1 and n > 65537:
                continue
            data = bytes((i * 7 + 3) % 256 for i in range(n))
            r.states += 1
            r.case(key=("big", n, ls), outcome="big", validated=1)
            for v in check_hex(data, ls):
                v["case"] = {"big": n, "linesize": ls}
                r.violation(v["sig"], v["case"], v["detail"][:300])
    r.sample({"lengths": "65504..65552 (13 lengths around 16**4) and 131075", "linesizes": [1, 4, 7, 16, 17, 32]})


def replay(case):
    if "leaves" in case:
        r = UnitResult(); run_leaves("quick", r)
        return [v for v in r.violations if v["case"] == case]
    if "history" in case:
        vs = check_state(case["history"], "thorough", None)
        if not vs:
            # a transition violation: re-run the last event
            hist = case["history"]
            if hist:
                c, ref = build(hist[:-1])
                ra, rb = apply_real(c, hist[-1]), apply_ref(ref, hist[-1])
                if ra != rb or nf_real(c) != nf_ref(ref):
                    vs = [{"sig": "C20/transition/" + hist[-1][0], "detail": "result %r vs %r" % (ra, rb)}]
        if "copyop" in case:
            vs = [v for v in vs if v["case"].get("copyop") == case["copyop"]] or vs
        return vs
    if "data" in case:
        return check_hex(case["data"], case["linesize"])
    if "big" in case:
        r = UnitResult(); run_hexbig(r); return r.violations
    if "pattern" in case or "x" in case or "list" in case:
        r = UnitResult()
        (run_search if "pattern" in case else run_laws)("thorough", r)
        return r.violations
    return []
