"""C14 - RawCopy reports the exact bytes processed; checksums built always verify."""
import io, os, itertools, hashlib, zlib
from ..engine import UnitResult, jkey, watchdog, Hang
from .. import terms as T
from .c03 import sigma, S6
from .c02 import strip_offsets

INFO = {
    "rule": "RawCopy(x) for x in {Byte, Int16ub, VarInt, Prefixed(Byte,GreedyBytes), Struct(n,Bytes(this.n)), Const, GreedyBytes, "
            "Array(2,VarInt), nested RawCopy} x placements (top level at start offsets 0/1/3, after a Struct header, inside Prefixed / "
            "FixedSized / NullTerminated substreams, twice in a row) x every payload over S6 up to length L: data == outer stream slice "
            "[offset1:offset2], length == offset2-offset1, x.parse(data) == value, build from value == build from data == the parsed "
            "slice for canonical input, empty data builds. Checksum with 5 hash/digest-field combinations over fixed and variable "
            "layouts: built messages verify, every single-bit flip (all 2-bit flips for crc/cryptographic digests over small regions in "
            "thorough) of covered bytes and digest raises ChecksumError (fixed layout) / is not accepted (variable layout). "
            "RawCopy fields reported in the build context (nested RawCopy, Tell; 0/1/3 leading bytes) against the parse of the built message; integer digests of 64 and 128 bits. non-trivial = RawCopy result fields compared / corrupted message judged; distinct = (shape, placement, payload or flip)",
    "bounds": {"quick": {"L": 4, "flips": 1}, "thorough": {"L": 5, "flips": 2}},
    "trusted_base": ["hashlib, zlib.crc32", "slice arithmetic on the input bytes"],
    "assumptions": ["sum-mod-256 is only required to detect single-bit flips"],
}

STARTS = [0, 1, 3]


def inners():
    import construct as C
    return {
        "Byte": lambda: C.Byte,
        "Int16ub": lambda: C.Int16ub,
        "VarInt": lambda: C.VarInt,
        "Prefixed": lambda: C.Prefixed(C.Byte, C.GreedyBytes),
        "CountedBytes": lambda: C.Struct("n" / C.Byte, "d" / C.Bytes(C.this.n)),
        "Const": lambda: C.Const(b"\x01\x02"),
        "GreedyBytes": lambda: C.GreedyBytes,
        "Array": lambda: C.Array(2, C.VarInt),
        "PascalString": lambda: C.PascalString(C.Byte, "utf8"),
        "RawCopy(VarInt)": lambda: C.RawCopy(C.VarInt),
        "Empty": lambda: C.Bytes(0),
    }


def placements():
    """name -> (wrap(rc) -> construct, extract(result) -> list of RawCopy results in stream order, plain)
    plain: the substream bytes are the outer stream bytes (so slice identity with the outer stream is claimed)"""
    import construct as C
    return {
        "top": (lambda rc: rc, lambda v: [v]),
        "after-header": (lambda rc: C.Struct("h" / C.Int16ub, "r" / rc, "t" / C.Tell), lambda v: [v["r"]]),
        "in-prefixed": (lambda rc: C.Struct("h" / C.Byte, "p" / C.Prefixed(C.Byte, C.Struct("r" / rc, "rest" / C.GreedyBytes))), lambda v: [v["p"]["r"]]),
        "in-fixedsized": (lambda rc: C.Struct("h" / C.Byte, "p" / C.FixedSized(4, C.Struct("r" / rc))), lambda v: [v["p"]["r"]]),
        "in-nullterminated": (lambda rc: C.Struct("h" / C.Byte, "p" / C.NullTerminated(C.Struct("r" / rc), term=b"\xff")), lambda v: [v["p"]["r"]]),
        "in-prefixed-prefixed": (lambda rc: C.Prefixed(C.Byte, C.Struct("x" / C.Byte, "q" / C.Prefixed(C.Byte, C.Struct("r" / rc)))), lambda v: [v["q"]["r"]]),
        "twice": (lambda rc: C.Struct("a" / rc, "b" / rc), lambda v: [v["a"], v["b"]]),
        "array": (lambda rc: C.Struct("h" / C.Byte, "xs" / C.Array(2, rc)), lambda v: list(v["xs"])),
        "greedyrange": (lambda rc: C.Struct("h" / C.Byte, "xs" / C.GreedyRange(rc)), lambda v: list(v["xs"])),
    }


def units(tier):
    us = []
    for i in inners():
        for p in placements():
            if i in ("GreedyBytes", "Empty") and p in ("twice", "array", "greedyrange"):
                continue
            us.append({"kind": "rawcopy", "inner": i, "placement": p})
    for name in checksum_shapes():
        us.append({"kind": "checksum", "shape": name})
    us.append({"kind": "build-data"})
    for i in inners():
        if i != "GreedyBytes":      # members follow the region
            us.append({"kind": "build-fields", "inner": i})
    from .. import scale
    for n in scale.sizes(tier):
        us.append({"kind": "scale", "size": n})
    return us


def rc_fields_ok(rc, outer, inner_con, kw=None):
    """-> list of problems for one RawCopy result against the outermost stream bytes"""
    bad = []
    try:
        data, value, o1, o2, ln = rc["data"], rc["value"], rc["offset1"], rc["offset2"], rc["length"]
    except Exception as e:
        return ["result lacks RawCopy fields: %r" % (e,)]
    if not (isinstance(o1, int) and isinstance(o2, int) and 0 <= o1 <= o2 <= len(outer)):
        bad.append("offsets %r..%r outside the stream of %d bytes" % (o1, o2, len(outer)))
    elif bytes(data) != outer[o1:o2]:
        bad.append("data %r != stream[%d:%d] = %r" % (bytes(data), o1, o2, outer[o1:o2]))
    if ln != o2 - o1:
        bad.append("length %r != offset2-offset1 = %r" % (ln, o2 - o1))
    if len(data) != ln:
        bad.append("len(data) %d != length %r" % (len(data), ln))
    try:
        v2 = inner_con.parse(bytes(data))
        if not T.eqv(strip_offsets(T.norm(v2)), strip_offsets(T.norm(value))):      # a nested RawCopy's offsets are absolute
            bad.append("parsing data alone gives %r, value is %r" % (T.norm(v2), T.norm(value)))
    except Exception as e:
        bad.append("parsing data alone raises %r" % (e,))
    return bad


def check_rawcopy(iname, pname, data, start):
    import construct as C
    mk = inners()[iname]
    wrap, extract = placements()[pname]
    inner = mk()
    rcc = C.RawCopy(inner)
    d = wrap(rcc)
    outer = b"\xee" * start + data
    s = io.BytesIO(outer)
    s.seek(start)
    case = {"t": "rawcopy", "inner": iname, "placement": pname, "data": data, "start": start}
    sig = "C14/rawcopy/%s/%s" % (pname, iname)
    try:
        with watchdog(3):
            v = d.parse_stream(s)
    except Hang:
        return "hang", [{"sig": sig + "/hang", "case": case, "detail": "parse did not terminate"}]
    except C.ConstructError:
        return "rejected", []
    except Exception as e:
        return "foreign", [{"sig": sig + "/foreign-" + type(e).__name__, "case": case, "detail": repr(e)}]
    out = []
    rcs = extract(v)
    prev_end = None
    for i, rc in enumerate(rcs):
        for p in rc_fields_ok(rc, outer, inner):
            out.append({"sig": sig + "/fields", "case": case, "detail": "RawCopy(%s) %s at start %d on %s, result #%d: %s" % (iname, pname, start, data.hex(), i, p)})
        if prev_end is not None and pname in ("twice", "array", "greedyrange") and rc["offset1"] != prev_end:
            out.append({"sig": sig + "/not-contiguous", "case": case, "detail": "result #%d starts at %r, previous ended at %r" % (i, rc["offset1"], prev_end)})
        prev_end = rc["offset2"]
        # build from value and from data agree, and reproduce the canonical slice
        try:
            bv = rcc.build(dict(value=rc["value"]))
            bd = rcc.build(dict(data=rc["data"]))
            bb = rcc.build(dict(data=rc["data"], value=rc["value"]))
            if bd != bytes(rc["data"]) or bb != bytes(rc["data"]):
                out.append({"sig": sig + "/build-from-data", "case": case, "detail": "build(data=%r) = %r" % (bytes(rc["data"]), bd)})
            canon = inner.build(rc["value"])
            if bv != canon:
                out.append({"sig": sig + "/build-from-value", "case": case, "detail": "build(value=%r) = %r, inner builds %r" % (rc["value"], bv, canon)})
            if canon == bytes(rc["data"]) and bv != bd:
                out.append({"sig": sig + "/build-value-vs-data", "case": case, "detail": "canonical input: build from value %r != build from data %r" % (bv, bd)})
            # rebuilding the whole parsed object reproduces a parseable message with the same value
        except C.ConstructError as e:
            out.append({"sig": sig + "/build-raised-" + type(e).__name__, "case": case, "detail": "building RawCopy(%s) from its own parse result %r raised %r" % (iname, T.norm(rc), e)})
        except Exception as e:
            out.append({"sig": sig + "/build-foreign-" + type(e).__name__, "case": case, "detail": repr(e)})
    return "ok", out


def check_rawcopy_buildfields(iname, lead, data):
    """what RawCopy reports WHILE BUILDING from a value (offsets, data, length put into the context, where Rebuild/Check/Pointer of
    later members read them) equals what parsing the built message reports, also for a RawCopy nested in the region and for Tell
    inside it, with the region starting at a non-zero offset"""
    import construct as C
    inner = inners()[iname]()
    log = []
    class Probe(C.Construct):
        def __init__(self):
            super().__init__()
            self.flagbuildnone = True
        def _parse(self, stream, context, path):
            return None
        def _build(self, obj, stream, context, path):
            log.append(context.get("r"))
            return None
        def _sizeof(self, context, path):
            return 0
    d = C.Struct("pre" / C.Bytes(lead), "r" / C.RawCopy(C.Struct("t" / C.Tell, "i" / C.RawCopy(inner), "u" / C.Tell)), "z" / C.Byte, "p" / Probe())
    case = {"t": "rawcopy-buildfields", "inner": iname, "lead": lead, "data": data}
    sig = "C14/rawcopy/build-fields/" + iname
    try:
        with watchdog(3):
            val = inner.parse(data)
            if inner.build(val) != data:
                return "noncanonical", []
    except Hang:
        return "hang", []
    except Exception:
        return "rejected", []
    try:
        with watchdog(3):
            built = d.build(dict(pre=b"\xee" * lead, r=dict(value=dict(i=dict(value=val))), z=7))
            parsed = d.parse(built)
    except Hang:
        return "hang", [{"sig": sig + "/hang", "case": case, "detail": "did not terminate"}]
    except Exception as e:
        return "bad", [{"sig": sig + "/raised-" + type(e).__name__, "case": case, "detail": "build from value / parse of the built message raised %r" % (e,)}]
    out = []
    b = log[-1] if log else None
    if b is None:
        return "bad", [{"sig": sig + "/no-result-in-context", "case": case, "detail": "the build context has no entry for the RawCopy member"}]
    def fields(rc):
        return (rc["offset1"], rc["offset2"], rc["length"], bytes(rc["data"]))
    try:
        pairs = [("outer", fields(b), fields(parsed["r"])), ("nested", fields(b["value"]["i"]), fields(parsed["r"]["value"]["i"])),
                 ("tell", (b["value"]["t"], b["value"]["u"]), (parsed["r"]["value"]["t"], parsed["r"]["value"]["u"]))]
    except Exception as e:
        return "bad", [{"sig": sig + "/fields-missing", "case": case, "detail": repr(e)}]
    for nm, fb, fp in pairs:
        if fb != fp:
            out.append({"sig": sig + "/" + nm + "-differs-from-parse", "case": case,
                        "detail": "RawCopy(%s) after %d leading bytes, built message %s: while building the %s region reported %r, parsing the message reports %r" % (iname, lead, built.hex(), nm, fb, fp)})
    for nm, rc in (("outer", b), ("nested", b["value"]["i"])):
        if bytes(rc["data"]) != built[rc["offset1"]:rc["offset2"]]:
            out.append({"sig": sig + "/" + nm + "-data-not-the-slice", "case": case,
                        "detail": "while building, %s data %r != message[%d:%d] = %r" % (nm, bytes(rc["data"]), rc["offset1"], rc["offset2"], built[rc["offset1"]:rc["offset2"]])})
    # the parsed object rebuilt somewhere else (two more leading bytes): what it still carries from the earlier parse
    # (offset1, offset2, length) must not survive into what this build reports
    try:
        log.clear()
        with watchdog(3):
            built2 = d2 = None
            dd = C.Struct("pre" / C.Bytes(lead + 2), "r" / C.RawCopy(C.Struct("t" / C.Tell, "i" / C.RawCopy(inner), "u" / C.Tell)), "z" / C.Byte, "p" / Probe())
            built2 = dd.build(dict(pre=b"\xee" * (lead + 2), r=parsed["r"], z=7))
            parsed2 = dd.parse(built2)
        b2 = log[-1]
        if fields(b2) != fields(parsed2["r"]):
            out.append({"sig": sig + "/rebuilt-object-keeps-stale-fields", "case": case,
                        "detail": "RawCopy(%s): the object parsed at offset %d rebuilt at offset %d reports %r while building, parsing the new message reports %r"
                                  % (iname, lead, lead + 2, fields(b2), fields(parsed2["r"]))})
    except Hang:
        pass
    except Exception as e:
        out.append({"sig": sig + "/rebuild-raised-" + type(e).__name__, "case": case, "detail": "rebuilding the parsed object two bytes further raised %r" % (e,)})
    return ("bad" if out else "ok"), out


# ---------------------------------------------------------------------------- checksum

def hashes():
    return {
        "md5[:4]": (lambda: __import__("construct").Bytes(4), lambda b: hashlib.md5(b).digest()[:4], True),
        "sha1": (lambda: __import__("construct").Bytes(20), lambda b: hashlib.sha1(b).digest(), True),
        "sha256": (lambda: __import__("construct").Bytes(32), lambda b: hashlib.sha256(b).digest(), True),
        "crc32": (lambda: __import__("construct").Int32ub, lambda b: zlib.crc32(b) & 0xffffffff, True),
        "sum8": (lambda: __import__("construct").Byte, lambda b: sum(b) & 0xff, False),
        # integer digests wider than 32 bits, and a little-endian one
        "md5-int64": (lambda: __import__("construct").Int64ub, lambda b: int.from_bytes(hashlib.md5(b).digest()[:8], "big"), True),
        "md5-int128": (lambda: __import__("construct").BytesInteger(16), lambda b: int.from_bytes(hashlib.md5(b).digest(), "big"), True),
        "sha1-int64le": (lambda: __import__("construct").Int64ul, lambda b: int.from_bytes(hashlib.sha1(b).digest()[:8], "little"), True),
    }


def checksum_shapes():
    import construct as C
    shapes = {}
    for hn, (field, func, strong) in hashes().items():
        shapes["fixed/" + hn] = ("fixed", hn,
            lambda field=field, func=func: C.Struct("fields" / C.RawCopy(C.Struct("a" / C.Byte, "b" / C.Int16ub, "c" / C.Bytes(2))),
                                                   "checksum" / C.Checksum(field(), func, C.this.fields.data)),
            [dict(fields=dict(value=dict(a=a, b=b, c=c))) for a in (0, 1, 255) for b in (0, 0x8001) for c in (b"\x00\x00", b"xy")])
        shapes["variable/" + hn] = ("variable", hn,
            lambda field=field, func=func: C.Struct("fields" / C.RawCopy(C.Struct("n" / C.Byte, "d" / C.Bytes(C.this.n), "s" / C.CString("ascii"))),
                                                   "checksum" / C.Checksum(field(), func, C.this.fields.data)),
            [dict(fields=dict(value=dict(n=len(dd), d=dd, s=ss))) for dd in (b"", b"\x01", b"abc") for ss in ("", "hi")])
        shapes["header+region/" + hn] = ("fixed", hn,
            lambda field=field, func=func: C.Struct("h" / C.Int16ub, "fields" / C.RawCopy(C.Struct("a" / C.Int16ul, "b" / C.Flag)),
                                                   "checksum" / C.Checksum(field(), func, C.this.fields.data), "t" / C.Byte),
            [dict(h=h, fields=dict(value=dict(a=a, b=b)), t=9) for h in (0, 0xabcd) for a in (0, 513) for b in (True, False)])
        shapes["prefixed-message/" + hn] = ("fixed", hn,
            lambda field=field, func=func: C.Prefixed(C.Byte, C.Struct("fields" / C.RawCopy(C.Struct("a" / C.Byte, "b" / C.Byte)),
                                                                       "checksum" / C.Checksum(field(), func, C.this.fields.data))),
            [dict(fields=dict(value=dict(a=a, b=b))) for a in (0, 7) for b in (0, 255)])
        # boundary: the covered region may be empty (count 0) - the digest of nothing is still a digest that must match
        shapes["counted-region/" + hn] = ("fixed", hn,
            lambda field=field, func=func: C.Struct("n" / C.Byte, "fields" / C.RawCopy(C.Bytes(C.this.n)),
                                                   "checksum" / C.Checksum(field(), func, C.this.fields.data), "t" / C.Byte),
            [dict(n=len(dd), fields=dict(value=dd), t=5) for dd in (b"", b"\x00", b"ab")])
        shapes["prefixed-region/" + hn] = ("fixed", hn,
            lambda field=field, func=func: C.Struct("fields" / C.RawCopy(C.Pass), "checksum" / C.Checksum(field(), func, C.this.fields.data), "t" / C.Byte),
            [dict(fields=dict(value=None), t=5)])
    return shapes


def covered_range(shape_name, msg, parsed):
    """byte range of the covered region and of the digest inside the built message (absolute)"""
    rc = parsed["fields"] if "fields" in parsed else None
    return rc["offset1"], rc["offset2"]


def check_checksum(shape_name, tier, r=None, only=None):
    import construct as C
    layout, hn, mk, values = checksum_shapes()[shape_name]
    field, func, strong = hashes()[hn]
    d = mk()
    out = []
    sig = "C14/checksum/" + shape_name
    nflips = INFO["bounds"][tier]["flips"]
    for vi, v in enumerate(values):
        case0 = {"t": "checksum", "shape": shape_name, "value": vi}
        try:
            msg = d.build(v)
            p = d.parse(msg)
        except Exception as e:
            out.append({"sig": sig + "/built-message-does-not-verify", "case": case0, "detail": "build/parse of %r raised %r" % (v, e)})
            continue
        # the stored digest is the hash of the covered bytes
        o1, o2 = p["fields"]["offset1"], p["fields"]["offset2"]
        want = func(msg[o1:o2])
        if p["checksum"] != want:
            out.append({"sig": sig + "/stored-digest-wrong", "case": case0, "detail": "stored %r, hash of covered bytes %r" % (p["checksum"], want)})
        dl = field().sizeof()
        dig = (o2, o2 + dl)
        if r is not None:
            r.case(key=("cs", shape_name, vi), outcome="verifies", validated=1)
        # every entry point emits the same message and sees the same region (offsets shifted by the start position)
        try:
            st = io.BytesIO(b"\xdd" * 3); st.seek(3)
            d.build_stream(v, st)
            if st.getvalue() != b"\xdd" * 3 + msg:
                out.append({"sig": sig + "/build_stream-at-offset-differs", "case": case0, "detail": "build_stream at offset 3 wrote %s, build() gives %s" % (st.getvalue()[3:].hex(), msg.hex())})
            fn = os.path.join("/var/tmp", "verif-c14-%d.bin" % os.getpid())
            try:
                d.build_file(v, fn)
                with open(fn, "rb") as f:
                    onfile = f.read()
                if onfile != msg:
                    out.append({"sig": sig + "/build_file-differs", "case": case0, "detail": "build_file wrote %s, build() gives %s" % (onfile.hex(), msg.hex())})
                pf = d.parse_file(fn)
                if T.norm(pf) != T.norm(p):
                    out.append({"sig": sig + "/parse_file-differs", "case": case0, "detail": "parse_file gives %r, parse %r" % (T.norm(pf), T.norm(p))})
            finally:
                if os.path.exists(fn):
                    os.unlink(fn)
            st = io.BytesIO(b"\xdd" * 3 + msg); st.seek(3)
            p3 = d.parse_stream(st)
            f3, f0 = p3["fields"], p["fields"]
            if (f3["offset1"], f3["offset2"], f3["data"], p3["checksum"]) != (f0["offset1"] + 3, f0["offset2"] + 3, f0["data"], p["checksum"]):
                out.append({"sig": sig + "/parse_stream-at-offset-differs", "case": case0,
                            "detail": "parse_stream at offset 3: offsets %r..%r data %r; at offset 0: %r..%r data %r" % (f3["offset1"], f3["offset2"], f3["data"], f0["offset1"], f0["offset2"], f0["data"])})
        except Exception as e:
            out.append({"sig": sig + "/entry-point-raised-" + type(e).__name__, "case": case0, "detail": repr(e)})
        # corruptions
        bits = [i for i in range(o1 * 8, dig[1] * 8)]
        flips = [(b,) for b in bits]
        if nflips >= 2 and strong and len(bits) <= 96:
            flips += list(itertools.combinations(bits, 2))
        for fl in flips:
            m = bytearray(msg)
            for b in fl:
                m[b // 8] ^= 0x80 >> (b % 8)
            m = bytes(m)
            case = dict(case0, flip=list(fl))
            try:
                with watchdog(3):
                    d.parse(m)
                res = "accepted"
            except C.ChecksumError:
                res = "ChecksumError"
            except C.ConstructError as e:
                res = type(e).__name__
            except Hang:
                res = "hang"
            except Exception as e:
                res = "foreign:" + type(e).__name__
            if r is not None:
                r.states += 1
                r.case(nontrivial=True, outcome="flip-" + res, validated=1)
            if res == "accepted":
                out.append({"sig": sig + "/corruption-accepted", "case": case, "detail": "message %s with bit(s) %s flipped was accepted" % (msg.hex(), list(fl))})
            elif layout == "fixed" and res != "ChecksumError":
                out.append({"sig": sig + "/corruption-" + res, "case": case, "detail": "message %s with bit(s) %s flipped raised %s instead of ChecksumError" % (msg.hex(), list(fl), res)})
            elif res.startswith("foreign") or res == "hang":
                out.append({"sig": sig + "/corruption-" + res, "case": case, "detail": "message %s with bit(s) %s flipped: %s" % (msg.hex(), list(fl), res)})
        # a digest supplied in the object (e.g. a parsed message that was edited afterwards) must not be trusted:
        # what build emits always verifies
        try:
            stale = dict(v)
            stale["checksum"] = p["checksum"] if not isinstance(p["checksum"], int) else p["checksum"]
            wrong = bytes(len(p["checksum"])) if isinstance(p["checksum"], bytes) else (p["checksum"] ^ 1)
            for label, supplied in (("own", stale["checksum"]), ("wrong", wrong)):
                vv = dict(v)
                vv["checksum"] = supplied
                m2 = d.build(vv)
                if m2 != msg:
                    out.append({"sig": sig + "/build-trusts-supplied-digest", "case": case0,
                                "detail": "build with a %s digest supplied in the object emits %s instead of %s" % (label, m2.hex(), msg.hex())})
                d.parse(m2)
            # edit a parsed message and rebuild it
            edited = d.parse(msg)
            fv = edited["fields"]["value"]
            k0 = [k for k in fv if not k.startswith("_")][0] if isinstance(fv, dict) else None
            if layout == "fixed" and k0 is not None and isinstance(fv[k0], int) and not isinstance(fv[k0], bool):
                fv[k0] = (fv[k0] + 1) % 200
                del edited["fields"]["data"]
                m3 = d.build(edited)
                d.parse(m3)
        except C.ChecksumError as e:
            out.append({"sig": sig + "/rebuilt-message-does-not-verify", "case": case0, "detail": "a message rebuilt from an edited parse result fails its own checksum: %r" % (e,)})
        except Exception as e:
            out.append({"sig": sig + "/rebuild-raised-" + type(e).__name__, "case": case0, "detail": repr(e)})
        # building from data instead of value gives the same message
        try:
            v2 = dict(v)
            v2["fields"] = dict(data=msg[o1:o2])
            if d.build(v2) != msg:
                out.append({"sig": sig + "/build-from-data-differs", "case": case0, "detail": "build from data %r differs from build from value" % (msg[o1:o2],)})
        except Exception as e:
            out.append({"sig": sig + "/build-from-data-raised", "case": case0, "detail": repr(e)})
    return out


def check_build_data(r=None):
    """RawCopy build from data: verbatim for every byte string incl. the empty one; data wins over value"""
    import construct as C
    out = []
    for iname, mk in inners().items():
        rcc = C.RawCopy(mk())
        for data in sigma(3):
            for extra in ({}, {"value": 12345}):
                case = {"t": "build-data", "inner": iname, "data": data, "with_value": bool(extra)}
                if r is not None:
                    r.states += 1
                    r.case(nontrivial=True, outcome="build-data", validated=1)
                try:
                    b = rcc.build(dict(data=data, **extra))
                except Exception as e:
                    out.append({"sig": "C14/rawcopy/build-from-data/raised-%s/%s" % (type(e).__name__, iname), "case": case,
                                "detail": "RawCopy(%s).build(dict(data=%r%s)) raised %r" % (iname, data, ", value=..." if extra else "", e)})
                    continue
                if b != data:
                    out.append({"sig": "C14/rawcopy/build-from-data/not-verbatim/" + iname, "case": case,
                                "detail": "RawCopy(%s).build(dict(data=%r%s)) = %r" % (iname, data, ", value=..." if extra else "", b)})
        # inside a struct at an offset, building from data, the context sees the right offsets (observed through Checksum above)
    for v in ({}, {"other": 1}):
        try:
            C.RawCopy(C.Byte).build(v)
            out.append({"sig": "C14/rawcopy/build-without-data-or-value", "case": {"t": "build-data", "inner": "Byte", "data": b"", "with_value": False}, "detail": "accepted %r" % (v,)})
        except C.RawCopyError:
            pass
        except Exception as e:
            out.append({"sig": "C14/rawcopy/build-without-data-or-value", "case": {"t": "build-data", "inner": "Byte", "data": b"", "with_value": False}, "detail": repr(e)})
    return out


def run_scale(n, r):
    """covered regions of n bytes (size axis): RawCopy fields against the outer stream bytes, top level, behind a header, inside a
    Prefixed and a NullTerminated region; a built checksum verifies; single-bit corruptions at both ends, in the middle and next
    to every 4096-byte boundary of the region and in the digest are refused"""
    import construct as C
    from .. import scale
    this = C.this
    payload = scale.payload(n, "nozero")
    shapes = {
        "top": (C.Struct("fields" / C.RawCopy(C.Bytes(n)), "checksum" / C.Checksum(C.Bytes(16), lambda b: hashlib.md5(b).digest(), this.fields.data), "t" / C.Byte), 0),
        "after-header": (C.Struct("h" / C.Bytes(3), "fields" / C.RawCopy(C.Struct("d" / C.Bytes(n - 1), "e" / C.Byte)), "checksum" / C.Checksum(C.Int32ub, lambda b: zlib.crc32(b) & 0xffffffff, this.fields.data)), 3),
        "in-prefixed": (C.Struct("h" / C.Byte, "p" / C.Prefixed(C.Int32ul, C.Struct("fields" / C.RawCopy(C.GreedyBytes))), "t" / C.Byte), 5),
        "in-nullterminated": (C.Struct("h" / C.Byte, "p" / C.NullTerminated(C.Struct("fields" / C.RawCopy(C.GreedyBytes))), "t" / C.Byte), 1),
        "counted": (C.Struct("n" / C.Int32ub, "fields" / C.RawCopy(C.Array(this.n, C.Byte)), "checksum" / C.Checksum(C.Bytes(20), lambda b: hashlib.sha1(b).digest(), this.fields.data)), 4),
    }
    values = {"top": dict(fields=dict(value=payload), t=1), "after-header": dict(h=b"abc", fields=dict(value=dict(d=payload[:n - 1], e=7))),
              "in-prefixed": dict(h=1, p=dict(fields=dict(value=payload)), t=2), "in-nullterminated": dict(h=1, p=dict(fields=dict(value=payload)), t=2),
              "counted": dict(n=n, fields=dict(value=list(payload)))}
    for name, (d, o1) in shapes.items():
        case0 = {"t": "scale", "shape": name, "size": n}
        r.states += 1
        try:
            msg = d.build(values[name])
            p = d.parse(msg)
            rc = p["fields"] if "fields" in p else p["p"]["fields"]
        except Exception as e:
            r.violation("C14/scale/%s/built-message-does-not-verify" % name, case0, "build/parse of a %d-byte region raised %r" % (n, e))
            continue
        r.case(nontrivial=True, outcome="scale-verifies", transitions=2, validated=1)
        if (rc["offset1"], rc["offset2"], rc["length"]) != (o1, o1 + n, n) or bytes(rc["data"]) != msg[o1:o1 + n]:
            r.violation("C14/scale/%s/fields" % name, case0, "RawCopy over %d bytes at offset %d: offsets %r..%r length %r, data equals the stream slice: %r" % (
                n, o1, rc["offset1"], rc["offset2"], rc["length"], bytes(rc["data"]) == msg[o1:o1 + n]))
        if "checksum" in p:
            dl = len(msg) - (o1 + n) - (1 if name == "top" else 0)
            spots = {o1 * 8, (o1 + n) * 8 - 1, (o1 + n // 2) * 8 + 3, (o1 + n) * 8, (o1 + n + dl) * 8 - 1}
            for k in range(4096, n, 4096):
                spots |= {(o1 + k) * 8 - 1, (o1 + k) * 8}
            for bit in sorted(spots):
                m = bytearray(msg)
                m[bit // 8] ^= 0x80 >> (bit % 8)
                r.states += 1
                try:
                    d.parse(bytes(m))
                    res = "accepted"
                except C.ChecksumError:
                    res = "ChecksumError"
                except Exception as e:
                    res = type(e).__name__
                r.case(nontrivial=True, outcome="scale-flip-" + res, validated=1)
                if res != "ChecksumError" and not (name == "counted" and bit < 32):
                    r.violation("C14/scale/%s/corruption-%s" % (name, res), dict(case0, flip=bit), "a %d-byte region with bit %d flipped: %s" % (n, bit, res))
    r.sample({"scale_size": n, "shapes": sorted(shapes)})


def run_unit(unit, tier):
    r = UnitResult()
    k = unit["kind"]
    if k == "scale":
        run_scale(unit["size"], r)
        return r
    if k == "rawcopy":
        L = INFO["bounds"][tier]["L"]
        for start in STARTS:
            for data in sigma(L):
                r.states += 1
                oc, vs = check_rawcopy(unit["inner"], unit["placement"], data, start)
                r.case(nontrivial=oc == "ok", outcome=oc, validated=1)
                for v in vs:
                    r.violation(v["sig"], v["case"], v["detail"])
        r.sample({"inner": unit["inner"], "placement": unit["placement"], "starts": STARTS, "payloads": len(sigma(L))})
    elif k == "build-fields":
        for lead in (0, 1, 3):
            for data in sigma(min(INFO["bounds"][tier]["L"], 3)):
                r.states += 1
                oc, vs = check_rawcopy_buildfields(unit["inner"], lead, data)
                r.case(nontrivial=oc == "ok", outcome="bf-" + oc, transitions=2, validated=1)
                for v in vs:
                    r.violation(v["sig"], v["case"], v["detail"])
        r.sample({"build_fields_inner": unit["inner"], "leads": [0, 1, 3]})
    elif k == "checksum":
        for v in check_checksum(unit["shape"], tier, r):
            r.violation(v["sig"], v["case"], v["detail"])
        r.sample({"checksum_shape": unit["shape"]})
    else:
        for v in check_build_data(r):
            r.violation(v["sig"], v["case"], v["detail"])
        r.sample({"build_from_data": "all inner constructs x all strings <=3"})
    return r


def replay(case):
    if case.get("t") == "rawcopy-buildfields":
        return check_rawcopy_buildfields(case["inner"], case["lead"], case["data"])[1]
    if case.get("t") == "scale":
        r = UnitResult(); run_scale(case["size"], r)
        return [v for v in r.violations if v["case"].get("shape") == case["shape"]]
    if case["t"] == "rawcopy":
        return check_rawcopy(case["inner"], case["placement"], case["data"], case["start"])[1]
    if case["t"] == "checksum":
        vs = check_checksum(case["shape"], "thorough" if len(case.get("flip", [])) > 1 else "quick")
        return [v for v in vs if v["case"].get("value") == case.get("value") and v["case"].get("flip") == case.get("flip")] or vs[:1] if vs else []
    return [v for v in check_build_data() if v["case"]["inner"] == case["inner"] and v["case"]["data"] == case["data"]]
