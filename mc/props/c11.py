"""C11 - context expressions mean what their Python spelling means, and print as it.

Enumerates every operator tree of the stated shapes, evaluates the real expression
object, eval(repr(expr)) and the native operator tree on every context of the
context alphabet, and compares value+type (or exception class).
"""
import itertools
from ..engine import UnitResult, jkey
from .. import exprs as X

INFO = {
    "rule": "every operator tree of the listed shapes (all ordered operator pairs of the 18 binary and 3 unary "
            "operators; leaf cube over this.a, this['b'], this._.c, 2, 's' plus single-position sweeps of obj_, True, "
            "b's', -1, 3, this.n.x; len_/sum_/min_/max_/abs_) x every context a,b,c in the context alphabet; "
            "a case is non-trivial when native evaluation of the tree returns a value (no exception, no size guard); "
            "distinct = distinct (tree, context)",
    "bounds": {"quick": {"tree_depth": 2, "ctx_values": [0, 1, 2, 3]},
               "thorough": {"tree_depth": 3, "ctx_values": [-1, 0, 1, 2, 3, 5]}},
    "trusted_base": ["CPython operator module and eval()", "mc/exprs.py native evaluator (30 lines)"],
    "assumptions": ["~ denotes logical not (docs/meta.rst)", "list_ only bare (documented as buggy, test_list is xfail)",
                    "`in` is not overloadable (test_this_in_operator is xfail)"],
}

A, B, Cc = ["this", "a"], ["item", "b"], ["up", "c"]
K2, KS = ["k", 2], ["k", "s"]
CUBE = [A, B, Cc, K2, KS]
SPECIAL = [["k", True], ["k", b"s"], ["k", -1], ["k", 3], ["path", ["n", "x"]], ["k", -2], ["k", 0]]
OBJL = [["obj"], K2, ["k", True], ["k", -1]]
LISTL = ["this", "l"]

D3OPS = ["**", "*", "//", "-", "<<", "&", "^", "|", "<", "=="]
D3LEAVES = [A, B, K2]


def ctx_values(tier):
    return INFO["bounds"][tier]["ctx_values"]


def units(tier):
    us = []
    for op1 in X.BINOPS:
        for op2 in X.BINOPS:
            us.append({"shape": "bin2", "op1": op1, "op2": op2})
    for u in X.UNOPS:
        for op1 in X.BINOPS:
            us.append({"shape": "un1", "un": u, "op1": op1})
    us.append({"shape": "unun"})
    us.append({"shape": "fn"})
    us.append({"shape": "obj"})
    us.append({"shape": "list"})
    us.append({"shape": "names"})
    for op1 in FLOAT_OPS:
        us.append({"shape": "floats", "op1": op1})
    us.append({"shape": "slices"})
    us.append({"shape": "seqs"})
    if tier == "thorough":
        for op1 in D3OPS:
            for op2 in D3OPS:
                us.append({"shape": "bin3", "op1": op1, "op2": op2})
        for u in X.UNOPS:
            for op1 in D3OPS:
                us.append({"shape": "un3", "un": u, "op1": op1})
    return us


def leaf_triples():
    seen = []
    s = set()
    def add(t):
        k = jkey(t)
        if k not in s:
            s.add(k)
            seen.append(t)
    for t in itertools.product(CUBE, repeat=3):
        add(list(t))
    for sp in SPECIAL:
        for pos in range(3):
            for o1 in (A, B):
                for o2 in (A, K2):
                    t = [o1, o2]
                    t.insert(pos, sp)
                    add(t)
    return seen


def trees_for(unit, tier):
    sh = unit["shape"]
    if sh == "bin2":
        op1, op2 = unit["op1"], unit["op2"]
        for l1, l2, l3 in leaf_triples():
            inner = ["bin", op1, l1, l2]
            if not X.has_expr(inner):
                continue
            yield ["bin", op2, inner, l3]
            yield ["bin", op2, l3, inner]
    elif sh == "un1":
        u, op1 = unit["un"], unit["op1"]
        for l1, l2, l3 in leaf_triples():
            inner = ["bin", op1, l1, l2]
            if X.has_expr(inner):
                yield ["un", u, inner]
                if l3 is A:
                    pass
            if X.has_expr(l1):
                yield ["bin", op1, ["un", u, l1], l2]
            if X.has_expr(l2):
                yield ["bin", op1, l1, ["un", u, l2]]
        # unary around an inner binary, itself an operand of every outer binary operator
        for op2 in X.BINOPS:
            for l1, l2, l3 in itertools.product([A, K2], [B, K2, KS], [Cc, K2]):
                inner = ["bin", op1, l1, l2]
                if not X.has_expr(inner):
                    continue
                yield ["bin", op2, ["un", u, inner], l3]
                yield ["bin", op2, l3, ["un", u, inner]]
                yield ["un", u, ["bin", op2, inner, l3]]
    elif sh == "unun":
        for u1 in X.UNOPS:
            for u2 in X.UNOPS:
                for l in (A, B, Cc, ["path", ["n", "x"]]):
                    yield ["un", u1, ["un", u2, l]]
                    for op in X.BINOPS:
                        for l2 in (A, K2, KS):
                            yield ["bin", op, ["un", u1, ["un", u2, l]], l2]
                            yield ["bin", op, l2, ["un", u1, ["un", u2, l]]]
                    for u3 in X.UNOPS:
                        yield ["un", u3, ["un", u1, ["un", u2, l]]]
    elif sh == "fn":
        for name in ("len_", "sum_", "min_", "max_"):
            f = ["fn", name, LISTL]
            yield f
            for op in X.BINOPS:
                for l in (A, K2, ["k", -1]):
                    yield ["bin", op, f, l]
                    yield ["bin", op, l, f]
                    for u in X.UNOPS:
                        yield ["bin", op, ["un", u, f], l]
            for u in X.UNOPS:
                yield ["un", u, f]
        for op in X.BINOPS:
            for l1, l2 in itertools.product([A, K2, ["k", -1]], [B, K2, KS]):
                inner = ["bin", op, l1, l2]
                if not X.has_expr(inner):
                    continue
                g = ["fn", "abs_", inner]
                yield g
                for op2 in X.BINOPS:
                    yield ["bin", op2, g, Cc]
                    yield ["bin", op2, K2, g]
                yield ["fn", "abs_", ["un", "-", inner]]
        yield ["fn", "abs_", ["un", "-", A]]
        yield ["fn", "len_", ["bin", "*", LISTL, K2]]
        yield ["fn", "sum_", ["bin", "+", LISTL, LISTL]]
    elif sh == "obj":
        for op1 in X.BINOPS:
            for l1, l2 in itertools.product(OBJL, repeat=2):
                inner = ["bin", op1, l1, l2]
                if not X.has_expr(inner):
                    continue
                yield inner
                for u in X.UNOPS:
                    yield ["un", u, inner]
                for op2 in X.BINOPS:
                    for l3 in OBJL:
                        yield ["bin", op2, inner, l3]
                        yield ["bin", op2, l3, inner]
        for u in X.UNOPS:
            yield ["un", u, ["obj"]]
            for op in X.BINOPS:
                yield ["bin", op, ["un", u, ["obj"]], K2]
                yield ["bin", op, K2, ["un", u, ["obj"]]]
    elif sh == "bin3":
        op1, op2 = unit["op1"], unit["op2"]
        for op3 in D3OPS:
            for l1, l2, l3, l4 in itertools.product(D3LEAVES, repeat=4):
                i1 = ["bin", op1, l1, l2]
                if not X.has_expr(i1):
                    continue
                yield ["bin", op3, ["bin", op2, i1, l3], l4]
                yield ["bin", op3, l4, ["bin", op2, l3, i1]]
                yield ["bin", op3, ["bin", op2, l3, i1], l4]
                yield ["bin", op3, l4, ["bin", op2, i1, l3]]
                i2 = ["bin", op2, l3, l4]
                if X.has_expr(i2):
                    yield ["bin", op3, i1, i2]
    elif sh == "un3":
        u, op1 = unit["un"], unit["op1"]
        for op2 in D3OPS:
            for op3 in D3OPS:
                for l1, l2, l3, l4 in itertools.product([A, K2], [B, K2], [Cc], [A, K2]):
                    i1 = ["bin", op1, l1, l2]
                    if not X.has_expr(i1):
                        continue
                    yield ["bin", op3, ["bin", op2, ["un", u, i1], l3], l4]
                    yield ["bin", op3, l4, ["bin", op2, l3, ["un", u, i1]]]
                    yield ["bin", op3, ["un", u, ["bin", op2, i1, l3]], l4]
                    yield ["bin", op3, l4, ["un", u, ["bin", op2, l3, i1]]]


def contexts(unit, tier):
    vals = ctx_values(tier)
    if unit["shape"] == "obj":
        return [{"obj": v} for v in vals + [7]]
    if unit["shape"] in ("bin3", "un3"):
        vals = [0, 1, 2, 3]
    return [{"a": a, "b": b, "c": c} for a in vals for b in vals for c in vals]


def mk_ctx(c):
    """-> (plain dict for the oracle, Container for the implementation)"""
    import construct as C
    if "obj" in c:
        return c["obj"], c["obj"]
    a, b, cc = c["a"], c["b"], c["c"]
    d = {"a": a, "b": b, "_": {"c": cc}, "n": {"x": a}, "l": [a, b, cc]}
    k = C.Container(a=a, b=b, _=C.Container(c=cc), n=C.Container(x=a), l=C.ListContainer([a, b, cc]))
    return d, k


def outcome(f):
    try:
        return ("ok", f())
    except X.Guard:
        return ("guard", None)
    except RecursionError:
        return ("guard", None)
    except Exception as e:
        return ("exc", type(e).__name__)


def agree(x, y):
    if x[0] != y[0]:
        return False
    if x[0] == "ok":
        return X.same(x[1], y[1])
    return x[1] == y[1]


def signature(kind, t):
    ks = [X.kind(t)]
    if t[0] == "bin":
        ks.append("lhs=" + X.kind(t[2]))
        ks.append("rhs=" + X.kind(t[3]))
        if t[1] == "**":
            ks.append("op=**")
    elif t[0] in ("un", "fn"):
        ks.append("arg=" + X.kind(t[2]))
    return "C11/%s/%s" % (kind, ",".join(ks))


def check_tree(t, ctxs, r, replay=False):
    """ctxs: list of (desc, dict, container).  Returns list of violations (replay mode) or records in r."""
    out = []
    def bad(kind, c, detail):
        v = {"sig": signature(kind, t), "case": {"tree": t, "ctx": c}, "detail": detail}
        out.append(v)
        if r is not None:
            r.violation(v["sig"], v["case"], detail)
    if _str_format(t):
        # "s" % placeholder is str formatting: str.__mod__ never defers to __rmod__ (and treats a
        # placeholder, which has __getitem__, as a mapping), so no library can overload it -
        # plain Python behaviour, not an expression tree
        if r is not None:
            r.case(nontrivial=False, outcome="str-format-not-overloadable", transitions=0)
        return out
    try:
        e = X.real(t)
    except Exception as ex:
        bad("construction-raised", None, "building %s raised %r" % (X.show(t), ex))
        return out
    if not callable(e):
        return out
    rep = repr(e)
    try:
        code = compile(rep, "<repr>", "eval")
    except SyntaxError as ex:
        bad("repr-not-python", None, "repr(%s) = %r is not a Python expression: %s" % (X.show(t), rep, ex))
        code = None
    env = X.eval_env()
    if r is not None:
        r.states += len(ctxs)
    for c, d, k in ctxs:
        want = outcome(lambda: X.native(t, d))
        if want[0] == "guard":
            if r is not None:
                r.case(nontrivial=False, outcome="guarded", transitions=0)
            continue
        got = outcome(lambda: e(k))
        ok = agree(want, got)
        if not ok:
            bad("call-differs", c, "%s on %s: expression object gives %r, Python gives %r" % (X.show(t), c, got, want))
        ok2 = True
        if code is not None:
            got2 = outcome(lambda: eval(code, env, {"this": k, "obj_": k}))
            ok2 = agree(want, got2)
            if not ok2:
                bad("repr-differs", c, "%s on %s: eval(repr)=eval(%r) gives %r, Python gives %r" % (X.show(t), c, rep, got2, want))
        if r is not None:
            r.case(nontrivial=(want[0] == "ok"), outcome=want[0] if want[0] != "exc" else "exc:" + want[1],
                   transitions=2, validated=1)
    return out


def run_unit(unit, tier):
    r = UnitResult()
    cs = [(c,) + mk_ctx(c) for c in contexts(unit, tier)]
    if unit["shape"] == "list":
        return run_list(r)
    if unit["shape"] == "names":
        return run_names(r)
    if unit["shape"] == "slices":
        return run_slices(r)
    if unit["shape"] == "seqs":
        return run_seqs(r)
    if unit["shape"] == "floats":
        # operators are not associative on floats: every two-operator tree over the arithmetic operators on float contexts
        cs = [(c,) + mk_ctx(c) for c in [{"a": a, "b": b, "c": c_} for a in FLOATS for b in FLOATS for c_ in FLOATS]]
        seen = set()
        for op2 in FLOAT_OPS:
            for t in trees_for({"shape": "bin2", "op1": unit["op1"], "op2": op2}, tier):
                key = jkey(t)
                if key in seen or not X.has_expr(t) or _has_nonnumeric_const(t):
                    continue
                seen.add(key)
                check_tree(t, cs, r)
        r.sample({"tree": "float contexts, op1=%s x %s" % (unit["op1"], FLOAT_OPS), "contexts": len(cs)})
        return r
    seen = set()
    for t in trees_for(unit, tier):
        key = jkey(t)
        if key in seen:
            continue
        seen.add(key)
        if not X.has_expr(t):
            continue
        check_tree(t, cs, r)
        if len(r.samples) < 2:
            r.sample({"tree": X.show(t), "contexts": len(cs)})
    return r


def run_seqs(r):
    """operand order matters for sequences: + concatenates, * repeats, comparisons order - with str, bytes and list values in the context
    and a constant of the same type (or a repeat count) on either side, one and two operators deep"""
    A, B = ["this", "a"], ["this", "b"]
    K2 = ["k", 2]
    n = 0
    for const, vals in (("ab", ["", "x", "yz"]), (b"\x01\x02", [b"", b"x", b"yz"]), ([1, 2], [[], [7], [8, 9]])):
        Kc = ["k", const]
        cs = [(c,) + mk_ctx(c) for c in [{"a": a, "b": b, "c": 2} for a in vals for b in vals]]
        one = [["bin", "+", Kc, A], ["bin", "+", A, Kc], ["bin", "+", A, B], ["bin", "*", K2, A], ["bin", "*", A, K2], ["bin", "*", Kc, ["path", ["_", "c"]]],
               ["bin", "*", ["path", ["_", "c"]], Kc]]
        one += [["bin", op, l, rr] for op in ("==", "!=", "<", "<=", ">", ">=") for l, rr in ((Kc, A), (A, Kc), (A, B))]
        two = [["bin", "+", Kc, t] for t in one[:7]] + [["bin", "+", t, Kc] for t in one[:7]] + [["bin", "+", t, B] for t in one[:7]] + [["bin", "+", B, t] for t in one[:7]] \
            + [["bin", "*", K2, t] for t in one[:3]] + [["bin", "*", t, K2] for t in one[:3]] + [["bin", "==", t, ["bin", "+", B, A]] for t in one[:3]]
        for t in one + two:
            check_tree(t, cs, r)
            n += 1
    r.sample({"tree": "sequence contexts (str, bytes, list)", "trees": n})
    return r


FLOAT_OPS = ["+", "-", "*", "/"]
FLOATS = [0.1, 0.2, 0.3, 1e16, -1e16, 1.0, -0.0, 3, 1e308]


def _has_nonnumeric_const(t):
    if t[0] == "k":
        return not isinstance(t[1], (int, float)) or isinstance(t[1], bool)
    return any(_has_nonnumeric_const(x) for x in t[1:] if isinstance(x, list))


def run_slices(r):
    """item paths with slice subscripts: every combination of start/stop/step over {None, 0, 1, 2, -1} on bytes, list and str
    members, evaluated and printed (eval(repr) must give the same function), bare and inside an operator"""
    import construct as C
    vals = [None, 0, 1, 2, -1]
    data = {"data": b"abcde", "lst": [10, 11, 12, 13], "s": "wxyz"}
    ctx = C.Container(data=data["data"], lst=C.ListContainer(data["lst"]), s=data["s"], _=C.Container(data=b"XY"))
    env = {"this": C.this, "obj_": C.obj_, "list_": C.list_, "len_": C.len_}
    for name in data:
        for a in vals:
            for b in vals:
                for st in (None, 1, 2, -1):
                    sl = slice(a, b, st)
                    want = ("ok", data[name][sl])
                    forms = [("this.%s[%r:%r:%r]" % (name, a, b, st), C.this[name][sl], want),
                             ("len_(this.%s[%r:%r:%r])" % (name, a, b, st), C.len_(getattr(C.this, name)[sl]), ("ok", len(data[name][sl])))]
                    if name == "data":
                        forms.append(("this._.data[...]", C.this._.data[sl], ("ok", b"XY"[sl])))
                    for label, e, w in forms:
                        r.states += 1
                        subject = ctx if "_.data" not in label else C.Container(_=ctx["_"])
                        got = outcome(lambda: e(subject))
                        r.case(nontrivial=True, outcome="slices", transitions=2, validated=2)
                        case = {"slices": [name, a, b, st], "form": label}
                        if (got[0], list(got[1]) if isinstance(got[1], list) else got[1]) != (w[0], list(w[1]) if isinstance(w[1], list) else w[1]):
                            r.violation("C11/slices/call-differs", case, "%s gives %r, plain slicing %r" % (label, got, w))
                            continue
                        rp = repr(e)
                        ev = outcome(lambda: eval(rp, dict(env))(subject))
                        if (ev[0], list(ev[1]) if isinstance(ev[1], list) else ev[1]) != (w[0], list(w[1]) if isinstance(w[1], list) else w[1]):
                            r.violation("C11/slices/repr-differs", case, "repr(%s) = %s evaluates to %r, expected %r" % (label, rp, ev, w))
    r.sample({"tree": "slice subscripts", "bounds": vals, "members": list(data)})
    return r


def run_names(r):
    """attribute and item paths through members of ANY name, in particular names the expression classes might use themselves
    (attributes, methods; the name-mangled privates _Path__name etc. are the classes' own storage and excluded) and names of context entries: this.<name>, this._.<name>, this[<name>], this.<name>.<name2>,
    obj_.<name>, inside an operator and called as a function; value and eval(repr()) against plain lookups"""
    import construct as C
    names = ["a", "name", "field", "parent", "_name", "_field", "_parent", "__name", "__field", "__parent", "func", "operand", "op", "lhs", "rhs", "value",
             "_", "_params", "_root", "_index", "_io", "_parsing", "_building", "_sizing", "_subcons", "items", "keys", "get", "update", "search", "__class__x",
             "self", "this", "obj_", "len_", "x1", "if_", "class_"]
    env = {"this": None, "obj_": None, "len_": len, "sum_": sum, "min_": min, "max_": max, "abs_": abs}
    for n1 in names:
        for n2 in (None, "a", n1, "_name", "_parent"):
            inner = {n2: 7, "other": 1} if n2 is not None else 5
            ctx = C.Container({n1: inner, "zz": 3})
            ctx2 = C.Container(_=ctx, q=1)
            forms = []
            def add(label, expr, subject, want):
                forms.append((label, expr, subject, want))
            want = inner[n2] if n2 is not None else inner
            try:
                e_attr = getattr(C.this, n1)
                e_up = getattr(getattr(C.this, "_"), n1)
                e_obj = getattr(C.obj_, n1)
            except Exception as ex:
                r.violation("C11/names/attribute-raised", {"names": [n1, n2]}, "this.%s raised %r" % (n1, ex))
                continue
            e_item = C.this[n1]
            try:
                if n2 is not None:
                    e_attr, e_up, e_obj, e_item = getattr(e_attr, n2), getattr(e_up, n2), getattr(e_obj, n2), e_item[n2]
            except Exception as ex:
                r.violation("C11/names/attribute-raised", {"names": [n1, n2]}, "this.%s.%s could not be formed: %r (this.%s is %r)" % (n1, n2, ex, n1, getattr(C.this, n1)))
                continue
            add("this.%s%s" % (n1, "." + n2 if n2 else ""), e_attr, ctx, want)
            add("this[%r]%s" % (n1, "[%r]" % n2 if n2 else ""), e_item, ctx, want)
            add("this._.%s%s" % (n1, "." + n2 if n2 else ""), e_up, ctx2, want)
            if isinstance(want, int) and callable(e_attr) and not isinstance(e_attr, (str, int)):
                add("this.%s... + 1" % n1, e_attr + 1, ctx, want + 1)
                add("-(this.%s...)" % n1, -e_attr, ctx, -want)
            for label, e, subject, w in forms:
                r.states += 1
                got = outcome(lambda: e(subject))
                r.case(nontrivial=True, outcome="names", transitions=2, validated=2)
                case = {"names": [n1, n2], "form": label}
                if not callable(e) or got != ("ok", w):
                    r.violation("C11/names/call-differs", case, "%s on a context where %r holds %r: %r, plain lookup gives %r" % (label, n1, inner, got, w))
                    continue
                rp = repr(e)
                ev = outcome(lambda: eval(rp, dict(env, this=C.this, obj_=C.obj_))(subject))
                if ev != ("ok", w):
                    r.violation("C11/names/repr-differs", case, "repr(%s) = %s evaluates to %r, expected %r" % (label, rp, ev, w))
            # obj_ form is called with (obj, ctx)
            r.states += 1
            got = outcome(lambda: e_obj(ctx, {})) if callable(e_obj) else ("exc", "not-an-expression:%r" % (e_obj,))
            if got != ("ok", want):
                r.violation("C11/names/call-differs", {"names": [n1, n2], "form": "obj_"}, "obj_.%s%s: %r, plain lookup %r" % (n1, "." + n2 if n2 else "", got, want))
    r.sample({"tree": "attribute/item paths over %d member names x 5 second steps" % len(names)})
    return r


def run_list(r):
    """list_[i] bare (the only documented-working use): called as (obj, list, ctx)."""
    import construct as C
    for n in range(1, 4):
        lst = list(range(10, 10 + n))
        for i in range(-n, n):
            e = C.list_[i]
            got = outcome(lambda: e(1, lst, {}))
            want = ("ok", lst[i])
            r.states += 1
            r.case(key=("list", n, i), outcome="ok", validated=1)
            if not agree(got, want):
                r.violation("C11/list-index", {"list": lst, "index": i}, "list_[%d] on %r gave %r" % (i, lst, got))
            if repr(e) != "list_[%r]" % i:
                r.violation("C11/list-repr", {"list": lst, "index": i}, "repr(list_[%d]) = %r" % (i, repr(e)))
    r.sample({"tree": "list_[i]", "lists": 3})
    return r


def _str_format(t):
    if t[0] == "bin":
        if t[1] == "%" and t[2][0] == "k" and isinstance(t[2][1], (str, bytes)):
            return True
        return _str_format(t[2]) or _str_format(t[3])
    if t[0] in ("un", "fn"):
        return _str_format(t[2])
    return False


def replay(case):
    if "tree" not in case:
        r = UnitResult()
        run_list(r)
        return r.violations
    t = case["tree"]
    c = case.get("ctx")
    if c is None:
        cs = [(cc,) + mk_ctx(cc) for cc in contexts({"shape": "obj" if _has_obj(t) else "bin2"}, "quick")]
    else:
        cs = [(c,) + mk_ctx(c)]
    return check_tree(t, cs, None, replay=True)


def _has_obj(t):
    if t[0] == "obj":
        return True
    return any(_has_obj(x) for x in t[1:] if isinstance(x, list) and x and isinstance(x[0], str) and x[0] in
               ("this", "item", "up", "path", "obj", "k", "bin", "un", "fn"))
