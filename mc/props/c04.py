"""C04 - a compiled construct behaves exactly like the construct it was compiled from."""
import io, itertools
from ..engine import UnitResult, jkey, watchdog, Hang
from .. import ref as R, terms as T, gen as G, exprs as X
from .c03 import sigma, chunks, S6
from .c02 import strip_offsets

INFO = {
    "rule": "(A) every term of tiers T1..T4 (T5 thorough) that compile() accepts x every interpreter-accepted byte string over S6 up to "
            "length L and the values parsed from them: compiled parse value / consumed bytes / built bytes / sizeof vs the interpreter; "
            "(B) a host struct a,b,s,d + member under test + dependent probes (Computed copy, trailing Bytes((a+b)&3)), with the member's "
            "context parameter given as an expression object: every operator pair of the arithmetic/bitwise/comparison table in both "
            "nestings, unary inside binary, reflected constants, str/bytes/bool constants, len_, _params, _ and _root, in every parameter "
            "slot (Bytes, BytesInteger, Array, Padded, Aligned, FixedSized, Padding, Pointer, Seek, If, IfThenElse, Switch key, Check, "
            "StopIf, Computed, Rebuild, Default, RepeatUntil) x inputs a,b in 0..3 (+255) x tails. Nothing is compared when the "
            "interpreter rejects. non-trivial = interpreter accepted and compiled result was compared; distinct = (term, input)",
    "bounds": {"quick": {"L_T1": 4, "L_T2": 3, "L_T3": 2, "expr_depth": 2, "ab": [0, 1, 2, 3]},
               "thorough": {"L_T1": 5, "L_T2": 4, "L_T3": 3, "L_T5": 2, "expr_depth": 2, "ab": [0, 1, 2, 3, 5, 255]}},
    "trusted_base": ["the interpreter (differential oracle)"],
    "assumptions": ["documented exclusions: _index/Index, parsed hooks, discard, _subcons, lambdas other than linked callbacks, exception paths, "
                    "look-ahead over truncated data (compiled Peek raises struct.error where the interpreter returns None)"],
}

BYTE = G.BYTE


def units(tier):
    b = INFO["bounds"][tier]
    us = []
    terms = [(t, "T1", b["L_T1"]) for t in G.tier1()] + [(t, "T2", b["L_T2"]) for t in G.tier2(False)] + [(t, "T3", b["L_T3"]) for t in G.tier3(False)] \
        + [(t, "T4", b["L_T1"]) for t in G.tier4()]
    if tier == "thorough":
        terms += [(t, "T5", b["L_T5"]) for t in G.tier5(False)]
    terms += [(t, "TC", b["L_T2"]) for t in const_over()] + [(t, "T4q", b["L_T1"]) for t in G.sequence_twins()]
    for ch in chunks(terms, 16):
        us.append({"kind": "terms", "terms": [[t, tn, L] for t, tn, L in ch]})
    for si in range(len(slots())):
        for ei in range(0, len(exprs_for(slots()[si][2], tier)), 40):
            us.append({"kind": "slot", "slot": si, "from": ei, "to": ei + 40})
    us.append({"kind": "special"})
    us.append({"kind": "history"})
    from .. import scale
    for n in scale.sizes(tier):
        if n <= 8193 or tier == "thorough":
            us.append({"kind": "scale", "size": n})
    return us


def const_over():
    """Const(value, subcon) for every context-free subcon of T1/T2 and each alphabet value it can encode (the expected value's
    encoding lies in S6^<=L so the accepting input is enumerated)"""
    from .. import ref as R
    out, seen = [], set()
    for x in G.tier1() + G.tier2(False):
        a = G.attrs(x)
        if not a.ctxfree or x[0] in ("ConstB", "ConstV", "Error", "Terminated", "Pass", "Padding"):
            continue
        cands = {"bytes": [b"\x01\x02", b"\x01", b""], "int": [1, 2, 0x0102], "str": ["\x01\x02", "\x01", ""]}.get(a.kind, [])
        for v in cands:
            try:
                enc = R.build(x, v)
                back, end = R.parse(x, enc)
            except Exception:
                continue
            if end != len(enc) or back != v or type(back) is not type(v) or len(enc) > 4 or any(c not in (0, 1, 2, 0x7f, 0x80, 0xff) for c in enc):
                continue
            key = repr((v, x))
            if key not in seen:
                seen.add(key)
                out.append(["ConstV", v, x])
    return out


# -------------------------------------------------------------------------------------

def interp_parse(d, data, kw):
    import construct as C
    s = io.BytesIO(data)
    try:
        with watchdog(3):
            v = d.parse_stream(s, **kw)
        return ("ok", v, s.tell())
    except Hang:
        return ("hang",)
    except C.ConstructError as e:
        return ("rej", type(e).__name__)
    except Exception as e:
        return ("rej", "foreign:" + type(e).__name__)


def do_build(d, v, kw):
    import construct as C
    try:
        with watchdog(3):
            return ("ok", d.build(v, **kw))
    except Hang:
        return ("hang",)
    except C.ConstructError as e:
        return ("rej", type(e).__name__)
    except Exception as e:
        return ("rej", "foreign:" + type(e).__name__ + ":" + str(e)[:60])


def compare(t, d, dc, data, kw, tsig, case):
    """-> (outcome, violations)"""
    a = interp_parse(d, data, kw)
    if a[0] != "ok":
        return "interp-rejects", []
    b = interp_parse(dc, data, kw)
    show = T.show(t)
    if b[0] != "ok":
        return "bad", [{"sig": "C04/compiled-parse-fails/%s/%s" % (b[1] if len(b) > 1 else b[0], tsig), "case": dict(case, op="parse"),
                        "detail": "%s.parse(%s): interpreter returns %r, compiled raises %s" % (show, data.hex(), T.norm(a[1]), b[1] if len(b) > 1 else b[0])}]
    va, vb = T.norm(a[1]), T.norm(b[1])
    if not T.eqv(va, vb):
        if T.eqv(strip_offsets(va), strip_offsets(vb)):
            return "bad", [{"sig": "C04/compiled-rawcopy-offsets-relative-to-substream", "case": dict(case, op="parse"),
                            "detail": "%s.parse(%s): interpreter %r, compiled %r (offsets inside a compiled Prefixed/FixedSized region restart at 0)" % (show, data.hex(), va, vb)}]
        return "bad", [{"sig": "C04/compiled-parse-differs/" + tsig, "case": dict(case, op="parse"),
                        "detail": "%s.parse(%s): interpreter %r, compiled %r" % (show, data.hex(), va, vb)}]
    if a[2] != b[2]:
        return "bad", [{"sig": "C04/compiled-parse-consumes-differently/" + tsig, "case": dict(case, op="parse"),
                        "detail": "%s.parse(%s): interpreter consumed %d bytes, compiled %d" % (show, data.hex(), a[2], b[2])}]
    # build from the parsed value (the interpreter's object) and from its plain form
    out = []
    for label, v in (("parsed", a[1]),):
        ba = do_build(d, v, kw)
        if ba[0] != "ok":
            continue
        bb = do_build(dc, v, kw)
        if bb != ba:
            out.append({"sig": "C04/compiled-build-differs/" + tsig, "case": dict(case, op="build"),
                        "detail": "%s.build(%r): interpreter %s, compiled %s" % (show, va, ba[1].hex(), bb[1].hex() if bb[0] == "ok" else bb)})
    # the same value with each derived member left to build (omitted from a dict, None in a list): what generated code puts into the
    # context for later members must be what the interpreter puts there
    if isinstance(t, list) and t and t[0] != "special":
        from .c01 import drop_derived
        try:
            variants = drop_derived(t, T.denorm(va))[:6]
        except Exception:
            variants = []
        for v2 in variants:
            ba = do_build(d, v2, kw)
            if ba[0] != "ok":
                continue
            bb = do_build(dc, v2, kw)
            if bb != ba:
                out.append({"sig": "C04/compiled-build-differs/derived-omitted/" + tsig, "case": dict(case, op="build"),
                            "detail": "%s.build(%r): interpreter %s, compiled %s" % (show, v2, ba[1].hex(), bb[1].hex() if bb[0] == "ok" else bb)})
    return ("ok" if not out else "bad"), out


def try_compile(d):
    try:
        with watchdog(10):
            return d.compile(), None
    except Hang:
        return None, "hang"
    except Exception as e:
        return None, type(e).__name__ + ": " + str(e)[:80]


def run_terms(unit, tier, r):
    for t, tn, L in unit["terms"]:
        d = T.mk(t)
        dc, err = try_compile(d)
        tsig = T.sig_of(t)
        if dc is None:
            r.case(nontrivial=False, outcome="compile-refused", transitions=0)
            r.extra["compile-refused:" + err.split(":")[0]] += 1
            continue
        for kw in G.kwargs_for(t):
            for data in sigma(L):
                r.states += 1
                oc, vs = compare(t, d, dc, data, kw, tsig, {"term": t, "data": data, "kw": kw})
                r.case(nontrivial=oc != "interp-rejects", outcome=oc, transitions=2, validated=1 if oc != "interp-rejects" else 0)
                for v in vs:
                    r.violation(v["sig"], v["case"], v["detail"])
            # sizeof
            sa, sb = T_sizeof(d, kw), T_sizeof(dc, kw)
            if sa != sb:
                r.violation("C04/compiled-sizeof-differs/" + tsig, {"term": t, "kw": kw, "op": "sizeof"}, "%s: sizeof %r vs compiled %r" % (T.show(t), sa, sb))
        r.sample({"term": T.show(t), "tier": tn, "L": L}, cap=2)


def T_sizeof(d, kw):
    import construct as C
    try:
        return ("ok", d.sizeof(**kw))
    except C.SizeofError:
        return ("SizeofError",)
    except Exception as e:
        return ("other", type(e).__name__)


# ------------------------------------------------------------------------- expressions

A_, B_ = ["this", "a"], ["this", "b"]
ARITH = ["+", "-", "*", "//", "%", "**", "^", "<<", ">>", "&", "|"]
CMP = ["<", "<=", ">", ">=", "==", "!="]


def int_exprs(tier):
    out = [A_, ["item", "b"], ["path", ["_params", "k"]], ["path", ["_", "_params", "k"]], ["path", ["_root", "a"]],
           ["fn", "len_", ["this", "d"]], ["un", "-", ["bin", "-", ["k", 0], A_]], ["fn", "abs_", ["bin", "-", A_, B_]]]
    for op in ARITH:
        out.append(["bin", op, A_, B_])
        out.append(["bin", op, A_, ["k", 2]])
        out.append(["bin", op, ["k", 3], B_])
        out.append(["bin", op, ["un", "-", A_], ["k", 2]])
        out.append(["bin", op, ["k", 5], ["un", "-", B_]])
        out.append(["un", "-", ["bin", op, A_, ["k", 1]]])
        out.append(["bin", op, ["un", "~", A_], ["k", 1]])
        out.append(["bin", op, ["k", -1], A_])
    for op1 in ARITH:
        for op2 in ARITH:
            inner = ["bin", op1, A_, B_]
            out.append(["bin", op2, inner, ["k", 2]])
            out.append(["bin", op2, ["k", 2], inner])
            out.append(["bin", op2, A_, ["bin", op1, B_, ["k", 1]]])
    out.append(["bin", "*", ["fn", "len_", ["this", "s"]], ["k", 2]])
    out.append(["bin", "+", ["fn", "len_", ["this", "d"]], A_])
    out.append(["fn", "max_", ["this", "lst"]])
    out.append(["fn", "sum_", ["this", "lst"]])
    out.append(["bin", "-", ["fn", "min_", ["this", "lst"]], ["k", 0]])
    return out


def bool_exprs(tier):
    out = []
    for op in CMP:
        out.append(["bin", op, A_, B_])
        out.append(["bin", op, A_, ["k", 1]])
        out.append(["bin", op, ["k", 2], B_])
        out.append(["bin", op, ["bin", "+", A_, B_], ["k", 3]])
        out.append(["bin", op, ["un", "-", A_], ["k", -1]])
        out.append(["bin", op, ["un", "~", A_], B_])
        out.append(["un", "~", ["bin", op, A_, B_]])
        out.append(["bin", op, ["this", "s"], ["k", "hi"]])
        out.append(["bin", op, ["k", "hi"], ["this", "s"]])
        out.append(["bin", op, ["this", "d"], ["k", b"\x01\x02"]])
        out.append(["bin", op, ["this", "e"], ["k", "x"]])
        for op2 in ("&", "|", "^"):
            out.append(["bin", op2, ["bin", op, A_, ["k", 1]], ["bin", "==", B_, ["k", 2]]])
            out.append(["bin", op2, ["un", "~", ["bin", op, A_, ["k", 1]]], ["bin", "!=", ["this", "s"], ["k", ""]]])
    out += [A_, ["un", "~", A_], ["un", "~", ["un", "~", B_]], ["bin", "&", A_, ["k", 1]], ["k", True], ["k", False], ["k", 0],
            ["path", ["_params", "flag"]], ["bin", "==", ["path", ["_params", "name"]], ["k", "n1"]], ["fn", "len_", ["this", "s"]],
            ["bin", "==", ["fn", "len_", ["this", "d"]], ["k", 2]]]
    return out


def key_exprs(tier):
    return [A_, ["bin", "+", A_, ["k", 1]], ["bin", "&", B_, ["k", 1]], ["this", "s"], ["this", "e"], ["bin", "==", A_, B_], ["bin", "%", A_, ["k", 2]],
            ["un", "-", A_], ["this", "d"], ["path", ["_params", "name"]]]


def exprs_for(kind, tier):
    if kind == "int":
        return int_exprs(tier)
    if kind == "bool":
        return bool_exprs(tier)
    if kind == "key":
        return key_exprs(tier)
    return int_exprs(tier)[:40] + bool_exprs(tier)[:40] + key_exprs(tier)


def slots():
    I16 = G.I(2, False, "l")
    return [
        ("Bytes", lambda E: ["Bytes", E], "int"),
        ("BytesInteger", lambda E: ["BytesInteger", E, False, False], "int"),
        ("BytesInteger.swapped", lambda E: ["BytesInteger", 2, False, E], "bool"),
        ("Array", lambda E: ["Array", E, BYTE], "int"),
        ("Array/VarInt", lambda E: ["Array", E, ["VarInt"]], "int"),
        ("Padded", lambda E: ["Padded", E, BYTE, b"\x00"], "int"),
        ("Padding", lambda E: ["Padding", E], "int"),
        ("Aligned", lambda E: ["Aligned", E, BYTE, b"\x00"], "int"),
        ("FixedSized", lambda E: ["FixedSized", E, ["GreedyBytes"]], "int"),
        ("Pointer", lambda E: ["Pointer", E, BYTE], "int"),
        ("If", lambda E: ["If", E, BYTE], "bool"),
        ("IfThenElse", lambda E: ["IfThenElse", E, BYTE, I16], "bool"),
        ("Check", lambda E: ["Struct", [["q", ["Check", E]], ["v", BYTE]]], "bool"),
        ("StopIf", lambda E: ["Struct", [["q", ["StopIf", E]], ["v", BYTE]]], "bool"),
        ("Switch", lambda E: ["Switch", E, [[0, BYTE], [1, I16], [True, ["Bytes", 3]], ["hi", ["VarInt"]], ["x", ["Flag"]], [b"\x01\x02", ["Bytes", 1]], ["n1", BYTE], [-1, ["Bytes", 2]]], None], "key"),
        ("Switch/default", lambda E: ["Switch", E, [[2, BYTE], ["lo", I16]], ["Bytes", 2]], "key"),
        ("Computed", lambda E: ["Computed", E], "any"),
        ("Rebuild", lambda E: ["Rebuild", BYTE, ["bin", "&", E, ["k", 255]]], "int"),
        ("Default", lambda E: ["Default", BYTE, ["bin", "&", E, ["k", 255]]], "int"),
        ("RepeatUntil", lambda E: ["RepeatUntil", ["expr", E], BYTE], "objbool"),
        ("PaddedString", lambda E: ["PaddedString", E, "ascii"], "int"),
        ("Seek", lambda E: ["Struct", [["sk", ["Seek", E, 0]], ["v", BYTE]]], "int"),
    ]


def obj_bool_exprs():
    O = ["obj"]
    out = []
    for op in CMP:
        out.append(["bin", op, O, ["k", 1]])
        out.append(["bin", op, ["k", 2], O])
        out.append(["bin", op, ["bin", "&", O, ["k", 3]], ["k", 1]])
        out.append(["bin", op, ["un", "-", O], ["k", -2]])
        out.append(["un", "~", ["bin", op, O, ["k", 0]]])
    return out


def host(member):
    """a,b small ints, s string, e enum label, d bytes, lst list; the member under test; dependent probes"""
    S = lambda *ms: ["Struct", [list(m) for m in ms]]
    return S(("a", BYTE), ("b", BYTE), ("s", ["PascalString", BYTE, "ascii"]), ("e", ["Enum", BYTE, [["x", 1], ["y", 2]]]), ("d", ["Bytes", 2]),
             ("lst", ["Array", 2, BYTE]), ("in", S(("x", member), ("c", ["Computed", ["path", ["_", "a"]]]))),
             ("p", ["Computed", ["path", ["in", "x"]]]), ("tail", ["Bytes", ["bin", "&", ["bin", "+", ["this", "a"], ["this", "b"]], ["k", 3]]]))


def host_inputs(tier):
    ab = INFO["bounds"][tier]["ab"]
    out = []
    rests = (b"", b"\x00\x01\x02\x03", b"\xff\xfe\xfd\xfc\xfb\xfa\xf9\xf8\xf7") if tier == "quick" else \
        (b"", b"\x01", b"\x00\x01\x02\x03", b"\x02\x01\x00\xff\x07\x09", b"\xff\xfe\xfd\xfc\xfb\xfa\xf9\xf8\xf7")
    for a in ab:
        for b in ab:
            for s, e, d in ((b"\x00", b"\x01", b"\x01\x02"), (b"\x02hi", b"\x05", b"\x01\x02"), (b"\x01x", b"\x01", b"\x00\x00"), (b"\x02hi", b"\x02", b"\x00\x00")):
                for rest in rests:
                    out.append(bytes([a, b]) + s + e + d + b"\x03\x01" + rest)
    return out


def mk_member(slot, E):
    name, mkt, kind = slot
    t = mkt(E)
    return t


def up_expr(E, levels=1):
    """the host puts the member one struct deeper than a,b,s,d: rewrite this.x -> this._.x"""
    k = E[0]
    if k in ("this", "item"):
        return ["path", ["_"] * levels + [E[1]]]
    if k == "path":
        if E[1][0] in ("_params", "_root"):
            return E
        return ["path", ["_"] * levels + list(E[1])]
    if k == "bin":
        return ["bin", E[1], up_expr(E[2], levels), up_expr(E[3], levels)]
    if k in ("un", "fn"):
        return [k, E[1], up_expr(E[2], levels)]
    return E


def mk_real_member(slot, E):
    """terms.mk cannot express RepeatUntil with an expression predicate: build that one directly"""
    import construct as C
    name, mkt, kind = slot
    if name == "RepeatUntil":
        return C.RepeatUntil(X.real(E), C.Byte)
    return T.mk(mkt(E))


def mk_host_real(slot, E):
    import construct as C
    name, mkt, kind = slot
    Em = E if kind == "objbool" else up_expr(E)
    if name in ("Check", "StopIf", "Seek"):
        Em = up_expr(E, 2)
    member = mk_real_member(slot, Em)
    return C.Struct("a" / C.Byte, "b" / C.Byte, "s" / C.PascalString(C.Byte, "ascii"), "e" / C.Enum(C.Byte, x=1, y=2), "d" / C.Bytes(2),
                    "lst" / C.Array(2, C.Byte), "in" / C.Struct("x" / member, "c" / C.Computed(C.this._.a)),
                    "p" / C.Computed(C.this["in"].x), "tail" / C.Bytes((C.this.a + C.this.b) & 3))


KW = {"k": 1, "flag": True, "name": "n1"}


def run_slot(unit, tier, r):
    slot = slots()[unit["slot"]]
    es = exprs_for(slot[2], tier) if slot[2] != "objbool" else obj_bool_exprs()
    inputs = host_inputs(tier)
    for E in es[unit["from"]:unit["to"]]:
        try:
            d = mk_host_real(slot, E)
        except Exception as e:
            r.extra["host-construction-failed"] += 1
            continue
        dc, err = try_compile(d)
        tsig = "%s(%s)" % (slot[0], expr_sig(E))
        case0 = {"slot": unit["slot"], "expr": E}
        if dc is None:
            # compile() itself failing on a documented-feature construct is a divergence: the interpreter handles it
            any_ok = any(interp_parse(d, x, KW)[0] == "ok" for x in inputs[:40])
            if any_ok and "NotImplemented" not in err:
                r.violation("C04/compile-raises/%s/%s" % (err.split(":")[0], tsig), dict(case0, op="compile"),
                            "compile() of host struct with %s(%s) raised %s although the interpreter accepts inputs" % (slot[0], X.show(E), err))
            r.case(nontrivial=False, outcome="compile-refused", transitions=0)
            continue
        for x in inputs:
            r.states += 1
            oc, vs = compare(["host", slot[0], X.show(E)], d, dc, x, KW, tsig, dict(case0, data=x))
            r.case(nontrivial=oc != "interp-rejects", outcome=oc, transitions=2, validated=1 if oc != "interp-rejects" else 0)
            for v in vs:
                r.violation(v["sig"], v["case"], v["detail"])
        r.sample({"slot": slot[0], "expr": X.show(E), "inputs": len(inputs)}, cap=2)


def expr_sig(E):
    """operator skeleton of an expression, for signatures"""
    k = E[0]
    if k == "bin":
        return "(%s%s%s)" % (expr_sig(E[2]), E[1], expr_sig(E[3]))
    if k == "un":
        return "%s%s" % (E[1], expr_sig(E[2]))
    if k == "fn":
        return "%s()" % E[1]
    if k == "k":
        return type(E[1]).__name__
    return "p"


def run_special(tier, r):
    """falsy values, lengths above 255, string keys: hand-picked shapes the grid above does not reach"""
    import construct as C
    this = C.this
    shapes = [
        ("count>255", C.Struct("n" / C.Int16ul, "xs" / C.Array(this.n, C.Byte), "t" / C.Byte), [(300).to_bytes(2, "little") + bytes(range(256)) + bytes(50)], [dict(n=0, xs=[], t=0)]),
        ("falsy-defaults", C.Struct("a" / C.Default(C.Byte, 7), "b" / C.Default(C.CString("ascii"), "dflt"), "c" / C.Default(C.Flag, True)), [b"\x00\x00\x00", b"\x07x\x00\x01"],
         [dict(a=0, b="", c=False), dict(a=None, b=None, c=None), dict(), dict(a=5)]),
        ("rebuild-len", C.Struct("n" / C.Rebuild(C.Byte, C.len_(this.d)), "d" / C.Bytes(this.n), "e" / C.Rebuild(C.Byte, this.n * 2)), [b"\x00\x00", b"\x02ab\x04"], [dict(d=b""), dict(d=b"abc")]),
        ("switch-strkey", C.Struct("k" / C.Enum(C.Byte, a=1, b=2), "v" / C.Switch(this.k, {"a": C.Byte, "b": C.Int16ub}, default=C.Pass)), [b"\x01\x05", b"\x02\x01\x02", b"\x03"],
         [dict(k="a", v=1), dict(k="b", v=258), dict(k=3, v=None), dict(k=1, v=1)]),
        ("ifthenelse-str", C.Struct("s" / C.PascalString(C.Byte, "ascii"), "v" / C.IfThenElse(this.s == "hi", C.Byte, C.Int16ub)), [b"\x02hi\x05", b"\x02ho\x00\x05", b"\x00\x01\x02"], []),
        ("focusedseq", C.FocusedSeq("b", "a" / C.Const(b"\x01"), "b" / C.Byte, "c" / C.Computed(this.b + 1)), [b"\x01\x05", b"\x02\x05"], [5, 0]),
        ("focusedseq-exprsel", C.FocusedSeq(this._params.name, "n0" / C.Const(b"\x01"), "n1" / C.Byte, "n2" / C.Default(C.Byte, 9)), [b"\x01\x05\x06", b"\x02\x05\x06"], [5, 0, None]),
        ("focusedseq-exprsel-nested", C.Struct("sel" / C.Enum(C.Byte, n1=1, n2=2), "f" / C.FocusedSeq(this._.sel, "n1" / C.Default(C.Byte, 7), "n2" / C.Default(C.Int16ub, 8))), [b"\x01\x05\x00\x06", b"\x02\x05\x00\x06"],
         [dict(sel="n1", f=3), dict(sel="n2", f=3), dict(sel="n2", f=None)]),
        # StopIf reached through wrappers that do not catch the stop themselves
        ("stopif-in-if", C.Struct("a" / C.Byte, C.If(this.a == 1, C.StopIf(True)), "b" / C.Byte), [b"\x01\x02", b"\x00\x02", b"\x01"], [dict(a=1), dict(a=1, b=2), dict(a=0, b=2)]),
        ("stopif-in-ifthenelse", C.Struct("a" / C.Byte, "x" / C.IfThenElse(this.a == 1, C.StopIf(True), C.Pass), "b" / C.Byte), [b"\x01\x02", b"\x00\x02", b"\x01"], [dict(a=1), dict(a=0, b=2)]),
        ("stopif-in-switch", C.Struct("a" / C.Byte, C.Switch(this.a, {1: C.StopIf(True), 2: C.StopIf(this.a > 5)}, default=C.Pass), "b" / C.Byte), [b"\x01\x02", b"\x02\x02", b"\x00\x02", b"\x01"],
         [dict(a=1), dict(a=2, b=3), dict(a=0, b=2)]),
        ("stopif-in-sequence", C.Sequence(C.Byte, C.If(this._params.flag, C.StopIf(True)), C.Byte), [b"\x01\x02", b"\x01"], [[1, None, 2], [1]]),
        ("stopif-nested-struct", C.Struct("a" / C.Byte, "s" / C.Struct(C.If(this._.a == 1, C.StopIf(True)), "c" / C.Byte), "b" / C.Byte), [b"\x01\x02\x03", b"\x00\x02\x03", b"\x01\x02"],
         [dict(a=1, s=dict(), b=3), dict(a=0, s=dict(c=2), b=3)]),
        ("stopif-in-array-element", C.Array(2, C.Struct("a" / C.Byte, C.If(this.a == 1, C.StopIf(True)), "b" / C.Byte)), [b"\x01\x00\x02", b"\x00\x02\x01", b"\x01\x01"],
         [[dict(a=1), dict(a=0, b=2)], [dict(a=0, b=2), dict(a=1)]]),
        ("stopif-in-focusedseq", C.Struct("a" / C.Byte, "f" / C.FocusedSeq("x", "x" / C.Byte, C.If(this._.a == 1, C.StopIf(True)), "y" / C.Byte), "b" / C.Byte), [b"\x01\x02\x03", b"\x00\x02\x03\x04"],
         [dict(a=1, f=2, b=3), dict(a=0, f=2, b=3)]),
        ("stopif-renamed-in-if", C.Struct("a" / C.Byte, "st" / C.If(this.a == 1, "inner" / C.StopIf(True)), "b" / C.Byte), [b"\x01\x02", b"\x00\x02"], [dict(a=1), dict(a=0, b=2)]),
        # unions whose members have no static size: compile() may refuse them (SizeofError today); if it accepts, it must agree
        ("union-varsize-0", C.Struct("u" / C.Union(0, "a" / C.CString("ascii"), "b" / C.VarInt), "t" / C.Byte), [b"ab\x00\x81\x01zz", b"\x00\x05\x06", b"a\x00\x07"], []),
        ("union-varsize-name", C.Struct("u" / C.Union("a", "a" / C.VarInt, "b" / C.CString("ascii"), "c" / C.PascalString(C.Byte, "ascii")), "t" / C.Byte), [b"\x81\x01\x00zz", b"\x01a\x00\x05"], []),
        ("union-varsize-mixed", C.Struct("u" / C.Union(1, "a" / C.Byte, "b" / C.VarInt, "c" / C.Int16ub), "t" / C.Byte), [b"\x81\x01\x07", b"\x01\x02\x03"], []),
        ("union-varsize-none", C.Struct("u" / C.Union(None, "a" / C.CString("ascii"), "b" / C.VarInt), "t" / C.Byte), [b"ab\x00\x81\x01zz", b"\x00\x05"], []),
        # look-ahead over a member that fails: the interpreter yields None, so the input is accepted and compiled code must agree
        ("peek-short", C.Struct("p" / C.Peek(C.Int16ub), "b" / C.Byte), [b"\x01", b"\x01\x02", b""], []),
        ("peek-short-struct", C.Struct("p" / C.Peek(C.Struct("a" / C.Byte, "b" / C.Int32ul)), "b" / C.Byte), [b"\x01\x02\x03", b"\x01\x02\x03\x04\x05"], []),
        ("peek-failing-const", C.Struct("p" / C.Peek(C.Const(b"\x07\x08")), "b" / C.Byte), [b"\x07\x08", b"\x07\x09", b"\x07"], []),
        ("peek-bad-string", C.Struct("p" / C.Peek(C.PaddedString(2, "utf8")), "b" / C.Byte), [b"\xff\xfe", b"ab"], []),
        ("peek-short-region", C.Struct("p" / C.Peek(C.Struct("a" / C.Byte, "b" / C.Prefixed(C.Byte, C.Const(b"\x01")))), "t" / C.Byte), [b"\x00\x02\x01", b"\x00\x01\x01"], []),
        ("peek-short-fixedsized", C.Struct("p" / C.Peek(C.FixedSized(4, C.GreedyBytes)), "t" / C.Byte), [b"\x01\x02", b"\x01\x02\x03\x04"], []),
        # many members / labels / cases / elements and deep nesting: generated code at the sizes where code generators hit limits
        ("many-members", C.Struct(*[("m%d" % i) / (C.Byte if i % 3 else C.Int16ub) for i in range(300)]), [bytes(range(256)) * 2, bytes(400)], [{("m%d" % i): i % 200 for i in range(300)}]),
        ("many-sequence", C.Sequence(*[C.Byte for i in range(300)]), [bytes(range(256)) + bytes(60)], [list(range(256)) + [0] * 44]),
        ("many-labels", C.Struct("e" / C.Enum(C.Int16ub, **{("l%d" % i): i for i in range(300)}), "f" / C.FlagsEnum(C.Int64ub, **{("f%d" % i): 1 << i for i in range(64)})),
         [b"\x01\x2b" + b"\x80\x00\x00\x00\x00\x00\x00\x01", b"\x02\x00" + bytes(8), b"\x00\x05" + b"\xff" * 8], [dict(e="l299", f=dict(f0=True, f63=True)), dict(e=512, f=0)]),
        ("many-cases", C.Struct("k" / C.Int16ub, "v" / C.Switch(this.k, {i: (C.Byte if i % 2 else C.Int16ub) for i in range(300)}, default=C.Bytes(3))),
         [b"\x01\x2b\x07\x08", b"\x00\x02\x07\x08", b"\x02\x00abc"], [dict(k=299, v=7), dict(k=298, v=258), dict(k=1000, v=b"xyz")]),
        ("many-elements", C.Struct("n" / C.Int16ub, "a" / C.Array(this.n, C.Byte), "b" / C.Array(5000, C.Byte)), [b"\x01\x00" + bytes(range(256)) + bytes(5000)], []),
        ("long-bytes", C.Struct("a" / C.Bytes(70000), "s" / C.PaddedString(4100, "ascii"), "t" / C.Byte), [bytes(70000) + b"ab" + bytes(4098) + b"\x07"], []),
        ("deep-nesting", (lambda mk: mk(mk, 40))(lambda mk, d: C.Struct("v" / C.Byte, "in" / mk(mk, d - 1)) if d else C.Struct("v" / C.Byte)), [bytes(range(41)), bytes(30)], []),
        ("deep-wrappers", C.Prefixed(C.Byte, C.FixedSized(6, C.Padded(5, C.Aligned(2, C.NullTerminated(C.Prefixed(C.Byte, C.Struct("a" / C.Byte, "r" / C.GreedyBytes))))))),
         [b"\x06\x02\x07\x08\x00\x00\x00", b"\x06\x01\x07\x00\x00\x00\x00"], []),
        # structs made of anonymous members only still open a scope: `_` inside them is the enclosing struct
        ("anonymous-struct-scope", C.Struct("n" / C.Byte, "body" / C.Struct(C.Const(b"\x01"), C.Padding(this._.n)), "tail" / C.Byte), [b"\x02\x01\x00\x00\x09", b"\x00\x01\x09"], [dict(n=2, body=dict(), tail=9)]),
        ("anonymous-struct-scope2", C.Struct("len" / C.Byte, "rec" / C.Struct("len" / C.Byte, "in" / C.Struct(C.Bytes(this._.len), C.Check(this._._.len == 7))), "t" / C.Byte), [b"\x07\x02ab\x09", b"\x06\x02ab\x09"], []),
        ("anonymous-struct-root", C.Struct(C.Const(b"\x01"), C.Bytes(this._params.k), C.Check(this._root._params.k == 1)), [b"\x01\x05", b"\x02\x05"], [dict()]),
        ("anonymous-sequence-scope", C.Struct("n" / C.Byte, "body" / C.Sequence(C.Const(b"\x01"), C.Bytes(this._.n)), "tail" / C.Byte), [b"\x02\x01ab\x09"], [dict(n=1, body=[None, b"x"], tail=9)]),
        ("union", C.Union(0, "a" / C.Int16ub, "b" / C.Byte, "c" / C.Bytes(2)), [b"\x01\x02", b"\x01"], [dict(a=258), dict(b=1), dict(c=b"xy")]),
        ("union-none", C.Struct("u" / C.Union(None, "a" / C.Int16ub, "b" / C.Byte), "t" / C.Byte), [b"\x01\x02\x03"], [dict(u=dict(a=5), t=1)]),
        ("union-name", C.Struct("u" / C.Union("b", "a" / C.Int16ub, "b" / C.Byte), "t" / C.Byte), [b"\x01\x02\x03"], []),
        ("prefixedarray", C.Struct("xs" / C.PrefixedArray(C.Byte, C.Int16ul), "n" / C.Computed(C.len_(this.xs))), [b"\x00", b"\x02\x01\x00\x02\x00"], [dict(xs=[]), dict(xs=[1, 2, 3])]),
        ("repeatuntil", C.RepeatUntil(C.obj_ == 0, C.Byte), [b"\x01\x02\x00\x05", b"\x00"], [[1, 0], [0], [3, 2, 0, 9]]),
        ("const-valued", C.Struct("c" / C.Const(258, C.Int16ub), "d" / C.Const(b"ab")), [b"\x01\x02ab", b"\x01\x03ab"], [dict(), dict(c=258, d=b"ab"), dict(c=None)]),
        ("mapping", C.Struct("m" / C.Mapping(C.Byte, {"x": 1, "y": 2}), "f" / C.FlagsEnum(C.Byte, a=1, b=2)), [b"\x01\x03", b"\x02\x00", b"\x03\x00"], [dict(m="x", f=dict(a=True, b=False))]),
        ("peek-complete", C.Struct("p" / C.Peek(C.Int16ub), "v" / C.Bytes(2)), [b"\x01\x02"], [dict(p=None, v=b"ab")]),
        ("bitstruct", C.BitStruct("a" / C.BitsInteger(3), "b" / C.BitsInteger(this.a), C.Padding(lambda ctx: 5 - ctx.a) if False else C.Padding(5 - this.a)), [b"\x5f", b"\x00", b"\xa0"], []),
        ("nested-root", C.Struct("n" / C.Byte, "s" / C.Struct("m" / C.Byte, "d" / C.Bytes(this._root.n + this._.n - this.m))), [b"\x02\x01abc", b"\x01\x02"], [dict(n=1, s=dict(m=1, d=b"x"))]),
        ("params", C.Struct("d" / C.Bytes(this._params.k), "e" / C.If(this._params.flag, C.Byte)), [b"\x01\x02\x03"], [dict(d=b"a", e=5)]),
        ("timestamp-free fixedsized", C.Struct("n" / C.Byte, "f" / C.FixedSized(this.n, C.GreedyRange(C.Int16ub)), "t" / C.Byte), [b"\x04\x00\x01\x00\x02\x09", b"\x03\x00\x01\x00\x09"], []),
        ("nullterminated+stripped", C.Struct("a" / C.NullTerminated(C.GreedyBytes), "b" / C.FixedSized(4, C.NullStripped(C.GreedyBytes))), [b"ab\x00cd\x00\x00", b"\x00\x00\x00\x00\x00"], []),
        ("enum-int-build", C.Enum(C.Byte, a=1, b=2), [b"\x01", b"\x09"], ["a", 1, 9, "b"]),
        ("hex-rawcopy", C.Struct("h" / C.Hex(C.Int16ub), "r" / C.RawCopy(C.Byte), "x" / C.HexDump(C.Bytes(2))), [b"\x01\x02\x03ab"], []),
        ("optional-select", C.Struct("o" / C.Optional(C.Const(b"\x01")), "s" / C.Select(C.Const(b"\x02"), C.Byte), "t" / C.Terminated), [b"\x01\x02", b"\x02", b"\x05", b"\x01\x05\x00"], []),
        ("aligned-expr", C.Struct("m" / C.Byte, "v" / C.Aligned(this.m + 2, C.Int16ub), "t" / C.Byte), [b"\x00\x01\x02\x09", b"\x02\x01\x02\x00\x00\x09"], []),
        ("checksum-free pointer", C.Struct("o" / C.Byte, "p" / C.Pointer(this.o, C.Byte), "q" / C.Pointer(-1, C.Byte), "t" / C.Tell), [b"\x02\x07\x08", b"\x00"], []),
        # a Union builds its first member that is present or builds from None: also when that member has no name
        ("union-anon-first", C.Struct("u" / C.Union(None, C.Const(b"\x01"), "a" / C.Byte, "b" / C.Int16ub), "t" / C.Byte), [b"\x01\x02\x03", b"\x02\x02\x03"], [dict(u=dict(a=5), t=1), dict(u=dict(), t=1)]),
        ("union-anon-middle", C.Struct("u" / C.Union(0, "a" / C.Byte, C.Padding(1), "b" / C.Int16ub), "t" / C.Byte), [b"\x01\x02\x03"], [dict(u=dict(b=5), t=1), dict(u=dict(a=5), t=1)]),
        ("union-pass-first", C.Union(None, C.Pass, "a" / C.Byte), [b"\x01"], [dict(a=5), dict()]),
        # data taken from elsewhere than the stream: a constant, and a context expression (this.d)
        ("restreamdata-bytes", C.Struct("r" / C.RestreamData(b"\x01\x02", C.Int16ub), "t" / C.Byte), [b"\x05", b""], [dict(r=None, t=5), dict(t=0)]),
        ("restreamdata-this", C.Struct("d" / C.Bytes(2), "r" / C.RestreamData(this.d, C.Struct("a" / C.Byte, "b" / C.Byte)), "t" / C.Byte), [b"\x01\x02\x05", b"\xff\x00\x00", b"\x01"],
         [dict(d=b"ab", r=None, t=5), dict(d=b"ab", t=0)]),
        ("restreamdata-nested", C.Struct("d" / C.Bytes(3), "s" / C.Struct("r" / C.RestreamData(this._.d, C.GreedyRange(C.Byte)), "n" / C.Computed(C.len_(this.r))), "t" / C.Byte), [b"\x01\x02\x03\x05"], []),
    ]
    for name, d, datas, values in shapes:
        dc, err = try_compile(d)
        if dc is None:
            r.extra["special-compile-refused"] += 1
            # compile() refusing is allowed: NotImplementedError, or SizeofError ("sizeof is applied during compilation")
            if "NotImplemented" not in err and not err.startswith("SizeofError"):
                r.violation("C04/compile-raises/special/" + name, {"special": name, "op": "compile"}, "compile() raised %s" % err)
            continue
        for x in datas:
            r.states += 1
            oc, vs = compare(["special", name], d, dc, x, KW, "special:" + name, {"special": name, "data": x})
            r.case(nontrivial=oc != "interp-rejects", outcome=oc, transitions=2, validated=1)
            for v in vs:
                r.violation(v["sig"], v["case"], v["detail"])
        for v in values:
            r.states += 1
            ba, bb = do_build(d, v, KW), do_build(dc, v, KW)
            r.case(nontrivial=ba[0] == "ok", outcome="build-" + ba[0], transitions=2, validated=1)
            if ba[0] == "ok" and bb != ba:
                r.violation("C04/compiled-build-differs/special:" + name, {"special": name, "value": repr(v), "op": "build"},
                            "%s.build(%r): interpreter %s, compiled %r" % (name, v, ba[1].hex(), bb[1].hex() if bb[0] == "ok" else bb))
    r.sample({"special_shapes": [s[0] for s in shapes]})


def history_family():
    """name -> factory of a fresh construct, inputs, values. Members of one family have the same layout (possibly the same
    generated source text) and differ in something the compiler links rather than prints, or in one printed constant"""
    import construct as C
    this = C.this

    class AddN(C.Adapter):
        def __init__(self, n, subcon):
            super().__init__(subcon)
            self.n = n
        def _decode(self, obj, context, path):
            return obj + self.n
        def _encode(self, obj, context, path):
            return obj - self.n

    fam = {}
    for k in (0, 3):
        fam["rebuild-lambda+%d" % k] = (lambda k=k: C.Struct(C.Const(b"~"), "length" / C.Rebuild(C.Int16ub, lambda ctx: len(ctx.data) + k), "data" / C.Bytes(3), "after" / C.Byte),
                                         [b"~\x00\x03abc\x09"], [dict(data=b"abc", after=9)])
        fam["rebuild-expr+%d" % k] = (lambda k=k: C.Struct(C.Const(b"~"), "length" / C.Rebuild(C.Int16ub, C.len_(this.data) + k), "data" / C.Bytes(3), "after" / C.Byte),
                                       [b"~\x00\x03abc\x09"], [dict(data=b"abc", after=9)])
        fam["linked-adapter+%d" % k] = (lambda k=k: C.Struct("a" / AddN(k, C.Byte), "b" / C.Byte), [b"\x05\x06"], [dict(a=9, b=1)])
        fam["default-%d" % k] = (lambda k=k: C.Struct("a" / C.Default(C.Byte, k), "b" / C.Byte), [b"\x05\x06"], [dict(b=1), dict(a=None, b=2)])
        fam["const-%d" % k] = (lambda k=k: C.Struct("a" / C.Const(k, C.Byte), "b" / C.Byte), [bytes([k, 6]), b"\x05\x06"], [dict(b=1)])
        fam["switch-%d" % k] = (lambda k=k: C.Struct("t" / C.Byte, "v" / C.Switch(this.t, {k: C.Int16ub, 7: C.Byte}, default=C.Pass)), [bytes([k, 1, 2]), b"\x07\x01", b"\x09"],
                                 [dict(t=k, v=258), dict(t=7, v=1)])
        fam["enum-%d" % k] = (lambda k=k: C.Struct("e" / C.Enum(C.Byte, a=k, b=k + 1)), [bytes([k]), bytes([k + 1]), b"\x09"], [dict(e="a"), dict(e="b"), dict(e=9)])
        fam["padding-%d" % k] = (lambda k=k: C.Struct("a" / C.Byte, C.Padding(2, pattern=bytes([k])), "b" / C.Byte), [bytes([1, k, k, 2])], [dict(a=1, b=2)])
        fam["expr-const-%d" % k] = (lambda k=k: C.Struct("n" / C.Byte, "d" / C.Bytes(this.n + k)), [b"\x01abcd", b"\x00abc"], [dict(n=1, d=b"x" * (1 + k))])
        fam["computed-lambda-%d" % k] = (lambda k=k: C.Struct("n" / C.Byte, "c" / C.Computed(lambda ctx: ctx.n + k)), [b"\x01"], [dict(n=1)])
        fam["checksum-%d" % k] = (lambda k=k: C.Struct("d" / C.RawCopy(C.Bytes(2)), "c" / C.Checksum(C.Byte, lambda b: (sum(b) + k) & 0xff, this.d.data)),
                                   [bytes([1, 2, 3 + k])], [dict(d=dict(value=b"ab"))])
    return fam


def run_history(r, tier):
    """every compile() history of length <= 2 over the family (all ordered pairs, a construct twice, a compiled instance
    compiled again): each compiled instance must behave like the construct it was compiled from, whatever was compiled before,
    and an earlier compiled instance is not disturbed by a later compile()"""
    fam = history_family()
    names = sorted(fam)
    def diff(tag, name, d, dc, ins, vals, hist):
        for x in ins:
            r.states += 1
            oc, vs = compare(["special", name], d, dc, x, KW, "history", {"history": hist, "subject": name, "data": x})
            r.case(nontrivial=oc != "interp-rejects", outcome=oc, transitions=2, validated=1)
            for v in vs:
                v["sig"] = "C04/compile-history/" + v["sig"].split("/")[1]
                v["detail"] = "after compile() history %s: %s" % (hist, v["detail"])
                r.violation(v["sig"], v["case"], v["detail"])
        for v in vals:
            r.states += 1
            ba, bb = do_build(d, v, KW), do_build(dc, v, KW)
            r.case(nontrivial=ba[0] == "ok", outcome="build-" + ba[0], transitions=2, validated=1)
            if ba[0] == "ok" and bb != ba:
                r.violation("C04/compile-history/compiled-build-differs", {"history": hist, "subject": name, "value": repr(v), "op": "build"},
                            "after compile() history %s: %s.build(%r): interpreter %s, compiled %r" % (hist, name, v, ba[1].hex(), bb[1].hex() if bb[0] == "ok" else bb))
    for a in names:
        for b in names:
            if a.rsplit("-", 1)[0].rsplit("+", 1)[0] != b.rsplit("-", 1)[0].rsplit("+", 1)[0] and tier == "quick" and (names.index(a) + names.index(b)) % 3:
                continue        # quick: all pairs within a family, a third of the cross-family pairs
            A, insA, valsA = fam[a]
            B, insB, valsB = fam[b]
            da, db = A(), B()
            ca, err = try_compile(da)
            cb, err2 = try_compile(db)
            if ca is None or cb is None:
                r.extra["history-compile-refused"] += 1
                continue
            hist = [a, b]
            diff("second", b, db, cb, insB, valsB, hist)
            diff("first-after-second", a, da, ca, insA, valsA, hist)
            cc, _ = try_compile(cb)
            if cc is not None:
                diff("recompiled", b, db, cc, insB, valsB, hist + ["compiled(%s)" % b])
        # the same object compiled twice
        A, insA, valsA = fam[a]
        da = A()
        c1, _ = try_compile(da)
        c2, _ = try_compile(da)
        if c1 is not None and c2 is not None:
            diff("twice", a, da, c2, insA, valsA, [a, a + " (same object)"])
            diff("twice-first", a, da, c1, insA, valsA, [a, a + " (same object)"])
    r.sample({"compile_histories": "ordered pairs over %d family members + same object twice + compiled instance recompiled" % len(names)})


def run_unit(unit, tier):
    r = UnitResult()
    if unit["kind"] == "history":
        run_history(r, tier)
        return r
    if unit["kind"] == "scale":
        # the size axis: generated code on large values (every format of c03.scale_cases that compile() accepts)
        from .c03 import scale_cases, real_build
        n = unit["size"]
        for t, v in scale_cases(n):
            d = T.mk(t)
            dc, err = try_compile(d)
            if dc is None:
                r.extra["scale-compile-refused"] += 1
                continue
            b = real_build(d, v, {})
            if b[0] != "ok":
                continue
            r.states += 1
            bc = do_build(dc, v, {})
            if bc != ("ok", b[1]):
                r.violation("C04/compiled-build-differs/scale:" + T.sig_of(t), {"scale": [T.show(t)[:60], n], "op": "build"},
                            "%s.build(<%d units>): interpreter %d bytes, compiled %s" % (T.show(t), n, len(b[1]), ("%d bytes" % len(bc[1])) if bc[0] == "ok" else repr(bc)))
            for data in (b[1], b[1] + b"\x07"):
                r.states += 1
                oc, vs = compare(t, d, dc, data, {}, "scale:" + T.sig_of(t), {"scale": [T.show(t)[:60], n, len(data)]})
                r.case(nontrivial=oc != "interp-rejects", outcome=oc, transitions=2, validated=1)
                for x in vs:
                    r.violation(x["sig"], x["case"], x["detail"][:500])
        r.sample({"scale_size": n})
        return r
    if unit["kind"] == "terms":
        run_terms(unit, tier, r)
    elif unit["kind"] == "slot":
        run_slot(unit, tier, r)
    else:
        run_special(tier, r)
    return r


def replay(case):
    if "term" in case:
        t = case["term"]
        d = T.mk(t)
        dc, err = try_compile(d)
        if dc is None:
            return []
        if case.get("op") == "sizeof":
            sa, sb = T_sizeof(d, case.get("kw") or {}), T_sizeof(dc, case.get("kw") or {})
            return [] if sa == sb else [{"sig": "C04/compiled-sizeof-differs", "detail": "%r vs %r" % (sa, sb)}]
        return compare(t, d, dc, case["data"], case.get("kw") or {}, T.sig_of(t), case)[1]
    if "slot" in case:
        slot = slots()[case["slot"]]
        E = case["expr"]
        d = mk_host_real(slot, E)
        dc, err = try_compile(d)
        if dc is None:
            return [{"sig": "C04/compile-raises", "detail": err}] if "NotImplemented" not in err else []
        if "data" not in case:
            return []
        return compare(["host", slot[0], X.show(E)], d, dc, case["data"], KW, "%s(%s)" % (slot[0], expr_sig(E)), case)[1]
    r = UnitResult()
    if "scale" in case:
        return [v for v in run_unit({"kind": "scale", "size": case["scale"][1]}, "quick").violations if v["case"].get("scale") == case["scale"]]
    if "history" in case:
        run_history(r, "thorough")
        return [v for v in r.violations if v["case"].get("history") == case["history"] and v["case"].get("subject") == case.get("subject")]
    run_special("quick", r)
    return [v for v in r.violations if v["case"].get("special") == case.get("special")]
