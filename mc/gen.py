"""Typed term generation: attributes, tiers T1..T5 and finite value domains.

Only well-formed compositions are produced (the library's own documented usage
conditions, DESIGN 2.1), so the explorer never wanders into documented-undefined
behaviour.  Every tier is a finite list that is enumerated completely.
"""
import itertools
from . import ref as R

# ---------------------------------------------------------------------------- attributes


class A:
    __slots__ = ("extent", "size", "nullable", "buildnone", "level", "seeks", "ctxfree", "kind")

    def __init__(self, extent, size=None, nullable=False, buildnone=False, level="byte", seeks=False, ctxfree=True, kind="other"):
        self.extent = extent        # fixed | self | greedy | zero
        self.size = size            # for fixed
        self.nullable = nullable    # can succeed consuming nothing
        self.buildnone = buildnone
        self.level = level
        self.seeks = seeks
        self.ctxfree = ctxfree
        self.kind = kind            # int | float | bytes | str | bool | label | flags | list | dict | none | other

    def copy(self, **kw):
        a = A(self.extent, self.size, self.nullable, self.buildnone, self.level, self.seeks, self.ctxfree, self.kind)
        for k, v in kw.items():
            setattr(a, k, v)
        return a


def is_const(x):
    return not isinstance(x, list)


def attrs(t):
    k = t[0]
    if k == "Int":
        return A("fixed", t[1], kind="int")
    if k == "BytesInteger":
        if is_const(t[1]):
            return A("fixed", t[1], kind="int", ctxfree=is_const(t[3]))
        return A("self", kind="int", ctxfree=False)
    if k == "Float":
        return A("fixed", t[1], kind="float")
    if k in ("VarInt", "ZigZag"):
        return A("self", kind="int")
    if k == "Bytes":
        if is_const(t[1]):
            return A("fixed", t[1], nullable=t[1] == 0, kind="bytes")
        return A("self", nullable=True, kind="bytes", ctxfree=False)
    if k == "GreedyBytes":
        return A("greedy", nullable=True, kind="bytes")
    if k == "Flag":
        return A("fixed", 1, kind="bool")
    if k == "BitsInteger":
        if is_const(t[1]):
            return A("fixed", t[1], kind="int", level="bit")
        return A("self", kind="int", level="bit", ctxfree=False)
    if k == "GreedyString":
        return A("greedy", nullable=True, kind="str")
    if k == "CString":
        return A("self", kind="str")
    if k == "PascalString":
        return A("self", kind="str")
    if k == "PaddedString":
        return A("fixed", t[1], nullable=t[1] == 0, kind="str") if is_const(t[1]) else A("self", nullable=True, kind="str", ctxfree=False)
    if k == "Enum":
        return attrs(t[1]).copy(kind="label")
    if k == "FlagsEnum":
        return attrs(t[1]).copy(kind="flags")
    if k == "Mapping":
        return attrs(t[1]).copy(kind="other")
    if k == "ConstB":
        return A("fixed", len(t[1]), nullable=len(t[1]) == 0, buildnone=True, kind="bytes")
    if k == "ConstV":
        return attrs(t[2]).copy(buildnone=True)
    if k in ("Pass", "Computed", "Check", "Index", "Error"):
        return A("zero", 0, nullable=True, buildnone=True, kind="none", ctxfree=(k in ("Pass", "Error")))
    if k == "StopIf":
        return A("zero", 0, nullable=True, buildnone=True, kind="none", ctxfree=is_const(t[1]))
    if k == "Tell":
        return A("zero", 0, nullable=True, buildnone=True, kind="int")
    if k == "Terminated":
        return A("zero", 0, nullable=True, buildnone=True, kind="none")
    if k == "Padding":
        return A("fixed", t[1], nullable=t[1] == 0, buildnone=True, kind="none") if is_const(t[1]) else A("self", nullable=True, buildnone=True, kind="none", ctxfree=False)
    if k == "Seek":
        return A("zero", 0, nullable=True, buildnone=True, seeks=True, kind="int")
    if k in ("OneOf", "NoneOf", "Hex", "HexDump", "Discard"):
        return attrs(t[1])
    if k == "Prefixed":
        a = attrs(t[2])
        return A("self", kind=a.kind, seeks=a.seeks, ctxfree=a.ctxfree, buildnone=a.buildnone)
    if k == "PrefixedArray":
        a = attrs(t[2])
        return A("self", kind="list", seeks=a.seeks, ctxfree=a.ctxfree)
    if k in ("FixedSized", "Padded"):
        a = attrs(t[2])
        if is_const(t[1]):
            return A("fixed", t[1], nullable=t[1] == 0, kind=a.kind, seeks=a.seeks, ctxfree=a.ctxfree, buildnone=a.buildnone)
        return A("self", nullable=True, kind=a.kind, seeks=a.seeks, ctxfree=False, buildnone=a.buildnone)
    if k == "Aligned":
        a = attrs(t[2])
        if a.extent == "fixed" and is_const(t[1]):
            return a.copy(size=a.size + (-a.size % t[1]))
        return a.copy(extent="self" if a.extent != "greedy" else "greedy", size=None, ctxfree=a.ctxfree and is_const(t[1]))
    if k == "NullTerminated":
        a = attrs(t[1])
        return A("self", kind=a.kind, seeks=a.seeks or not t[4], ctxfree=a.ctxfree, buildnone=a.buildnone, nullable=(not t[5]) or (not t[4]))
    if k == "NullStripped":
        a = attrs(t[1])
        return A("greedy", nullable=True, kind=a.kind, seeks=a.seeks, ctxfree=a.ctxfree, buildnone=a.buildnone)
    if k == "OffsettedEnd":
        a = attrs(t[2])
        return A("self", nullable=True, kind=a.kind, seeks=True, ctxfree=a.ctxfree, buildnone=a.buildnone)
    if k == "Array":
        a = attrs(t[2])
        if a.extent in ("fixed", "zero") and is_const(t[1]):
            return A("fixed", t[1] * a.size, nullable=t[1] * a.size == 0, kind="list", seeks=a.seeks, ctxfree=a.ctxfree)
        return A("self" if a.extent != "greedy" else "greedy", nullable=True, kind="list", seeks=a.seeks, ctxfree=a.ctxfree and is_const(t[1]))
    if k == "GreedyRange":
        a = attrs(t[1])
        return A("greedy", nullable=True, kind="list", seeks=True, ctxfree=a.ctxfree)
    if k == "RepeatUntil":
        a = attrs(t[2])
        return A("self", kind="list", seeks=a.seeks, ctxfree=a.ctxfree)
    if k == "Optional":
        a = attrs(t[1])
        return a.copy(extent="self" if a.extent != "greedy" else "greedy", size=None, nullable=True, buildnone=True, seeks=True)
    if k == "Select":
        aa = [attrs(s) for s in t[1]]
        return A("greedy" if any(a.extent == "greedy" for a in aa) else "self", nullable=any(a.nullable for a in aa),
                 buildnone=any(a.buildnone for a in aa), seeks=True, ctxfree=all(a.ctxfree for a in aa))
    if k == "If":
        a = attrs(t[2])
        if is_const(t[1]):
            return a if t[1] else A("zero", 0, nullable=True, buildnone=True, kind="none")
        return a.copy(extent="self" if a.extent != "greedy" else "greedy", size=None, nullable=True, ctxfree=False)
    if k == "IfThenElse":
        a, b = attrs(t[2]), attrs(t[3])
        if is_const(t[1]):
            return a if t[1] else b
        ext = "greedy" if "greedy" in (a.extent, b.extent) else "self"
        return A(ext, nullable=a.nullable or b.nullable, buildnone=a.buildnone and b.buildnone, seeks=a.seeks or b.seeks, ctxfree=False)
    if k == "Switch":
        subs = [s for _, s in t[2]] + ([t[3]] if t[3] is not None else [["Pass"]])
        if is_const(t[1]):
            for ck, s in t[2]:
                if ck == t[1]:
                    return attrs(s)
            return attrs(subs[-1])
        aa = [attrs(s) for s in subs]
        return A("greedy" if any(a.extent == "greedy" for a in aa) else "self", nullable=any(a.nullable for a in aa),
                 buildnone=all(a.buildnone for a in aa), seeks=any(a.seeks for a in aa), ctxfree=False)
    if k == "Rebuild":
        return attrs(t[1]).copy(buildnone=True, ctxfree=attrs(t[1]).ctxfree and is_const(t[2]))
    if k == "Default":
        return attrs(t[1]).copy(buildnone=True, ctxfree=attrs(t[1]).ctxfree and is_const(t[2]))
    if k == "ByteSwapped":
        return attrs(t[1])
    if k == "BitsSwapped":
        a = attrs(t[1])
        return a if a.extent in ("fixed", "zero") else a.copy(extent="greedy")
    if k in ("ProcessXor", "ProcessRotateLeft"):
        a = attrs(t[2] if k == "ProcessXor" else t[3])
        return a.copy(extent="greedy", size=None, nullable=True)
    if k == "RawCopy":
        return attrs(t[1]).copy(kind="dict", seeks=True)
    if k in ("Struct", "Sequence", "LazyStruct"):
        return comp_attrs([s for _, s in t[1]], "dict" if k != "Sequence" else "list")
    if k == "FocusedSeq":
        a = comp_attrs([s for _, s in t[2]], "other")
        a.buildnone = False
        return a
    if k == "Union":
        return A("self", nullable=True, seeks=True, kind="dict")
    if k == "Bitwise":
        a = attrs(t[1])
        if a.extent in ("fixed", "zero"):
            return A("fixed", a.size // 8, nullable=a.size == 0, kind=a.kind, buildnone=a.buildnone, ctxfree=a.ctxfree)
        return A("self", kind=a.kind, buildnone=a.buildnone, ctxfree=a.ctxfree)
    if k == "Bytewise":
        a = attrs(t[1])
        if a.extent in ("fixed", "zero"):
            return a.copy(size=a.size * 8, level="bit")
        return a.copy(level="bit")
    if k in ("Pointer", "Peek"):
        return A("zero", 0, nullable=True, seeks=True, buildnone=(k == "Peek"))
    if k in ("Lazy",):
        return attrs(t[1]).copy(seeks=True)
    if k == "LazyArray":
        return attrs(["Array", t[1], t[2]]).copy(seeks=True)
    if k == "Renamed":
        return attrs(t[1])
    raise ValueError("attrs: %r" % (t,))


def accepts_none(t):
    """build(None) succeeds although None is not a value the term parses to (Flag uses truthiness): 'absent' and 'falsy' collide"""
    k = t[0]
    if k == "Flag":
        return True
    a = attrs(t)
    if a.buildnone:
        return True
    if k in ("Struct", "Sequence", "LazyStruct"):
        return all(accepts_none(s) for _, s in t[1])
    if k in ("Array", "GreedyRange", "RepeatUntil", "PrefixedArray", "Enum", "FlagsEnum", "Mapping", "RawCopy", "FocusedSeq"):
        if k == "FocusedSeq":
            return all(accepts_none(s) for _, s in t[2])
        return False
    if k == "Select":
        return any(accepts_none(s) for s in t[1])
    if k == "IfThenElse":
        return accepts_none(t[2]) or accepts_none(t[3])
    if k == "Switch":
        return any(accepts_none(s) for _, s in t[2]) or (t[3] is None or accepts_none(t[3]))
    c = R.child(t)
    if c is not None:
        return accepts_none(c)
    if k == "If":
        return True
    if k == "ProcessRotateLeft":
        return accepts_none(t[3])
    return False


def comp_attrs(subs, kind):
    aa = [attrs(s) for s in subs]
    if all(a.extent in ("fixed", "zero") for a in aa):
        n = sum(a.size for a in aa)
        ext, size = "fixed", n
    elif aa and aa[-1].extent == "greedy":
        ext, size = "greedy", None
    else:
        ext, size = "self", None
    return A(ext, size, nullable=all(a.nullable for a in aa), buildnone=all(a.buildnone for a in aa),
             seeks=any(a.seeks for a in aa), ctxfree=all(a.ctxfree for a in aa), kind=kind,
             level="bit" if aa and all(a.level == "bit" for a in aa) else "byte")


def well_formed_seq(subs):
    """a greedy member may only stand last"""
    aa = [attrs(s) for s in subs]
    return all(a.extent != "greedy" for a in aa[:-1])


# -------------------------------------------------------------------------------- leaves

def I(w, signed=False, endian="b", via="name"):
    return ["Int", w, signed, endian, via]


BYTE = I(1)
ENCODINGS = ["ascii", "utf8", "utf_16_le", "utf_16_be", "utf_32_le", "utf16"]


def tier1():
    """every primitive with its whole parameter product"""
    out = []
    for w in (1, 2, 4, 8):
        for signed in (False, True):
            for e in "bln":
                out.append(I(w, signed, e, "name"))
                out.append(I(w, signed, e, "FormatField"))
                out.append(I(w, signed, e, "BytesInteger"))
    for signed in (False, True):
        for e in "bln":
            out.append(I(3, signed, e, "name"))
            out.append(I(3, signed, e, "BytesInteger"))
    for key in ((1, False, "b"), (2, False, "b"), (4, False, "b"), (8, False, "b")):
        out.append(I(key[0], key[1], key[2], "alias"))
    for w in (5, 6, 7, 16):
        for signed in (False, True):
            for e in "bl":
                out.append(I(w, signed, e, "BytesInteger"))
    for w in (2, 4, 8):
        for e in "bln":
            out.append(["Float", w, e, "name"])
            out.append(["Float", w, e, "FormatField"])
    for w in (2, 4, 8):
        out.append(["Float", w, "b", "alias"])
    out += [["VarInt"], ["ZigZag"], ["GreedyBytes"], ["Flag"]]
    for n in (0, 1, 3):
        out.append(["Bytes", n])
    for enc in ENCODINGS:
        out.append(["GreedyString", enc])
        out.append(["CString", enc])
        for lf in (BYTE, I(2, False, "l"), ["VarInt"]):
            out.append(["PascalString", lf, enc])
        for n in (0, 4, 8):
            out.append(["PaddedString", n, enc])
    for sub in (BYTE, I(2, False, "l"), ["VarInt"]):
        for labels in ([], [["a", 1]], [["a", 1], ["b", 2]], [["a", 1], ["b", 2], ["c", 1]], [["z", 0], ["m", 255]]):
            out.append(["Enum", sub, labels])
        for labels in ([], [["a", 1]], [["a", 1], ["b", 2], ["c", 4]], [["z", 0], ["m", 6], ["hi", 128], ["a", 1]],
                       [["x", 1], ["w", 2], ["r", 4], ["rw", 6], ["rwx", 7]]):
            out.append(["FlagsEnum", sub, labels])
        for labels in ([["x", 1], ["y", 2]], [["x", 1], ["dup", 1], ["z", 0]]):
            out.append(["Mapping", sub, labels])
    out += [["ConstB", b""], ["ConstB", b"ab"], ["ConstB", b"\x00"], ["ConstV", 5, BYTE], ["ConstV", 300, I(2, False, "l")],
            ["ConstV", 128, ["VarInt"]], ["ConstV", "hi", ["CString", "ascii"]], ["Pass"], ["Padding", 0], ["Padding", 3], ["Padding", 2, b"\xff"]]
    return out


def leaves14():
    return [BYTE, I(2, False, "l"), I(3, True, "b"), I(1, True, "b"), ["VarInt"], ["Float", 4, "b", "name"], ["Bytes", 2], ["GreedyBytes"],
            ["Flag"], ["CString", "utf8"], ["PascalString", BYTE, "utf8"], ["PaddedString", 4, "ascii"], ["Enum", BYTE, [["a", 1], ["b", 2]]],
            ["ConstB", b"ab"], ["GreedyString", "utf_16_le"]]


def leaves6():
    return [BYTE, I(2, False, "l"), ["VarInt"], ["GreedyBytes"], ["CString", "ascii"], ["Bytes", 2]]


def leaves3():
    return [BYTE, ["VarInt"], ["GreedyBytes"]]


# ------------------------------------------------------------------------------ wrappers

def normalises(t):
    """the region content the term re-emits differs from what it read (it strips something): a stripping or unit-framing
    wrapper directly above such a term sees content outside its own canonical forms (documented limits of NullStripped
    and of multi-byte terminators, not defects)"""
    k = t[0]
    if k == "NullStripped":
        return True
    if k in ("Hex", "HexDump", "RawCopy", "Rebuild", "Default", "OneOf", "NoneOf", "BitsSwapped", "Optional"):
        return normalises(t[1])
    if k == "ProcessXor":
        return normalises(t[2])
    if k == "ProcessRotateLeft":
        return normalises(t[3])
    if k in ("If",):
        return normalises(t[2])
    return False


def fills(t):
    """always consumes its whole region (a GreedyRange stops at the first failing element and ignores the rest, so it does not)"""
    k = t[0]
    if k in ("GreedyBytes", "GreedyString"):
        return True
    if k in ("Hex", "HexDump", "RawCopy", "Rebuild", "Default", "OneOf", "NoneOf", "NullStripped", "BitsSwapped", "Optional"):
        return fills(t[1])
    if k == "NullTerminated":
        return False
    if k in ("ProcessXor",):
        return fills(t[2])
    if k == "ProcessRotateLeft":
        return fills(t[3])
    if k == "If":
        return t[1] is True and fills(t[2])
    if k == "IfThenElse":
        return is_const(t[1]) and fills(t[2] if t[1] else t[3])
    if k == "Switch" and is_const(t[1]):
        for ck, sub in t[2]:
            if ck == t[1]:
                return fills(sub)
        return t[3] is not None and fills(t[3])
    if k in ("Struct", "Sequence"):
        return bool(t[1]) and fills(t[1][-1][1])
    if k == "FocusedSeq":
        return bool(t[2]) and fills(t[2][-1][1])
    if k == "Select":
        return all(fills(x) for x in t[1])
    return False


def wrappers(x, strict=True, small=False):
    """all well-typed single-level wrappings of x.  strict: only compositions whose value/byte round trip is
    representable (used by C01/C02); non-strict adds the rest (C03/C05/C06)."""
    a = attrs(x)
    out = []
    greedy = a.extent == "greedy"
    lfs = [BYTE, I(2, False, "l"), ["VarInt"], I(1, True, "b")] if not small else [BYTE, ["VarInt"]]
    for lf in lfs:
        out.append(["Prefixed", lf, x, False])
        if lf[0] == "Int":
            out.append(["Prefixed", lf, x, True])
    # explicit-size regions pad with zeros: in strict mode the child must either fill the region or be unable to read the padding as
    # data / to succeed on nothing (an absent Optional followed by padding re-parses as a present value)
    sizable = (not strict) or fills(x) or (not greedy and not a.nullable)
    if strict and normalises(x) and not (x[0] == "NullStripped" and x[2] == b"\x00"):
        # the zero padding of an explicit-size region is only "nothing" for a child that strips zeros itself; behind a byte
        # transform (ProcessXor(32, NullStripped(...))) the padding decodes to data
        sizable = False
    for n in ((2, 4) if small else (0, 2, 4)):
        if sizable:
            out.append(["FixedSized", n, x])
    if not greedy and sizable:
        for n, pat in ((2, b"\x00"), (4, b"\xff")):
            out.append(["Padded", n, x, pat])
        for m, pat in ((2, b"\x00"), (4, b"\xff")):
            out.append(["Aligned", m, x, pat])
    nts = [(b"\x00", False, True, True), (b"\x00", True, True, True), (b"\x00", False, False, True), (b"\x00", False, True, False),
           (b"\x00\x00", False, True, True), (b"\xff\x00", True, False, False)]
    if not small:
        nts += [(b"\x00", True, False, True), (b"\x00\x00", True, True, False), (b"\x00\x00", False, False, True), (b"\x01", False, True, True)]
    for term, inc, cons, req in nts:
        if strict and (not fills(x) or inc or not req or (len(term) > 1 and normalises(x))):
            # strict = compositions whose byte/value round trip is representable: the child must fill the region (a fixed-size
            # child may itself encode the terminator), include=True is parse-only by documentation ("building builds the
            # subcon and then writes the term", so the terminator is written twice) and require=False accepts unterminated input
            # that build always terminates (which overflows an enclosing fixed-size region)
            continue
        out.append(["NullTerminated", x, term, inc, cons, req])
    if fills(x) or not strict:
        for pad in (b"\x00", b"\x00\x00", b"\x00\x01"):
            if strict and len(pad) > 1 and not (pad == b"\x00\x00" and x[0] == "GreedyString" and R.unit_of(x[1]) == 2):
                continue    # multi-byte pads are for data made of whole units (their use in PaddedString); see DESIGN 2.1
            if strict and normalises(x) and not (x[0] == "NullStripped" and x[2] == pad):
                continue    # the child's canonical forms are not closed under this stripping (e.g. Xor in between)
            out.append(["NullStripped", x, pad])
        out.append(["ProcessXor", 0x20, x])
        if not small:
            out.append(["ProcessXor", 0, x])
            out.append(["ProcessXor", b"\x01\x02", x])
        out.append(["ProcessRotateLeft", 3, 1, x])
        if not small:
            out.append(["ProcessRotateLeft", 8, 2, x])
            out.append(["ProcessRotateLeft", 8, 3, x])
            out.append(["ProcessRotateLeft", 24, 4, x])
            out.append(["ProcessRotateLeft", -16, 3, x])
            out.append(["ProcessRotateLeft", 5, 3, x])
    if not greedy:
        for n in ((2,) if small else (0, 1, 2, 3)):
            out.append(["Array", n, x])
        if not a.nullable:
            out.append(["GreedyRange", x])
            out.append(["RepeatUntil", ["lenge", 2], x])
            if a.kind == "int":
                out.append(["RepeatUntil", ["objcmp", "==", 1], x])
            for cf in ((BYTE,) if small else (BYTE, ["VarInt"], I(2, False, "l"))):
                out.append(["PrefixedArray", cf, x])
    if not a.nullable and not a.buildnone and not (strict and accepts_none(x)):
        out.append(["Optional", x])
        out.append(["Select", [["ConstB", b"\xfe\xfd"], x]])
    out.append(["If", True, x])
    if not small:
        out.append(["If", False, x])
        out.append(["IfThenElse", False, BYTE, x])
        out.append(["Switch", 3, [[1, BYTE]], x])
    out.append(["IfThenElse", True, x, BYTE])
    out.append(["Switch", 1, [[1, x], [2, BYTE]], None])
    if a.extent == "fixed" and a.size >= 1 and a.ctxfree:
        out.append(["ByteSwapped", x])
    if a.extent == "fixed" or ((fills(x) or not strict) and not a.seeks):
        out.append(["BitsSwapped", x])      # unsized child: streaming implementation, which cannot seek (documented)
    if not (strict and a.seeks):
        out.append(["RawCopy", x])      # RawCopy.data is what the child consumed: a child that un-reads (consume=False) is outside strict
    if a.kind in ("int", "bytes", "dict"):
        out.append(["Hex", x])
    if a.kind in ("bytes", "dict"):
        out.append(["HexDump", x])
    if a.kind == "int":
        out.append(["OneOf", x, [0, 1, 2, 127, 255, 300]])
        out.append(["NoneOf", x, [0, 255]])
        if not (strict and a.nullable):
            out.append(["Default", x, 1])
        if not strict:
            out.append(["Rebuild", x, 2])   # a constant Rebuild is not a function of the data: parse(build(parse(x))) differs by design
    out.append(["Struct", [["f0", x]]])
    out.append(["Struct", [["f0", BYTE], ["f1", x]]])
    if not greedy:
        out.append(["Struct", [["f0", x], ["f1", BYTE]]])
    out.append(["Sequence", [[None, x]]])
    if not small:
        out.append(["Sequence", [[None, BYTE], ["n", x]]])
        out.append(["FocusedSeq", "f1", [["f0", ["ConstB", b"\x07"]], ["f1", x]]])
    return out


def tier2(strict=True):
    out = []
    for x in leaves14():
        out += wrappers(x, strict)
    out += bit_shapes()
    return out


def tier3(strict=True):
    out = []
    for x in leaves6():
        for w1 in wrappers(x, strict, small=True):
            for w2 in wrappers(w1, strict, small=True):
                out.append(w2)
    return out


def tier5(strict=True):
    out = []
    for x in leaves3():
        for w1 in wrappers12(x, strict):
            for w2 in wrappers12(w1, strict):
                for w3 in wrappers12(w2, strict):
                    out.append(w3)
    return out


def wrappers12(x, strict=True):
    a = attrs(x)
    greedy = a.extent == "greedy"
    out = [["Prefixed", BYTE, x, False], ["Prefixed", I(2, False, "l"), x, True], ["Struct", [["f0", BYTE], ["f1", x]]], ["If", True, x]]
    sizable = (not strict) or fills(x) or (not greedy and not a.nullable)
    if strict and normalises(x) and not (x[0] == "NullStripped" and x[2] == b"\x00"):
        sizable = False
    if sizable:
        out.append(["FixedSized", 4, x])
    if not (strict and a.seeks):
        out.append(["RawCopy", x])
    if not strict or fills(x):
        out += [["NullTerminated", x, b"\x00", False, True, True], ["ProcessXor", 0x20, x]]
        if not strict or not normalises(x) or x[0] == "NullStripped":
            out.append(["NullStripped", x, b"\x00"])
    if not greedy:
        if sizable:
            out += [["Padded", 4, x, b"\x00"], ["Aligned", 2, x, b"\xff"]]
        out.append(["Array", 2, x])
        if not a.nullable:
            out += [["GreedyRange", x], ["PrefixedArray", BYTE, x]]
    return out


def bit_shapes():
    B = lambda n, s=False, sw=False: ["BitsInteger", n, s, sw]
    shapes = [
        [["a", B(3)], ["b", B(5, True)]],
        [["a", B(4)], ["b", B(12)]],
        [["a", ["BitsInteger", 1, False, False, "Bit"]], ["b", ["BitsInteger", 4, False, False, "Nibble"]], ["c", B(3, True)]],
        [["a", B(8, True, True)], ["b", ["BitsInteger", 8, False, False, "Octet"]]],
        [["a", ["Flag"]], ["b", B(7)]],
        [["a", B(3)], [None, ["Padding", 5]]],
        [["a", B(16, False, True)]],
        [["a", B(2)], ["b", ["Bytewise", BYTE]], ["c", B(6)]],
    ]
    return [["Bitwise", ["Struct", ms]] for ms in shapes] + [["Bitwise", ["Array", 2, B(4)]], ["Bitwise", B(8, True)]]


# --------------------------------------------------------------------------- T4: shapes with context dependencies

def TH(name):
    return ["this", name]


def streaming_hosts(x):
    """x as a member of a bit-/byte-transforming wrapper whose content has no static size: such a wrapper pipes the data
    through the streaming implementation (RestreamedBytesIO: no random access, unit-wise buffering) instead of a plain buffer.
    x must not seek (documented limitation of the streaming implementation)."""
    return [["BitsSwapped", ["Struct", [["v", ["VarInt"]], ["x", x]]]],
            ["Bitwise", ["Struct", [["v", ["Bytewise", ["VarInt"]]], ["x", ["Bytewise", x]]]]]]


def streaming_terms(level=1):
    """streaming_hosts over every non-seeking context-free term of tier 1 (level 1) or tiers 1 and 2 (level 2)"""
    out = []
    for x in tier1() + (tier2() if level >= 2 else []):
        a = attrs(x)
        if x[0] == "PaddedString" and x[2] == "utf16":
            continue    # BOM-writing codec in a fixed-size field: recorded finding of C02 at tier 1, not repeated per host
        if not a.seeks and a.ctxfree:
            out += streaming_hosts(x)
    return out


def zero_size_terms():
    """every wrapper over a child of size 0 (Bytes(0), empty Array/Struct/Sequence, Pass, Padding(0), Computed): the boundary where
    "nothing to transform" shortcuts live; also as a member followed by real data"""
    S = lambda *ms: ["Struct", [list(m) for m in ms]]
    bit = ["BitsInteger", 1, False, False, "Bit"]
    zeros = [["Bytes", 0], ["Array", 0, BYTE], S(), ["Sequence", []], ["Pass"], ["Padding", 0], ["ConstB", b""], ["Array", 3, ["Pass"]]]
    bitzeros = [["Array", 0, bit], S(), ["Pass"], ["Padding", 0], ["Bytes", 0]]
    out = []
    for z in zeros:
        ws = [["ByteSwapped", z], ["BitsSwapped", z], ["Prefixed", BYTE, z, False], ["FixedSized", 0, z], ["FixedSized", 2, z], ["Padded", 0, z, b"\x00"],
              ["Padded", 2, z, b"\x00"], ["Aligned", 2, z, b"\x00"], ["NullTerminated", z, b"\x00", False, True, True], ["NullStripped", z, b"\x00"],
              ["ProcessXor", 0x20, z], ["ProcessRotateLeft", 3, 1, z], ["RawCopy", z], ["Array", 2, z], ["PrefixedArray", BYTE, z], ["Optional", z],
              ["Peek", z], ["Pointer", 0, z], ["Hex", z], ["If", True, z], ["Rebuild", z, None] if z[0] in ("Pass",) else ["If", False, z]]
        for w in ws:
            out.append(w)
            out.append(S(("h", BYTE), ("z", w), ("t", BYTE)))
    for z in bitzeros:
        for w in (["Bitwise", z], ["Bitwise", ["Bytewise", ["Bytes", 0]]]):
            out.append(w)
            out.append(S(("h", BYTE), ("z", w), ("t", BYTE)))
        out.append(["Bitwise", S(("a", ["BitsInteger", 8, False, False]), ("z", z))])
    seen, res = set(), []
    for t in out:
        k = repr(t)
        if k not in seen:
            seen.add(k)
            res.append(t)
    return res


def select_records():
    """Select / Optional between record layouts whose earlier alternative fails late (after earlier fields were processed),
    inside hosts where anything left behind by a failed alternative shows (Terminated, greedy tails, region ends, a second record)"""
    S = lambda *ms: ["Struct", [list(m) for m in ms]]
    I32, I16 = I(4, False, "b"), I(2, False, "b")
    wide = S(("v", I32), ("u", ["OneOf", BYTE, [1, 2, 3]]))
    narrow = S(("v", I16), ("u", ["NoneOf", BYTE, [1, 2, 3]]))
    tagged = S(("v", I16), ("w", I16), ("u", ["ConstV", 0x7f, BYTE]))
    seq = ["Sequence", [[None, I16], [None, ["OneOf", BYTE, [0x80, 0xff]]]]]
    recs = [["Select", [wide, narrow]], ["Select", [tagged, narrow]], ["Select", [wide, tagged, narrow]], ["Select", [tagged, wide, BYTE]],
            ["Select", [S(("v", I32), ("u", ["OneOf", BYTE, [1]])), BYTE]], ["Select", [seq, I16]], ["Select", [["Array", 3, ["OneOf", BYTE, [1, 2]]], BYTE]],
            ["Select", [["Prefixed", BYTE, S(("v", I16), ("u", ["OneOf", BYTE, [1]])), False], I16]]]
    out = []
    for rsel in recs:
        out.append(rsel)
        out.append(S(("rec", rsel), (None, ["Terminated"])))
        out.append(S(("rec", rsel), ("rest", ["GreedyBytes"])))
        out.append(["Prefixed", BYTE, S(("rec", rsel), ("tail", ["GreedyRange", BYTE])), False])
        out.append(["FixedSized", 3, ["Sequence", [[None, rsel], [None, ["GreedyBytes"]]]]])
        out.append(S(("a", rsel), ("b", rsel), (None, ["Terminated"])))
        out.append(S(("n", BYTE), ("recs", ["Array", ["this", "n"], rsel]), ("rest", ["GreedyBytes"])))
    return out


def discard_terms():
    """repeaters built with discard=True (nothing collected; bytes, positions, context effects and failures are unchanged):
    alone, as the last sized member before zero-size members, and with a count taken from the context"""
    S = lambda *ms: ["Struct", [list(m) for m in ms]]
    elems = [BYTE, I(2, False, "b"), I(4, False, "l"), ["Bytes", 2], S(("a", BYTE), ("b", I(2, False, "b"))), ["VarInt"], ["CString", "ascii"],
             ["Prefixed", BYTE, ["GreedyBytes"], False]]
    out = []
    for e in elems:
        reps = [["Array", 0, e], ["Array", 2, e], ["Array", 3, e], ["GreedyRange", e]]
        if e[0] in ("Int", "VarInt"):
            reps.append(["RepeatUntil", ["objcmp", "==", 1], e])
        for rp in reps:
            dt = ["Discard", rp]
            out.append(dt)
            out.append(S(("h", BYTE), ("v", dt), ("pos", ["Tell"]), (None, ["Terminated"])))
            out.append(S(("v", dt), ("t", BYTE)))
        out.append(S(("n", BYTE), ("v", ["Discard", ["Array", ["this", "n"], e]]), ("pos", ["Tell"])))
        out.append(["Array", 2, S(("n", BYTE), ("v", ["Discard", ["Array", ["this", "n"], e]]))])
        out.append(["Prefixed", BYTE, ["Discard", ["GreedyRange", e]], False])
        out.append(["FixedSized", 4, ["Discard", ["GreedyRange", e]]])
    return out


def tier4():
    """two- and three-member composites with every dependency pattern: (term, kwargs-list)"""
    S = lambda *ms: ["Struct", [list(m) for m in ms]]
    out = []
    n = ("n", BYTE)
    out.append(S(n, ("d", ["Bytes", TH("n")])))
    out.append(S(n, ("d", ["Array", TH("n"), BYTE])))
    out.append(S(n, ("d", ["Array", TH("n"), ["VarInt"]]), ("t", BYTE)))
    out.append(S(("n", ["VarInt"]), ("d", ["Bytes", TH("n")]), ("t", I(2, False, "l"))))
    out.append(S(n, ("d", ["FixedSized", TH("n"), ["GreedyBytes"]])))
    out.append(S(n, ("d", ["Padded", TH("n"), ["VarInt"], b"\x00"])))
    out.append(S(n, ("d", ["PaddedString", TH("n"), "ascii"])))
    out.append(S(n, ("d", ["BytesInteger", TH("n"), False, False])))
    out.append(S(("f", ["Flag"]), ("d", ["If", TH("f"), BYTE])))
    out.append(S(("f", ["Flag"]), ("d", ["IfThenElse", TH("f"), I(2, False, "l"), BYTE]), ("t", BYTE)))
    out.append(S(("k", BYTE), ("d", ["Switch", TH("k"), [[1, BYTE], [2, I(2, False, "b")]], None])))
    out.append(S(("k", BYTE), ("d", ["Switch", TH("k"), [[1, BYTE], [2, ["CString", "ascii"]]], ["VarInt"]])))
    out.append(S(("k", ["Enum", BYTE, [["a", 1], ["b", 2]]]), ("d", ["Switch", TH("k"), [["a", BYTE], ["b", I(2, False, "b")]], None])))
    out.append(S(("n", ["Rebuild", BYTE, ["fn", "len_", TH("d")]]), ("d", ["Bytes", TH("n")])))
    out.append(S(("n", ["Rebuild", ["VarInt"], ["fn", "len_", TH("d")]]), ("d", ["Array", TH("n"), I(2, False, "l")])))
    out.append(S(("n", ["Default", BYTE, 2]), ("d", ["Bytes", TH("n")])))
    # a later member whose COUNT / BRANCH depends on a member that build derives (what is in the context is the built value)
    out.append(S(("n", ["Default", BYTE, 2]), ("d", ["Array", TH("n"), BYTE])))
    out.append(S(("k", ["ConstV", 2, BYTE]), ("v", ["Switch", TH("k"), [[1, BYTE], [2, I(2, False, "b")]], None]), ("t", BYTE)))
    out.append(S(("f", ["Default", ["Flag"], True]), ("v", ["If", TH("f"), BYTE]), ("t", BYTE)))
    out.append(S(("a", BYTE), ("c", ["Computed", ["bin", "+", TH("a"), ["k", 1]]])))
    out.append(S(("a", BYTE), ("b", BYTE), ("c", ["Computed", ["bin", "*", TH("a"), TH("b")]]), ("d", ["Bytes", ["bin", "&", TH("c"), ["k", 3]]])))
    out.append(S((None, ["ConstB", b"MZ"]), ("a", BYTE), (None, ["Padding", 2])))
    out.append(S(("a", BYTE), (None, ["StopIf", ["bin", "==", TH("a"), ["k", 0]]]), ("b", BYTE)))
    out.append(S(("a", BYTE), (None, ["Check", ["bin", "<", TH("a"), ["k", 128]]]), ("b", BYTE)))
    out.append(S(n, ("inner", S(("m", BYTE), ("d", ["Bytes", ["bin", "+", ["path", ["_", "n"]], TH("m")]])))))
    out.append(S(n, ("inner", S(("d", ["Bytes", ["path", ["_root", "n"]]])))))
    out.append(S(("inner", S(("n", BYTE))), ("d", ["Bytes", ["path", ["inner", "n"]]])))
    out.append(S(n, ("arr", ["Array", 2, S(("d", ["Bytes", ["path", ["_", "n"]]]))])))
    out.append(S(("d", ["Bytes", ["path", ["_params", "k"]]]), ("t", BYTE)))
    out.append(S(n, ("d", ["Prefixed", BYTE, ["Array", TH("n"), BYTE], False])))
    out.append(S(n, ("d", ["RepeatUntil", ["ctxlenge", TH("n")], BYTE])))
    out.append(["Sequence", [["n", BYTE], ["d", ["Bytes", TH("n")]]]])
    out.append(["Sequence", [["n", BYTE], [None, ["Array", TH("n"), ["VarInt"]]], [None, BYTE]]])
    out.append(["FocusedSeq", "d", [["n", ["Rebuild", BYTE, ["fn", "len_", TH("d")]]], ["d", ["Bytes", TH("n")]]]])
    out.append(S(("n", BYTE), ("d", ["Aligned", 4, ["Bytes", TH("n")], b"\x00"]), ("t", BYTE)))
    out.append(S(("items", ["PrefixedArray", BYTE, S(("a", BYTE), ("b", ["Bytes", TH("a")]))])))
    out.append(S(("a", ["Default", BYTE, 7]), ("b", ["Default", ["CString", "ascii"], "x"])))
    out.append(S(("w", ["Flag"]), ("v", ["BytesInteger", 2, False, TH("w")]), ("t", BYTE)))
    out.append(S(("w", BYTE), ("v", ["BytesInteger", ["bin", "+", TH("w"), ["k", 1]], True, ["bin", "&", TH("w"), ["k", 1]]])))
    out.append(S(("hdr", S(("len", I(2, False, "b")), ("kind", BYTE))), ("body", ["FixedSized", ["path", ["hdr", "len"]], ["GreedyRange", BYTE]])))
    return out


def lazy_hosts():
    """every non-seeking context-free sized term of tiers 1 and 2 as a member that lazy parsing measures and skips instead of
    parsing (LazyStruct member, Lazy member of a Struct, LazyArray element)"""
    out = []
    # length-prefixed members whose payload has a static size: the library states a size for them and measures them by reading the prefix
    sized_prefixed = [["Prefixed", BYTE, I(2, False, "b"), False], ["Prefixed", BYTE, ["Bytes", 2], False], ["Prefixed", I(2, False, "b"), BYTE, True],
                      ["Prefixed", BYTE, ["Struct", [["a", BYTE], ["b", BYTE]]], False]]
    for x in tier1() + tier2(False) + sized_prefixed:
        a = attrs(x)
        if a.ctxfree and not a.seeks and (a.extent in ("fixed", "zero") or x[0] in ("Prefixed", "PrefixedArray", "PascalString")):
            # length-prefixed members too: the library states a size for them when the payload has one, and measures them by reading the prefix
            out += [["LazyStruct", [["a", x], ["b", BYTE]]], ["Struct", [["a", ["Lazy", x]], ["b", BYTE]]], ["LazyArray", 2, x], ["LazyArray", 3, x]]
    return out


def lenient_terminated():
    """require=False terminated regions (an unterminated region is accepted; build always writes the terminator) where that is
    representable: at top level, after a header, and inside a length-prefixed region - not inside fixed-size regions, which the
    added terminator would overflow"""
    out = []
    kids = [["GreedyBytes"], ["GreedyString", "ascii"], ["GreedyString", "utf_16_le"], ["GreedyRange", BYTE], ["GreedyRange", I(2, False, "b")]]
    for x in kids:
        for term in (b"\x00", b"\x00\x00", b"\xff\x00", b"\x00\x00\x00"):
            if x[0] == "GreedyString" and R.unit_of(x[1]) != len(term):
                continue
            if x[0] == "GreedyRange" and len(term) != (1 if x[1] == BYTE else 2):
                continue    # the terminator is read in steps of its own length: elements of another size could spell it across a boundary
            for cons in (True, False):
                nt = ["NullTerminated", x, term, False, cons, False]
                out.append(nt)
                out.append(["Struct", [["h", BYTE], ["v", nt]]])
                if cons:
                    out.append(["Prefixed", BYTE, nt, False])
                    out.append(["Struct", [["p", ["Prefixed", BYTE, nt, False]], ["t", BYTE]]])
    return out


def sequence_twins():
    """every tier-4 Struct shape with only named members, as a Sequence with the same named members (a Sequence keeps named members
    in the context like a Struct does; its value is the list of member values)"""
    out = []
    for t in tier4():
        if t[0] == "Struct" and all(n is not None for n, _ in t[1]):
            out.append(["Sequence", t[1]])
    return out


def kwargs_for(t):
    """keyword contexts for a term that references _params.k"""
    s = repr(t)
    if "'_params'" in s:
        return [{"k": 0}, {"k": 1}, {"k": 3}]
    return [{}]


# ------------------------------------------------------------------------ value domains

INT_ALPHA = [0, 1, 2, 126, 127, 128, 255, 256, -1, -2, -128, -129, 32767, 32768, 65535, 65536, -32768, -32769]


def int_alphabet(lo, hi):
    vals = set(v for v in INT_ALPHA if lo <= v <= hi)
    vals |= {lo, lo + 1, hi - 1, hi}
    k = 8
    while (1 << k) <= hi:
        vals.add((1 << k) - 1)
        vals.add(1 << k)
        k += 8
    return sorted(v for v in vals if lo <= v <= hi)


FLOAT_BITS = {2: [0x0000, 0x8000, 0x3c00, 0xbc00, 0x0001, 0x03ff, 0x0400, 0x7bff, 0x7c00, 0xfc00, 0x3555, 0x4248],
              4: [0x00000000, 0x80000000, 0x3f800000, 0xbf800000, 0x00000001, 0x007fffff, 0x00800000, 0x7f7fffff, 0x7f800000, 0xff800000, 0x3eaaaaab, 0x40490fdb],
              8: [0, 1 << 63, 0x3ff0000000000000, 0xbff0000000000000, 1, 0x000fffffffffffff, 0x0010000000000000, 0x7fefffffffffffff,
                  0x7ff0000000000000, 0xfff0000000000000, 0x3fd5555555555555, 0x400921fb54442d18]}

STR_ALPHA = ["", "a", "ab", "abcd", "é", "a€b"]


def values(t, cap=6):
    """finite list of (build input, expected parse result) for a context-free term.
    Expected results are in norm() form.  Derived parts are filled in."""
    k = t[0]
    if k == "Int":
        w, signed = t[1], t[2]
        lo, hi = (-(1 << (8 * w - 1)), (1 << (8 * w - 1)) - 1) if signed else (0, (1 << (8 * w)) - 1)
        out = [(v, v) for v in int_alphabet(lo, hi)]
        out.append((True, 1))
        return out
    if k == "BytesInteger":
        w, signed = t[1], t[2]
        lo, hi = (-(1 << (8 * w - 1)), (1 << (8 * w - 1)) - 1) if signed else (0, (1 << (8 * w)) - 1)
        return [(v, v) for v in int_alphabet(lo, hi)]
    if k == "Float":
        out = []
        for bits in FLOAT_BITS[t[1]]:
            x = R.float_from_bits(bits, t[1])
            out.append((x, x))
        out.append((1, 1.0))
        return out
    if k == "VarInt":
        return [(v, v) for v in [0, 1, 127, 128, 255, 16383, 16384, 2 ** 32, 2 ** 64 + 1]] + [(True, 1)]
    if k == "ZigZag":
        return [(v, v) for v in [0, 1, -1, 2, -2, 63, 64, -64, -65, 2 ** 32, -2 ** 32, 2 ** 64 + 1, -2 ** 64 - 1]]
    if k == "Bytes":
        n = t[1]
        vs = [bytes(n), bytes((i * 37 + 11) % 256 for i in range(n)), b"\xff" * n]
        out = [(v, v) for v in dict.fromkeys(vs)]
        out.append((bytearray(vs[1]), vs[1]))
        if n >= 1:
            out.append((1, (1).to_bytes(n, "big")))
        return out
    if k == "GreedyBytes":
        return [(v, v) for v in [b"", b"\x00", b"ab", b"ab\x00", b"\xff\xff\xff", b"\x00\x01", b"\x01\x02\x03\x04", b"abcdef"]] + [(bytearray(b"xy"), b"xy")]
    if k == "Flag":
        return [(True, True), (False, False), (2, True), (0, False), (None, False), ("x", True)]
    if k == "BitsInteger":
        w, signed = t[1], t[2]
        lo, hi = (-(1 << (w - 1)), (1 << (w - 1)) - 1) if signed else (0, (1 << w) - 1)
        return [(v, v) for v in int_alphabet(lo, hi)][:8]
    if k in ("GreedyString", "CString", "PascalString", "PaddedString"):
        enc = t[-1]
        out = []
        for s in STR_ALPHA:
            try:
                d = s.encode(enc) if s else b""
            except UnicodeError:
                continue
            if k == "PaddedString":
                if len(d) > t[1]:
                    continue
                if s and R.strip_pad(d, bytes(R.unit_of(enc))) != d:
                    continue
            if k == "PascalString" and t[1][0] == "Int" and len(d) > 255 and t[1][1] == 1:
                continue
            out.append((s, s))
        return out
    if k == "Enum":
        sub = values(t[1])
        last = {}
        for name, val in t[2]:
            last[val] = name
        out = []
        for name, val in t[2]:
            out.append((name, R.Label(last[val], val)))
        for vin, vout in sub[:cap]:
            if isinstance(vin, bool) or not isinstance(vin, int):
                continue
            out.append((vin, R.Label(last[vout], vout) if vout in last else vout))
        return out
    if k == "FlagsEnum":
        flags = t[2]
        def dec(v):
            return {name: (v & f) == f for name, f in flags}
        out = []
        for vin, vout in values(t[1])[:cap]:
            if isinstance(vin, bool) or not isinstance(vin, int) or vin < 0:
                continue
            out.append((vin, dec(vout)))
        names = [n for n, _ in flags]
        table = dict((n, f) for n, f in flags)
        for r in range(0, min(3, len(names) + 1)):
            for combo in itertools.combinations(names, r):
                v = 0
                for n in combo:
                    v |= table[n]
                out.append(("|".join(combo), dec(v)))
                out.append(({n: (n in combo) for n in names}, dec(v)))
        return out
    if k == "Mapping":
        last = {}
        for key, val in t[2]:
            last[val] = key
        return [(key, last[val]) for key, val in t[2]]
    if k == "ConstB":
        return [(None, t[1]), (t[1], t[1])]
    if k == "ConstV":
        return [(None, t[1]), (t[1], t[1])]
    if k == "Pass":
        return [(None, None)]
    if k == "Padding":
        return [(None, None)]
    if k in ("OneOf", "NoneOf"):
        return [(a, b) for a, b in values(t[1]) if (any(R.same_value(b, x) for x in t[2])) == (k == "OneOf") and not isinstance(a, bool)]
    if k in ("Hex", "HexDump"):
        return values(t[1], cap)
    if k == "Discard":
        return [(vin, []) for vin, _ in values(t[1], cap)]
    if k in ("Prefixed", "FixedSized", "Padded", "Aligned", "NullTerminated", "NullStripped", "ProcessXor", "ProcessRotateLeft",
             "ByteSwapped", "BitsSwapped", "Bitwise", "Bytewise", "OffsettedEnd"):
        return values(R.child(t) if R.child(t) is not None else t[3], cap)[:cap + 4]
    if k == "PrefixedArray":
        return lists_of(values(t[2], 4), [0, 1, 2, 3])
    if k == "Array":
        return lists_of(values(t[2], 4), [t[1]])
    if k == "LazyArray" and isinstance(t[1], int):
        return lists_of(values(t[2], 4), [t[1]])
    if k == "LazyStruct":
        return values(["Struct", t[1]], cap)
    if k == "Lazy":
        return values(t[1], cap)
    if k == "GreedyRange":
        return lists_of(values(t[1], 4), [0, 1, 2])
    if k == "RepeatUntil":
        p = t[1]
        vs = values(t[2], 4)
        if p[0] == "lenge":
            return lists_of(vs, [p[1]])
        if p[0] == "objcmp":
            hit = [x for x in vs if not isinstance(x[0], bool) and X_bin(p[1], x[1], p[2])]
            miss = [x for x in vs if not isinstance(x[0], bool) and not X_bin(p[1], x[1], p[2])]
            out = []
            for h in hit[:2]:
                out.append(([h[0]], [h[1]]))
                for m in miss[:2]:
                    out.append(([m[0], h[0]], [m[1], h[1]]))
                    out.append(([m[0], m[0], h[0]], [m[1], m[1], h[1]]))
            return out
        return []
    if k == "Optional":
        return values(t[1], cap)[:cap] + [(None, None)]
    if k == "Select":
        out = []
        for s in t[1]:
            out += values(s, 3)[:3]
        return out
    if k == "If":
        return values(t[2], cap) if t[1] else [(None, None)]
    if k == "IfThenElse":
        return values(t[2] if t[1] else t[3], cap)
    if k == "Switch":
        for ck, s in t[2]:
            if ck == t[1]:
                return values(s, cap)
        return values(t[3], cap) if t[3] is not None else [(None, None)]
    if k == "Rebuild":
        c = [x for x in values(t[1]) if x[0] == t[2] and not isinstance(x[0], bool)]
        return [(None, c[0][1]), (99, c[0][1])] if c else []
    if k == "Default":
        c = [x for x in values(t[1]) if x[0] == t[2] and not isinstance(x[0], bool)]
        return ([(None, c[0][1])] if c else []) + values(t[1], cap)[:cap]
    if k == "RawCopy":
        return [({"value": a}, {"value": b}) for a, b in values(t[1], cap)[:cap]]
    if k in ("Struct", "LazyStruct"):
        return struct_values(t[1], cap)
    if k == "Sequence":
        return [([d[n] if n in d else None for n in _names(t[1])], [e[n] for n in _names(t[1])])
                for d, e in struct_values([[("m%d" % i), s] for i, (_, s) in enumerate(t[1])], cap, keep_all=True)] if True else []
    if k == "FocusedSeq":
        for name, s in t[2]:
            if name == t[1]:
                return values(s, cap)
        return []
    raise ValueError("values: %r" % (t,))


def _names(ms):
    return ["m%d" % i for i in range(len(ms))]


def X_bin(op, a, b):
    return R.BIN[op](a, b)


def lists_of(vs, counts, cap=10):
    vs = [x for x in vs if True]
    out = []
    for n in counts:
        if n == 0:
            out.append(([], []))
            continue
        pool = vs[:3] if n > 1 else vs[:4]
        combos = list(itertools.product(pool, repeat=n))
        for combo in combos[:cap]:
            out.append(([c[0] for c in combo], [c[1] for c in combo]))
    return out


def struct_values(ms, cap, keep_all=False):
    per = []
    for name, s in ms:
        vs = values(s, 3)
        a = attrs(s)
        if name is None and not keep_all:
            per.append([("__absent__", None)])
        else:
            per.append(vs[:3] if len(ms) > 1 else vs[:cap + 2])
    out = []
    for combo in itertools.product(*per):
        din, dout = {}, {}
        for (name, s), (vin, vout) in zip(ms, combo):
            if name is None:
                continue
            a = attrs(s)
            if not (a.buildnone and vin is None):
                din[name] = vin
            dout[name] = vout
        out.append((din, dout))
        if len(out) >= 3 * cap:
            break
    return out
