"""Expression terms: JSON-able operator trees that render three ways -
the real construct ExprMixin object, a native evaluation (the oracle) and
(for parameter slots, C04/C07) an equivalent plain lambda.

term grammar
    ["this", name]            this.name
    ["item", name]            this["name"]
    ["up", name]              this._.name
    ["path", [n1, n2, ...]]   this.n1.n2...
    ["obj"]                   obj_
    ["k", const]              python constant (int, bool, str, bytes)
    ["bin", op, l, r]         l op r          (python operator syntax, so reflected methods are used)
    ["un", op, x]             op x            (~ is logical not: documented in docs/meta.rst)
    ["fn", name, x]           len_/sum_/min_/max_/abs_ (x)
"""
import operator as O

BIN = {"+": O.add, "-": O.sub, "*": O.mul, "/": O.truediv, "//": O.floordiv, "%": O.mod,
       "**": O.pow, "^": O.xor, "<<": O.lshift, ">>": O.rshift, "&": O.and_, "|": O.or_,
       "<": O.lt, "<=": O.le, ">": O.gt, ">=": O.ge, "==": O.eq, "!=": O.ne}
BINOPS = list(BIN)
ARITH = ["+", "-", "*", "/", "//", "%", "**", "^", "<<", ">>", "&", "|"]
CMP = ["<", "<=", ">", ">=", "==", "!="]
UNOPS = ["-", "+", "~"]
FN = {"len_": len, "sum_": sum, "min_": min, "max_": max, "abs_": abs}


class Guard(Exception):
    """native evaluation would be astronomically large: the case is skipped on both sides"""


def _guard(op, l, r):
    if op == "**" and isinstance(l, int) and isinstance(r, int):
        if r > 64 or (abs(l) > 1 << 64 and r > 4):
            raise Guard()
    if op == "<<" and isinstance(r, int) and r > 128:
        raise Guard()
    if op == "*":
        if isinstance(l, (str, bytes, list)) and isinstance(r, int) and r > 4096:
            raise Guard()
        if isinstance(r, (str, bytes, list)) and isinstance(l, int) and l > 4096:
            raise Guard()
    for x in (l, r):
        if isinstance(x, int) and abs(x) > 1 << 4096:
            raise Guard()


def native(t, ctx, obj=None):
    """Evaluate the operator tree with plain Python semantics."""
    k = t[0]
    if k == "this" or k == "item":
        return ctx[t[1]]
    if k == "up":
        return ctx["_"][t[1]]
    if k == "path":
        v = ctx
        for n in t[1]:
            v = v[n]
        return v
    if k == "obj":
        return ctx if obj is None else obj
    if k == "k":
        return t[1]
    if k == "lam":
        v = ctx
        for n in t[1]:
            v = v[n]
        return v
    if k == "bin":
        l = native(t[2], ctx, obj)
        r = native(t[3], ctx, obj)
        _guard(t[1], l, r)
        return BIN[t[1]](l, r)
    if k == "un":
        x = native(t[2], ctx, obj)
        if t[1] == "-":
            return -x
        if t[1] == "+":
            return +x
        return not x
    if k == "fn":
        return FN[t[1]](native(t[2], ctx, obj))
    raise ValueError(t)


def has_expr(t):
    k = t[0]
    if k == "k":
        return False
    if k == "lam":
        return True
    if k == "bin":
        return has_expr(t[2]) or has_expr(t[3])
    if k in ("un", "fn"):
        return has_expr(t[2])
    return True


def real(t):
    """Build the real expression object by applying Python operators to the placeholders."""
    import construct as C
    k = t[0]
    if k == "this":
        return getattr(C.this, t[1])
    if k == "item":
        return C.this[t[1]]
    if k == "up":
        return getattr(C.this._, t[1])
    if k == "path":
        v = C.this
        for n in t[1]:
            v = getattr(v, n)
        return v
    if k == "obj":
        return C.obj_
    if k == "k":
        return t[1]
    if k == "lam":
        names = list(t[1])

        def f(ctx):             # a plain lambda with attribute access, e.g. lambda ctx: ctx._.n
            v = ctx
            for n in names:
                v = getattr(v, n)
            return v
        return f
    if k == "bin":
        return BIN[t[1]](real(t[2]), real(t[3]))
    if k == "un":
        x = real(t[2])
        if t[1] == "-":
            return -x
        if t[1] == "+":
            return +x
        return ~x
    if k == "fn":
        return getattr(C, t[1])(real(t[2]))
    raise ValueError(t)


def as_lambda(t):
    """The same function as a plain lambda over the context (native semantics)."""
    return lambda ctx: native(t, ctx)


def show(t):
    k = t[0]
    if k == "this":
        return "this.%s" % t[1]
    if k == "item":
        return "this[%r]" % t[1]
    if k == "up":
        return "this._.%s" % t[1]
    if k == "path":
        return "this." + ".".join(t[1])
    if k == "obj":
        return "obj_"
    if k == "lam":
        return "(lambda ctx: ctx." + ".".join(t[1]) + ")"
    if k == "k":
        return repr(t[1])
    if k == "bin":
        return "(%s %s %s)" % (show(t[2]), t[1], show(t[3]))
    if k == "un":
        return "(%s%s)" % (t[1], show(t[2]))
    if k == "fn":
        return "%s(%s)" % (t[1], show(t[2]))
    return repr(t)


def kind(t):
    k = t[0]
    if k == "bin":
        return "bin"
    if k == "un":
        return "un"
    if k == "fn":
        return "fn"
    if k == "k":
        v = t[1]
        if isinstance(v, bool):
            return "const-bool"
        if isinstance(v, int):
            return "const-negint" if v < 0 else "const-int"
        return "const-" + type(v).__name__
    return "path"


def same(x, y):
    if type(x) is not type(y):
        return False
    if isinstance(x, float):
        return repr(x) == repr(y)
    return x == y


def eval_env():
    return {"len_": len, "sum_": sum, "min_": min, "max_": max, "abs_": abs, "__builtins__": {}}
