"""Interpreter for the KSY dialect that construct's export_ksy() emits (Kaitai Struct semantics).

run(schema, data) -> list of Field(id path, value, start, end) in stream order, end offset.
Raises KsyError when the schema is contradictory or uses something outside the dialect
(that is reported by the check as its own signature, not silently skipped).
"""
import re


class KsyError(Exception):
    pass


class KsyEOF(Exception):
    pass


class Stream:
    def __init__(self, data, base=0):
        self.data = data
        self.pos = 0
        self.base = base
        self.bitbuf = 0         # number of bits left in the current partially consumed byte
        self.bitbyte = 0

    def align(self):
        self.bitbuf = 0

    def read(self, n):
        self.align()
        if n < 0 or self.pos + n > len(self.data):
            raise KsyEOF()
        d = self.data[self.pos:self.pos + n]
        self.pos += n
        return d

    def read_all(self):
        self.align()
        d = self.data[self.pos:]
        self.pos = len(self.data)
        return d

    def read_bits(self, n):
        """big-endian bit fields (bN): MSB first, packed across byte boundaries"""
        v = 0
        for _ in range(n):
            if self.bitbuf == 0:
                if self.pos >= len(self.data):
                    raise KsyEOF()
                self.bitbyte = self.data[self.pos]
                self.pos += 1
                self.bitbuf = 8
            self.bitbuf -= 1
            v = (v << 1) | ((self.bitbyte >> self.bitbuf) & 1)
        return v

    def eof(self):
        return self.pos >= len(self.data) and self.bitbuf == 0

    def tell(self):
        return self.base + self.pos

    def bit_tell(self):
        return (self.base + self.pos) * 8 - self.bitbuf


class Field:
    __slots__ = ("path", "value", "start", "end", "bits")

    def __init__(self, path, value, start, end, bits=False):
        self.path, self.value, self.start, self.end, self.bits = path, value, start, end, bits

    def __repr__(self):
        return "Field(%s=%r @%s..%s%s)" % (".".join(map(str, self.path)), self.value, self.start, self.end, " bits" if self.bits else "")


INT_RE = re.compile(r"^([us])(\d+)(be|le)?$")      # the exporter also emits u3be / s3le (Int24), outside Kaitai's u1/u2/u4/u8
FLT_RE = re.compile(r"^f([248])(be|le)$")
BIT_RE = re.compile(r"^b(\d+)$")


def ev(expr, scope, last=None):
    """a size / count / condition: int, id of an earlier field, construct expression object, or its repr text"""
    if isinstance(expr, bool) or isinstance(expr, int):
        return expr
    if callable(expr):
        return expr(scope)
    if isinstance(expr, str):
        try:
            return scope[expr]
        except KeyError:
            pass
        try:
            return eval(expr, {"__builtins__": {}, "len_": len, "sum_": sum, "min_": min, "max_": max, "abs_": abs}, {"this": scope, "_": last})
        except Exception as e:
            raise KsyError("cannot evaluate %r: %r" % (expr, e))
    raise KsyError("unsupported expression %r" % (expr,))


class Scope(dict):
    """ids of the current type; the exporter wraps transparent constructs (IfThenElse, Prefixed ...) into sub-types but keeps
    construct's own expression text, so a name that is not an id of the sub-type resolves in the enclosing type"""
    def __missing__(self, k):
        p = dict.get(self, "_")
        if p is not None and k not in ("_", "_root"):
            return p[k]
        raise KeyError(k)

    def __getattr__(self, k):
        try:
            return self[k]
        except KeyError:
            raise AttributeError(k)


def parse_scalar(tp, s, attr, scope, schema, path, out):
    """returns value"""
    m = INT_RE.match(tp)
    if m:
        signed, n, e = m.group(1) == "s", int(m.group(2)), m.group(3) or "be"
        return int.from_bytes(s.read(n), "big" if e == "be" else "little", signed=signed)
    m = FLT_RE.match(tp)
    if m:
        import struct
        n, e = int(m.group(1)), m.group(2)
        return struct.unpack((">" if e == "be" else "<") + {2: "e", 4: "f", 8: "d"}[n], s.read(n))[0]
    m = BIT_RE.match(tp)
    if m:
        return s.read_bits(int(m.group(1)))
    if tp == "vlq_base128_le":
        v, shift = 0, 0
        while True:
            b = s.read(1)[0]
            v |= (b & 0x7f) << shift
            shift += 7
            if not b & 0x80:
                return v
    raise KsyError("type %r is not a primitive of the dialect" % tp)


class EnumValue(int):
    """an integer field with an `enum:` key: Kaitai yields the enumeration member when the value is declared, the bare integer otherwise"""
    label = None

    def __repr__(self):
        return "%s(%d)" % (self.label, int(self)) if self.label is not None else int.__repr__(self)


def parse_field(attr, s, scope, schema, path, out):
    v = parse_field_(attr, s, scope, schema, path, out)
    en = attr.get("enum")
    if en is not None:
        if en not in schema.get("enums", {}):
            raise KsyError("field %r refers to enum %r, which the schema does not declare" % (attr.get("id"), en))
        if isinstance(v, bool) or not isinstance(v, int):
            raise KsyError("enum %r on a non-integer field %r" % (en, attr.get("id")))
        table = schema["enums"][en]
        ev_ = EnumValue(v)
        if v in table:
            ev_.label = table[v]
        return ev_
    return v


def parse_field_(attr, s, scope, schema, path, out):
    """one seq entry (without repetition) -> value"""
    attr = dict(attr)
    tp = attr.get("type")
    size = attr.get("size")
    size_eos = attr.get("size-eos")
    if size is not None and size_eos:
        raise KsyError("both size and size-eos on field %r" % (attr.get("id"),))
    if "contents" in attr:
        want = bytes(attr["contents"])
        got = s.read(len(want))
        if got != want:
            raise KsyError("contents mismatch")
        return got
    if "terminator" in attr and tp not in ("strz",):
        if size_eos:
            raise KsyError("terminator combined with size-eos (reads to end of stream first) on field %r" % (attr.get("id"),))
        term = attr["terminator"]
        buf = bytearray()
        sub = s
        if size is not None:
            sub = Stream(s.read(ev(size, scope)), s.tell())
        while True:
            if sub.eof():
                if attr.get("eos-error", True):
                    raise KsyEOF()
                break
            b = sub.read(1)
            if b[0] == term:
                if attr.get("include"):
                    buf += b
                if not attr.get("consume", True):
                    sub.pos -= 1
                break
            buf += b
        raw = bytes(buf)
        if tp is None:
            return raw
        if tp == "str":
            return raw.decode(attr["encoding"])
        return parse_typed(tp, Stream(raw, 0), attr, scope, schema, path, out, whole=True)
    # sized / eos-sized region
    if size is not None or size_eos:
        start = s.tell()
        raw = s.read(ev(size, scope)) if size is not None else s.read_all()
        if "pad-right" in attr:
            raw = raw.rstrip(bytes([attr["pad-right"]]))
        if tp is None:
            return raw
        if tp == "str":
            return raw.decode(attr["encoding"])
        if tp == "strz":
            i = raw.find(b"\x00")
            if i >= 0:
                raw = raw[:i]
            return raw.decode(attr["encoding"])
        return parse_typed(tp, Stream(raw, start), attr, scope, schema, path, out, whole=True)
    if tp is None:
        raise KsyError("field %r has neither type nor size" % (attr.get("id"),))
    if tp == "strz":
        buf = bytearray()
        while True:
            b = s.read(1)
            if b == b"\x00":
                break
            buf += b
        return bytes(buf).decode(attr["encoding"])
    if tp == "str":
        raise KsyError("str without size")
    return parse_typed(tp, s, attr, scope, schema, path, out)


def parse_typed(tp, s, attr, scope, schema, path, out, whole=False):
    if tp in schema.get("types", {}):
        sub = Scope()
        sub["_"] = scope
        sub["_root"] = scope.get("_root", scope)
        vals = run_seq(schema["types"][tp]["seq"], s, sub, schema, path, out)
        return vals
    if tp in schema.get("enums", {}):
        raise KsyError("enum %r used as a type: the schema does not state the integer type of the field" % tp)
    if tp in schema.get("instances", {}):
        inst = dict(schema["instances"][tp])
        pos = ev(inst.pop("pos"), scope)
        root = s
        save = (root.pos, root.bitbuf)
        root.align()
        root.pos = pos - root.base if pos >= 0 else len(root.data) + pos
        try:
            v = parse_field(inst, root, scope, schema, path, out)
        finally:
            root.pos, root.bitbuf = save
        return v
    return parse_scalar(tp, s, attr, scope, schema, path, out)


def run_seq(seq, s, scope, schema, path, out):
    """-> dict id -> value; appends Field records (with extents) to out"""
    vals = {}
    anon = 0
    for attr in seq:
        fid = attr.get("id")
        if fid is None:
            fid = "?anon%d" % anon
            anon += 1
        if "if" in attr:
            if not ev(attr["if"], scope):
                continue
        tp = attr.get("type")
        is_bits = isinstance(tp, str) and BIT_RE.match(tp) is not None
        if not is_bits and not (isinstance(tp, str) and tp in schema.get("types", {}) and _bit_type(schema, tp)):
            if s.bitbuf:
                s.align()
        rep = attr.get("repeat")
        start = s.bit_tell() if is_bits else s.tell()
        if rep is None:
            v = parse_field(attr, s, scope, schema, path + [fid], out)
        elif rep == "expr":
            n = ev(attr["repeat-expr"], scope)
            v = []
            for i in range(n):
                v.append(parse_field(attr, s, scope, schema, path + [fid, i], out))
        elif rep == "eos":
            v = []
            while not s.eof():
                v.append(parse_field(attr, s, scope, schema, path + [fid, len(v)], out))
        elif rep == "until":
            v = []
            while True:
                x = parse_field(attr, s, scope, schema, path + [fid, len(v)], out)
                v.append(x)
                if ev(attr["repeat-until"], scope, last=x):
                    break
        else:
            raise KsyError("repeat %r" % rep)
        end = s.bit_tell() if is_bits else s.tell()
        if isinstance(tp, str) and tp in schema.get("instances", {}):
            end = start
        vals[fid] = v
        scope[fid] = v
        out.append(Field(path + [fid], v, start, end, is_bits))
    return vals


def _bit_type(schema, tp):
    seq = schema["types"][tp]["seq"]
    return bool(seq) and all(isinstance(a.get("type"), str) and BIT_RE.match(a["type"]) for a in seq)


def run(schema, data):
    s = Stream(data, 0)
    out = []
    scope = Scope()
    vals = run_seq(schema["seq"], s, scope, schema, [], out)
    s.align()
    return vals, out, s.tell()
