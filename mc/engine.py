"""Bounded-exhaustive exploration engine shared by all property checks.

A *check* (mc/props/cXX.py) provides

    units(tier)          -> list of JSON-able unit descriptors (simplest first)
    run_unit(unit, tier) -> UnitResult   (executes the real code for every case of
                            the unit, judges every execution with the oracle)
    replay(case)         -> list of violation dicts for exactly one stored case

The engine shards units over worker processes, merges the per-unit results,
classifies violations by signature against known_findings.json, writes replay
files and the evidence file, prints the VIOLATION / KNOWN-FINDING lines and
returns the exit status.  Nothing here samples: every unit returned by
units(tier) is executed, a cap that fires is reported as a cap and turns the
run into an error (never into "held").
"""
import os, sys, json, time, signal, hashlib, traceback, collections, importlib
import multiprocessing as mp

VERIF = os.path.dirname(os.path.dirname(os.path.abspath(__file__)))
REPO = os.path.realpath(os.environ.get("VERIF_REPO", "/repo"))
GUARD = "CONSTRUCT_VERIF"


def load_construct():
    """Import construct from the working tree under test (never from a copy)."""
    if "construct" not in sys.modules:
        sys.path.insert(0, REPO)
        sys.dont_write_bytecode = True
    import construct
    f = os.path.realpath(construct.__file__)
    if not f.startswith(REPO + os.sep):
        raise SystemExit("machinery error: construct imported from %s, expected under %s" % (f, REPO))
    return construct


# --------------------------------------------------------------------------------------
# watchdog

class Hang(BaseException):
    """Derives from BaseException: Select/GreedyRange swallow Exception."""


def _alarm(signum, frame):
    raise Hang()


class watchdog:
    def __init__(self, seconds=2.0):
        self.seconds = seconds

    # the budget is CPU time of this process (ITIMER_PROF), so a loaded machine cannot turn a slow execution into a "hang";
    # a wall-clock timer 20x longer is the backstop for an execution that blocks without using the CPU
    def __enter__(self):
        signal.signal(signal.SIGALRM, _alarm)
        signal.signal(signal.SIGPROF, _alarm)
        signal.setitimer(signal.ITIMER_PROF, self.seconds)
        signal.setitimer(signal.ITIMER_REAL, self.seconds * 20)

    def __exit__(self, *a):
        signal.setitimer(signal.ITIMER_PROF, 0)
        signal.setitimer(signal.ITIMER_REAL, 0)
        return False


# --------------------------------------------------------------------------------------
# results

def jkey(obj):
    return json.dumps(obj, sort_keys=True, default=jdefault, separators=(",", ":"))


def jdefault(o):
    if isinstance(o, (bytes, bytearray, memoryview)):
        return {"$b": bytes(o).hex()}
    if isinstance(o, (set, frozenset)):
        return {"$set": sorted(map(repr, o))}
    if isinstance(o, tuple):
        return list(o)
    if isinstance(o, float):
        return repr(o)
    return repr(o)


def unhex(o):
    """Inverse of jdefault for bytes, applied recursively to loaded JSON."""
    if isinstance(o, dict):
        if set(o) == {"$b"}:
            return bytes.fromhex(o["$b"])
        return {k: unhex(v) for k, v in o.items()}
    if isinstance(o, list):
        return [unhex(x) for x in o]
    return o


def h64(s):
    if not isinstance(s, (bytes, bytearray)):
        s = s.encode()
    return int.from_bytes(hashlib.blake2b(s, digest_size=8).digest(), "big")


class UnitResult:
    """Counters of one unit; merged by the parent.  Sets of hashes stay in the
    worker: units partition the case space, so distinct counts add up."""
    __slots__ = ("evals", "nontrivial", "states", "transitions", "validated", "outcomes",
                 "violations", "samples", "extra", "_seen", "_states", "export_states")

    def __init__(self):
        self.evals = 0
        self.nontrivial = 0
        self.states = 0
        self.transitions = 0
        self.validated = 0
        self.outcomes = collections.Counter()
        self.violations = []
        self.samples = []
        self.extra = collections.Counter()
        self._seen = set()
        self._states = set()
        self.export_states = False      # True: state hashes go to the parent, which counts the union over units

    # a *state* is a distinct configuration (term/context/input) the implementation was run from
    def state(self, key):
        k = h64(key if isinstance(key, (str, bytes)) else jkey(key))
        if k not in self._states:
            self._states.add(k)
            self.states += 1
            return True
        return False

    def case(self, key=None, nontrivial=True, outcome=None, transitions=1, validated=0):
        self.evals += 1
        self.transitions += transitions
        self.validated += validated
        if outcome is not None:
            self.outcomes[outcome] += 1
        if nontrivial:
            if key is None:
                self.nontrivial += 1
            else:
                k = h64(key if isinstance(key, (str, bytes)) else jkey(key))
                if k not in self._seen:
                    self._seen.add(k)
                    self.nontrivial += 1

    def violation(self, sig, case, detail):
        # keep at most 3 per signature per unit
        n = sum(1 for v in self.violations if v["sig"] == sig)
        if n < 3:
            self.violations.append({"sig": sig, "case": case, "detail": detail})
        self.extra["violations_total"] += 1

    def sample(self, s, cap=3):
        if len(self.samples) < cap:
            self.samples.append(s)

    def pack(self):
        if self.export_states:
            return {"evals": self.evals, "nontrivial": self.nontrivial, "states": 0, "state_hashes": list(self._states),
                    "transitions": self.transitions, "validated": self.validated,
                    "outcomes": dict(self.outcomes), "violations": self.violations,
                    "samples": self.samples, "extra": dict(self.extra)}
        return {"evals": self.evals, "nontrivial": self.nontrivial, "states": self.states,
                "transitions": self.transitions, "validated": self.validated,
                "outcomes": dict(self.outcomes), "violations": self.violations,
                "samples": self.samples, "extra": dict(self.extra)}


# --------------------------------------------------------------------------------------
# worker side

_MOD = None
_TIER = None


def _init(modname, tier):
    global _MOD, _TIER
    load_construct()
    _MOD = importlib.import_module(modname)
    _TIER = tier
    if hasattr(_MOD, "worker_init"):
        _MOD.worker_init(tier)


def _work(iu):
    i, unit = iu
    t0 = time.time()
    try:
        r = _MOD.run_unit(unit, _TIER)
        d = r.pack()
    except Hang:
        d = UnitResult().pack()
        d["error"] = "watchdog fired outside a guarded execution in unit %s" % (jkey(unit)[:300],)
    except BaseException:
        d = UnitResult().pack()
        d["error"] = "unit %s crashed the harness:\n%s" % (jkey(unit)[:300], traceback.format_exc())
    d["unit_index"] = i
    d["wall"] = time.time() - t0
    return d


# --------------------------------------------------------------------------------------
# parent side

def load_findings():
    p = os.path.join(VERIF, "known_findings.json")
    if not os.path.exists(p):
        return []
    with open(p) as f:
        return json.load(f)["findings"]


def _bounds(info, tier, mod):
    """the check's declared bounds for this tier, plus the shared alphabets it draws on (so the evidence names them)"""
    b = info.get("bounds", {}).get(tier, info.get("bounds", {}))
    b = dict(b) if isinstance(b, dict) else {"bounds": b}
    try:
        import inspect
        src = inspect.getsource(mod)
        from . import scale
        if "scale.sizes(" in src or "scale_cases" in src:
            b["size_axis"] = scale.sizes(tier)
        if "scale.BIG" in src:
            b["size_axis_big"] = list(scale.BIG)
        if "text_space" in src or "TEXTS" in src:
            from .props import c03
            b["text_axis"] = {"texts": len(c03.TEXTS), "unencodable_texts": len(c03.BAD_TEXTS), "raw_sequences_per_unit_size": {str(k): len(v) for k, v in c03.RAW_TEXT.items()},
                              "encodings": c03.TEXT_ENCODINGS}
    except Exception:
        pass
    return b


def run_check(pid, modname, tier, argv=()):
    t0 = time.time()
    os.environ.setdefault("PYTHONHASHSEED", "0")
    os.environ[GUARD] = "1"
    seed = int(os.environ.get("VERIF_SEED", "0") or 0)
    nproc = int(os.environ.get("VERIF_PROCS", "0") or 0) or min(16, os.cpu_count() or 1)
    max_s = float(os.environ.get("VERIF_MAX_S", "2400" if tier == "quick" else "7200"))
    load_construct()
    mod = importlib.import_module(modname)
    units = list(mod.units(tier))
    nunits = len(units)
    order = list(range(nunits))
    # the seed only rotates the unit -> worker assignment; the explored set is the same
    if seed:
        k = seed % max(1, nunits)
        order = order[k:] + order[:k]
    total = UnitResult()
    union_states = set()
    errors = []
    per_sig = collections.OrderedDict()
    done = 0
    capped = False
    samples = []
    slow = []
    work = [(i, units[i]) for i in order]
    if nproc == 1 or nunits <= 1:
        _init(modname, tier)
        results = map(_work, work)
        pool = None
    else:
        pool = mp.get_context("fork").Pool(nproc, initializer=_init, initargs=(modname, tier))
        results = pool.imap_unordered(_work, work, chunksize=1)
    try:
        for d in results:
            done += 1
            total.evals += d["evals"]
            total.nontrivial += d["nontrivial"]
            total.states += d["states"]
            if "state_hashes" in d:
                union_states.update(d["state_hashes"])
            total.transitions += d["transitions"]
            total.validated += d["validated"]
            total.outcomes.update(d["outcomes"])
            total.extra.update(d["extra"])
            if "error" in d:
                errors.append(d["error"])
            for v in d["violations"]:
                per_sig.setdefault(v["sig"], []).append(v)
            if d["samples"]:
                samples.append((d["unit_index"], d["samples"]))
            slow.append((d["wall"], d["unit_index"]))
            if time.time() - t0 > max_s:
                capped = True
                break
    finally:
        if pool is not None:
            pool.terminate()
            pool.join()
    total.states += len(union_states)
    wall = time.time() - t0

    # ----- classify violations
    findings = load_findings()
    known = {f["signature"]: f for f in findings if f.get("property") == pid and f.get("status") == "known"}
    outroot = os.environ.get("VERIF_OUT") or VERIF      # scratch runs (seeded trees) must not touch the committed evidence
    rdir = os.path.join(outroot, "replays", pid)
    new_violations = 0
    lines = []
    known_seen = []
    for sig, vs in per_sig.items():
        vs.sort(key=lambda v: len(jkey(v["case"])))
        if sig in known:
            known_seen.append(sig)
            lines.append("KNOWN-FINDING: property=%s %s [%s]" % (pid, known[sig]["text"], sig))
            continue
        os.makedirs(rdir, exist_ok=True)
        for n, v in enumerate(vs[:3]):
            name = "%s-%s-%d.json" % (pid, hashlib.sha1(sig.encode()).hexdigest()[:10], n)
            path = os.path.join(rdir, name)
            with open(path, "w") as f:
                json.dump({"property": pid, "module": modname, "signature": sig, "case": v["case"],
                           "detail": v["detail"]}, f, indent=1, default=jdefault, sort_keys=True)
            if n == 0:
                lines.append("VIOLATION property=%s replay=%s" % (pid, path))
                lines.append("  signature: %s" % sig)
                lines.append("  detail: %s" % (str(v["detail"])[:600],))
        new_violations += 1

    # ----- evidence
    samples.sort()
    flat = []
    if samples:
        picks = [samples[0], samples[len(samples) // 2], samples[-1]]
        for ui, ss in picks:
            for s in ss[:2]:
                flat.append({"unit": ui, "case": s})
    info = getattr(mod, "INFO", {})
    exhaustive = (not capped) and (not errors) and done == nunits
    ev = {
        "property_id": pid, "tier": tier, "seed": seed, "level": "model_checking",
        "coverage": {
            "states": total.states, "transitions": total.transitions,
            "traces_validated_against_impl": total.validated,
            "samples": json.loads(json.dumps(flat[:8], default=jdefault)),
            "evaluations": total.evals, "distinct_nontrivial": total.nontrivial,
            "rule": info.get("rule", ""), "exhaustive": exhaustive,
            "units_total": nunits, "units_completed": done,
            "distinct_outcome_classes": len(total.outcomes),
            "outcomes": dict(sorted(total.outcomes.items(), key=lambda kv: -kv[1])[:40]),
            "counters": dict(total.extra),
            "bounds": _bounds(info, tier, mod),
            "caps_hit": (["VERIF_MAX_S=%s" % max_s] if capped else []),
            "trusted_base": info.get("trusted_base", []),
            "known_findings_seen": known_seen,
            "violation_signatures": [s for s in per_sig if s not in known],
            "tool_versions": {"python": sys.version.split()[0], "construct_tree": REPO},
            "workers": nproc,
        },
        "assumptions": info.get("assumptions", []),
        "wall_s": round(wall, 3),
        "violations": new_violations,
    }
    os.makedirs(os.path.join(outroot, "evidence"), exist_ok=True)
    with open(os.path.join(outroot, "evidence", pid + ".json"), "w") as f:
        json.dump(ev, f, indent=1, sort_keys=True, default=jdefault)

    for l in lines:
        print(l)
    print("%s tier=%s units=%d/%d states=%d transitions=%d evaluations=%d nontrivial=%d validated=%d outcomes=%d wall=%.1fs"
          % (pid, tier, done, nunits, total.states, total.transitions, total.evals, total.nontrivial,
             total.validated, len(total.outcomes), wall))
    if os.environ.get("VERIF_VERBOSE"):
        slow.sort(reverse=True)
        print("slowest units:", [(round(w, 1), jkey(units[i])[:80]) for w, i in slow[:5]])
        print("outcomes:", dict(total.outcomes.most_common(12)))
    if errors:
        for e in errors[:5]:
            print("MACHINERY-ERROR %s: %s" % (pid, e))
        return 2
    if capped:
        print("MACHINERY-ERROR %s: time cap VERIF_MAX_S=%s reached after %d/%d units; nothing is claimed" % (pid, max_s, done, nunits))
        return 2
    if total.evals == 0 or total.states == 0:
        print("MACHINERY-ERROR %s: vacuous run (no executions)" % pid)
        return 2
    return 1 if new_violations else 0


def run_replay(path):
    load_construct()
    with open(path) as f:
        rec = json.load(f)
    mod = importlib.import_module(rec["module"])
    if hasattr(mod, "worker_init"):
        mod.worker_init("quick")
    vs = mod.replay(unhex(rec["case"]))
    if vs:
        for v in vs:
            print("VIOLATION property=%s replay=%s" % (rec["property"], path))
            print("  signature: %s" % v["sig"])
            print("  detail: %s" % (str(v["detail"])[:1000],))
        return 1
    print("replay of %s: no violation on this tree" % path)
    return 0
