"""Terms: JSON-able descriptions of constructs; mk() builds the real construct freshly.

Grammar (lists; parameters may be constants or expression terms of mc/exprs.py):

  leaves    ["Int", width, signed, endian, via]   via in name|alias|FormatField|BytesInteger
            ["BytesInteger", n, signed, swapped]  n/swapped may be expressions
            ["Float", width, endian, via]  ["VarInt"] ["ZigZag"] ["Bytes", n] ["GreedyBytes"] ["Flag"]
            ["BitsInteger", n, signed, swapped]   (bit level)
            ["GreedyString", enc] ["CString", enc] ["PascalString", lf, enc] ["PaddedString", n, enc]
            ["ConstB", bytes] ["ConstV", value, sub] ["Pass"] ["Padding", n, pattern] ["Computed", expr]
            ["Tell"] ["Index"] ["Terminated"] ["Check", expr] ["StopIf", expr] ["Error"] ["Seek", at, whence]
  adapters  ["Enum", sub, [[label, value]..]] ["FlagsEnum", sub, [[label, value]..]] ["Mapping", sub, [[key, value]..]]
            ["OneOf", sub, [values]] ["NoneOf", sub, [values]] ["Hex", sub] ["HexDump", sub] ["Discard", repeater]
  regions   ["Prefixed", lf, sub, includelength] ["PrefixedArray", cf, sub] ["FixedSized", n, sub]
            ["Padded", n, sub, pattern] ["Aligned", m, sub, pattern]
            ["NullTerminated", sub, term, include, consume, require] ["NullStripped", sub, pad] ["OffsettedEnd", k, sub]
  repeat    ["Array", n, sub] ["GreedyRange", sub] ["RepeatUntil", pred, sub]
  choice    ["Optional", sub] ["Select", [subs]] ["If", c, sub] ["IfThenElse", c, a, b] ["Switch", key, [[k, sub]..], default]
  values    ["Rebuild", sub, expr] ["Default", sub, value]
  transform ["ByteSwapped", sub] ["BitsSwapped", sub] ["ProcessXor", key, sub] ["ProcessRotateLeft", a, g, sub]
            ["Bitwise", sub] ["Bytewise", sub] ["RawCopy", sub]
  composite ["Struct", [[name|None, sub]..]] ["Sequence", [..]] ["FocusedSeq", name, [..]] ["Union", parsefrom, [..]]
            ["LazyStruct", [..]] ["LazyArray", n, sub] ["Lazy", sub]
  seeking   ["Pointer", off, sub] ["Peek", sub]
"""
import sys, math
from . import exprs as X
from .ref import Label

NATIVE_LITTLE = sys.byteorder == "little"


def px(x):
    """parameter: constant or expression term -> what the constructor takes"""
    if isinstance(x, list):
        return X.real(x)
    return x


def mk_pred(p):
    import construct as C
    if not isinstance(p, list):
        return p
    if p[0] == "objcmp":
        return X.BIN[p[1]](C.obj_, p[2])
    if p[0] == "lenge":
        n = p[1]
        return lambda obj, lst, ctx: len(lst) >= n
    if p[0] == "ctxlenge":
        e = X.as_lambda(p[1])
        return lambda obj, lst, ctx: len(lst) >= e(ctx)
    if p[0] == "objfield":
        f, op, c = p[1], X.BIN[p[2]], p[3]
        return lambda obj, lst, ctx: op(obj[f], c)
    raise ValueError(p)


def members(ms):
    out = []
    for name, sub in ms:
        c = mk(sub)
        out.append(c if name is None else name / c)
    return out


INTFMT = {1: "b", 2: "h", 4: "l", 8: "q"}
FLOATFMT = {2: "e", 4: "f", 8: "d"}
ENDCH = {"b": ">", "l": "<", "n": "="}
ALIASES = {(1, False, "b"): "Byte", (2, False, "b"): "Short", (4, False, "b"): "Int", (8, False, "b"): "Long"}
FALIASES = {(2, "b"): "Half", (4, "b"): "Single", (8, "b"): "Double"}


def mk(t):
    import construct as C
    k = t[0]
    if k == "Int":
        w, signed, endian = t[1], t[2], t[3]
        via = t[4] if len(t) > 4 else "name"
        if via == "name":
            return getattr(C, "Int%d%s%s" % (8 * w, "s" if signed else "u", endian))
        if via == "alias":
            return getattr(C, ALIASES[(w, signed, endian)])
        if via == "FormatField":
            f = INTFMT[w]
            return C.FormatField(ENDCH[endian], f if signed else f.upper())
        if via == "BytesInteger":
            return C.BytesInteger(w, signed=signed, swapped=(endian == "l" or (endian == "n" and NATIVE_LITTLE)))
        raise ValueError(t)
    if k == "BytesInteger":
        return C.BytesInteger(px(t[1]), signed=t[2], swapped=px(t[3]))
    if k == "Float":
        w, endian = t[1], t[2]
        via = t[3] if len(t) > 3 else "name"
        if via == "name":
            return getattr(C, "Float%d%s" % (8 * w, endian))
        if via == "alias":
            return getattr(C, FALIASES[(w, endian)])
        return C.FormatField(ENDCH[endian], FLOATFMT[w])
    if k == "VarInt":
        return C.VarInt
    if k == "ZigZag":
        return C.ZigZag
    if k == "Bytes":
        return C.Bytes(px(t[1]))
    if k == "GreedyBytes":
        return C.GreedyBytes
    if k == "Flag":
        return C.Flag
    if k == "BitsInteger":
        if len(t) > 4:
            return getattr(C, t[4])          # Bit / Nibble / Octet
        return C.BitsInteger(px(t[1]), signed=t[2], swapped=px(t[3]))
    if k == "GreedyString":
        return C.GreedyString(t[1])
    if k == "CString":
        return C.CString(t[1])
    if k == "PascalString":
        return C.PascalString(mk(t[1]), t[2])
    if k == "PaddedString":
        return C.PaddedString(px(t[1]), t[2])
    if k == "Enum":
        return C.Enum(mk(t[1]), **{name: val for name, val in t[2]})
    if k == "FlagsEnum":
        return C.FlagsEnum(mk(t[1]), **{name: val for name, val in t[2]})
    if k == "Mapping":
        return C.Mapping(mk(t[1]), {key: val for key, val in t[2]})
    if k == "ConstB":
        return C.Const(t[1])
    if k == "ConstV":
        return C.Const(t[1], mk(t[2]))
    if k == "Pass":
        return C.Pass
    if k == "Padding":
        return C.Padding(px(t[1]), pattern=t[2]) if len(t) > 2 else C.Padding(px(t[1]))
    if k == "Computed":
        return C.Computed(px(t[1]))
    if k == "Tell":
        return C.Tell
    if k == "Index":
        return C.Index
    if k == "Terminated":
        return C.Terminated
    if k == "Check":
        return C.Check(px(t[1]))
    if k == "StopIf":
        return C.StopIf(px(t[1]))
    if k == "Error":
        return C.Error
    if k == "Seek":
        return C.Seek(px(t[1]), px(t[2]))
    if k == "Renamed":
        return t[2] / mk(t[1])
    if k == "OneOf":
        return C.OneOf(mk(t[1]), list(t[2]))
    if k == "NoneOf":
        return C.NoneOf(mk(t[1]), list(t[2]))
    if k == "Hex":
        return C.Hex(mk(t[1]))
    if k == "HexDump":
        return C.HexDump(mk(t[1]))
    if k == "Discard":          # the repeater below built with discard=True
        sub = t[1]
        if sub[0] == "Array":
            return C.Array(px(sub[1]), mk(sub[2]), discard=True)
        if sub[0] == "GreedyRange":
            return C.GreedyRange(mk(sub[1]), discard=True)
        if sub[0] == "RepeatUntil":
            return C.RepeatUntil(mk_pred(sub[1]), mk(sub[2]), discard=True)
        raise ValueError(t)
    if k == "Prefixed":
        return C.Prefixed(mk(t[1]), mk(t[2]), includelength=t[3])
    if k == "PrefixedArray":
        return C.PrefixedArray(mk(t[1]), mk(t[2]))
    if k == "FixedSized":
        return C.FixedSized(px(t[1]), mk(t[2]))
    if k == "Padded":
        return C.Padded(px(t[1]), mk(t[2]), pattern=t[3])
    if k == "Aligned":
        return C.Aligned(px(t[1]), mk(t[2]), pattern=t[3])
    if k == "NullTerminated":
        return C.NullTerminated(mk(t[1]), term=t[2], include=t[3], consume=t[4], require=t[5])
    if k == "NullStripped":
        return C.NullStripped(mk(t[1]), pad=t[2])
    if k == "OffsettedEnd":
        return C.OffsettedEnd(px(t[1]), mk(t[2]))
    if k == "Array":
        return C.Array(px(t[1]), mk(t[2]))
    if k == "GreedyRange":
        return C.GreedyRange(mk(t[1]))
    if k == "RepeatUntil":
        return C.RepeatUntil(mk_pred(t[1]), mk(t[2]))
    if k == "Optional":
        return C.Optional(mk(t[1]))
    if k == "Select":
        return C.Select(*[mk(s) for s in t[1]])
    if k == "If":
        return C.If(px(t[1]), mk(t[2]))
    if k == "IfThenElse":
        return C.IfThenElse(px(t[1]), mk(t[2]), mk(t[3]))
    if k == "Switch":
        cases = {ck: mk(sub) for ck, sub in t[2]}
        return C.Switch(px(t[1]), cases, default=mk(t[3])) if t[3] is not None else C.Switch(px(t[1]), cases)
    if k == "Rebuild":
        return C.Rebuild(mk(t[1]), px(t[2]))
    if k == "Default":
        return C.Default(mk(t[1]), px(t[2]))
    if k == "ByteSwapped":
        return C.ByteSwapped(mk(t[1]))
    if k == "BitsSwapped":
        return C.BitsSwapped(mk(t[1]))
    if k == "ProcessXor":
        return C.ProcessXor(px(t[1]), mk(t[2]))
    if k == "ProcessRotateLeft":
        return C.ProcessRotateLeft(px(t[1]), px(t[2]), mk(t[3]))
    if k == "Bitwise":
        return C.Bitwise(mk(t[1]))
    if k == "Bytewise":
        return C.Bytewise(mk(t[1]))
    if k == "RawCopy":
        return C.RawCopy(mk(t[1]))
    if k == "Struct":
        return C.Struct(*members(t[1]))
    if k == "Sequence":
        return C.Sequence(*members(t[1]))
    if k == "FocusedSeq":
        return C.FocusedSeq(px(t[1]), *members(t[2]))
    if k == "Union":
        return C.Union(px(t[1]), *members(t[2]))
    if k == "LazyStruct":
        return C.LazyStruct(*members(t[1]))
    if k == "LazyArray":
        return C.LazyArray(px(t[1]), mk(t[2]))
    if k == "Lazy":
        return C.Lazy(mk(t[1]))
    if k == "Pointer":
        if len(t) > 3 and t[3] == "root":
            return C.Pointer(px(t[1]), mk(t[2]), stream=C.this._root._io)
        return C.Pointer(px(t[1]), mk(t[2]))
    if k == "Peek":
        return C.Peek(mk(t[1]))
    raise ValueError("terms.mk: unknown term %r" % (t,))


# --------------------------------------------------------------------------- rendering

def show(t):
    """compact human-readable rendering"""
    if not isinstance(t, list):
        return repr(t)
    k = t[0]
    if k in ("this", "item", "up", "path", "obj", "k", "bin", "un", "fn", "lam"):
        return X.show(t)
    if k == "Int":
        via = t[4] if len(t) > 4 else "name"
        s = "Int%d%s%s" % (8 * t[1], "s" if t[2] else "u", t[3])
        return s if via == "name" else "%s<%s>" % (s, via)
    if k == "Float":
        return "Float%d%s" % (8 * t[1], t[2])
    if k in ("Struct", "Sequence", "LazyStruct"):
        return "%s(%s)" % (k, ", ".join(("%s/" % n if n else "") + show(s) for n, s in t[1]))
    if k in ("FocusedSeq", "Union"):
        return "%s(%s, %s)" % (k, show(t[1]), ", ".join(("%s/" % n if n else "") + show(s) for n, s in t[2]))
    if k == "Select":
        return "Select(%s)" % ", ".join(show(s) for s in t[1])
    if k == "Switch":
        return "Switch(%s, {%s}, %s)" % (show(t[1]), ", ".join("%r: %s" % (c, show(s)) for c, s in t[2]), show(t[3]) if t[3] else "-")
    return "%s(%s)" % (k, ", ".join(show(x) if isinstance(x, list) and x and isinstance(x[0], str) else repr(x) for x in t[1:])) if len(t) > 1 else k


def kinds(t, acc=None):
    """set of construct kinds in a term (for violation signatures)"""
    if acc is None:
        acc = []
    if isinstance(t, list) and t and isinstance(t[0], str):
        if t[0] not in ("this", "item", "up", "path", "obj", "k", "bin", "un", "fn", "objcmp", "lenge", "ctxlenge", "objfield"):
            if t[0] not in acc:
                acc.append(t[0])
        for x in t[1:]:
            kinds(x, acc)
    elif isinstance(t, list):
        for x in t:
            kinds(x, acc)
    return acc


KNOWN = frozenset("""Int BytesInteger Float VarInt ZigZag Bytes GreedyBytes Flag BitsInteger GreedyString CString PascalString PaddedString
Enum FlagsEnum Mapping ConstB ConstV Pass Padding Computed Tell Index Terminated Check StopIf Error Seek Renamed OneOf NoneOf Hex HexDump
Prefixed PrefixedArray FixedSized Padded Aligned NullTerminated NullStripped OffsettedEnd Array GreedyRange RepeatUntil Optional Select If
IfThenElse Switch Rebuild Default ByteSwapped BitsSwapped ProcessXor ProcessRotateLeft Bitwise Bytewise RawCopy Struct Sequence FocusedSeq
Union LazyStruct LazyArray Lazy Pointer Peek Discard""".split())


def sig_of(t, depth=2):
    """signature part naming the responsible construct classes: the outermost `depth` kinds"""
    ks = []
    cur = t
    def walk(x, d):
        if d == 0 or not (isinstance(x, list) and x and isinstance(x[0], str)):
            return
        if x[0] not in KNOWN:
            return
        name = x[0]
        if name == "Int":
            name = "Int<%s>" % (x[4] if len(x) > 4 else "name")
        ks.append(name)
        for y in x[1:]:
            if isinstance(y, list) and y and isinstance(y[0], str):
                walk(y, d - 1)
            elif isinstance(y, list):
                for z in y:
                    if isinstance(z, list) and len(z) == 2 and isinstance(z[1], list):
                        walk(z[1], d - 1)
                    elif isinstance(z, list) and z and isinstance(z[0], str):
                        walk(z, d - 1)
    walk(t, depth)
    seen = []
    for x in ks:
        if x not in seen:
            seen.append(x)
    return ">".join(seen[:4])


# ------------------------------------------------------------------------ normalisation

def norm(v):
    """implementation value -> plain comparable value (see DESIGN 2.7); never uses Container.__eq__"""
    if isinstance(v, bool) or v is None:
        return v
    if isinstance(v, str):
        if hasattr(v, "intvalue"):
            return Label(str.__str__(v), int(v.intvalue))
        return str.__str__(v) if type(v) is not str else v
    if isinstance(v, int):
        return int(v)
    if isinstance(v, float):
        return v
    if isinstance(v, (bytes, bytearray)):
        return bytes(v)
    if isinstance(v, dict):
        if type(v).__name__ == "LazyContainer":
            return {k: norm(v[k]) for k in v.keys()}
        return {k: norm(x) for k, x in dict.items(v) if not (isinstance(k, str) and k.startswith("_"))}
    if isinstance(v, (list, tuple)):
        if type(v).__name__ == "LazyListContainer":
            return [norm(v[i]) for i in range(len(v))]
        return [norm(x) for x in v]
    if callable(v):
        return norm(v())
    return v


def eqv(a, b):
    """deep, type-strict equality; NaN == NaN; -0.0 != 0.0"""
    if isinstance(a, bool) or isinstance(b, bool):
        return isinstance(a, bool) and isinstance(b, bool) and a == b
    if isinstance(a, Label) or isinstance(b, Label):
        return isinstance(a, Label) and isinstance(b, Label) and str.__eq__(a, b) and a.intvalue == b.intvalue
    if isinstance(a, float) or isinstance(b, float):
        if not (isinstance(a, float) and isinstance(b, float)):
            return False
        if math.isnan(a) or math.isnan(b):
            return math.isnan(a) and math.isnan(b)
        return a == b and math.copysign(1, a) == math.copysign(1, b)
    if isinstance(a, dict) and isinstance(b, dict):
        return list(a.keys()) == list(b.keys()) and all(eqv(a[k], b[k]) for k in a)
    if isinstance(a, tuple) and isinstance(b, tuple):
        return len(a) == len(b) and all(eqv(x, y) for x, y in zip(a, b))
    if isinstance(a, list) and isinstance(b, list):
        return len(a) == len(b) and all(eqv(x, y) for x, y in zip(a, b))
    if type(a) is not type(b):
        return False
    return a == b


def denorm(v):
    """reference value -> something the library's build accepts (labels become their name)"""
    if isinstance(v, Label):
        return str.__str__(v)
    if isinstance(v, dict):
        return {k: denorm(x) for k, x in v.items()}
    if isinstance(v, list):
        return [denorm(x) for x in v]
    return v
