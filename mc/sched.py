"""Cooperative line-granularity scheduler for two Python threads (DESIGN 2.6).

The library has no locks or atomics, so there are no synchronisation points to hook; the
scheduling points are therefore every traced source line inside the construct package
(sys.settrace 'line' events).  Exactly one thread runs at a time (a baton of per-thread
semaphores); a schedule is the list of global step numbers at which the running thread is
preempted in favour of the other one.  Replaying a schedule is deterministic.

Limits (stated in the evidence): preemption inside a source line (between bytecodes) and
free-threaded memory effects are not modelled.
"""
import sys, threading, os


class Interleaver:
    def __init__(self, bodies, preempt_at=(), first=0, trace_prefix=None):
        assert len(bodies) == 2
        self.bodies = bodies
        self.preempt = set(preempt_at)
        self.first = first
        self.prefix = trace_prefix
        self.sems = [threading.Semaphore(0), threading.Semaphore(0)]
        self.done = [False, False]
        self.results = [None, None]
        self.step = 0
        self.steps_by_thread = [0, 0]
        self.switches = []
        self.finished = threading.Event()
        self.error = None

    def _tracer_for(self, i):
        prefix = self.prefix

        def local(frame, event, arg):
            if event == "line":
                self.step += 1
                self.steps_by_thread[i] += 1
                if self.step in self.preempt:
                    j = 1 - i
                    if not self.done[j]:
                        self.switches.append((self.step, i, j))
                        self.sems[j].release()
                        self.sems[i].acquire()
            return local

        def glob(frame, event, arg):
            if event == "call":
                fn = frame.f_code.co_filename
                if prefix is None or fn.startswith(prefix):
                    return local
            return None
        return glob

    def _main(self, i):
        self.sems[i].acquire()
        sys.settrace(self._tracer_for(i))
        try:
            try:
                self.results[i] = ("ok", self.bodies[i]())
            except BaseException as e:
                self.results[i] = ("exc", type(e).__name__, str(e)[:120])
        finally:
            sys.settrace(None)
            self.done[i] = True
            j = 1 - i
            if not self.done[j]:
                self.sems[j].release()
            else:
                self.finished.set()

    def run(self, timeout=20):
        ts = [threading.Thread(target=self._main, args=(i,), daemon=True) for i in (0, 1)]
        for t in ts:
            t.start()
        self.sems[self.first].release()
        ok = self.finished.wait(timeout)
        if not ok:
            self.error = "deadlock-or-timeout"
            # release everything so the daemon threads can end
            for s in self.sems:
                s.release()
        for t in ts:
            t.join(1)
        return self.results


def schedules(n0, n1, bound):
    """all schedules with <= bound preemptions: (first thread, [global steps to preempt at])"""
    out = [(0, []), (1, [])]
    if bound >= 1:
        for p in range(1, n0):
            out.append((0, [p]))
        for p in range(1, n1):
            out.append((1, [p]))
    if bound >= 2:
        for p in range(1, n0):
            for q in range(1, n1):
                out.append((0, [p, p + q]))
        for p in range(1, n1):
            for q in range(1, n0):
                out.append((1, [p, p + q]))
    return out
