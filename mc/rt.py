"""Guarded execution of the real construct (watchdog, outcome classification)."""
import io
from .engine import watchdog, Hang
from . import terms as T


def parse(d, data, kw=None, start=0, trail=b"", timeout=3):
    """-> ("ok", normalised value, end offset) | ("cerr", class name, path) | ("foreign", class name) | ("hang",)"""
    import construct as C
    s = io.BytesIO(bytes(start) + data + trail)
    s.seek(start)
    try:
        with watchdog(timeout):
            v = d.parse_stream(s, **(kw or {}))
            end = s.tell()          # before norm(): forcing lazy results moves the stream
            v = T.norm(v)
        return ("ok", v, end)
    except Hang:
        return ("hang",)
    except C.ConstructError as e:
        return ("cerr", type(e).__name__, getattr(e, "path", None))
    except Exception as e:
        return ("foreign", type(e).__name__, str(e)[:100])


def build(d, v, kw=None, timeout=3):
    import construct as C
    try:
        with watchdog(timeout):
            return ("ok", d.build(v, **(kw or {})))
    except Hang:
        return ("hang",)
    except C.ConstructError as e:
        return ("cerr", type(e).__name__, getattr(e, "path", None))
    except Exception as e:
        return ("foreign", type(e).__name__, str(e)[:100])


def sizeof(d, kw=None):
    import construct as C
    try:
        return ("ok", d.sizeof(**(kw or {})))
    except C.SizeofError as e:
        return ("sizeof-error", getattr(e, "path", None))
    except C.ConstructError as e:
        return ("cerr", type(e).__name__, getattr(e, "path", None))
    except Exception as e:
        return ("foreign", type(e).__name__, str(e)[:100])
