"""Stand-in for ruamel.yaml (absent in this sandbox), used only by the C19 check: export_ksy() hands its
schema dict to YAML().dump(); the property is about that dict, not about YAML text, so dump() just keeps it."""
LAST = []


class YAML:
    default_flow_style = False

    def dump(self, data, stream):
        LAST.append(data)
        stream.write("# schema captured by the verification shim\n")
