"""Independent reference semantics for the core fragment of construct.

This module never imports construct.  It interprets *terms* (see mc/terms.py for the
grammar) from first principles:

    parse(t, data, start=0, **kw)      -> (value, end_offset)          or raises Reject
    build(t, value, start=0, **kw)     -> bytes                        or raises Reject
    sizeof(t, **kw)                    -> int                          or raises Reject("SizeofError")

Values are plain Python: int, bool, float, bytes, str, list, dict (insertion ordered),
("label", name, int) for a mapped Enum value.  Reject carries the name of the
ConstructError subclass the library is documented to raise and the member path.
A foreign exception (KeyError from a missing context key, TypeError ...) means the
reference considers the case outside the library's checked domain ("any exception" for
accept/reject comparisons).
"""
import sys, operator as O
from fractions import Fraction
import math

NATIVE_LITTLE = sys.byteorder == "little"


class Reject(Exception):
    def __init__(self, kind, msg="", path=None):
        Exception.__init__(self, "%s: %s (%s)" % (kind, msg, path))
        self.kind = kind
        self.path = path


class Label(str):
    """a mapped Enum value: a string that also carries its integer (compares and hashes as the string)"""
    def __new__(cls, name, value):
        o = str.__new__(cls, name)
        o.intvalue = value
        return o

    def __int__(self):
        return self.intvalue

    def __repr__(self):
        return "Label(%s, %d)" % (str.__repr__(self), self.intvalue)


class Stop(Exception):
    """StopIf fired"""
    def __init__(self, path=None):
        self.path = path


class RefHang(Exception):
    """the construct would loop forever (repeater over an element that succeeds without consuming)"""


# ------------------------------------------------------------------------------ streams

class RS:
    """region stream: data + absolute offset of data[0] in the outermost stream"""
    __slots__ = ("data", "base", "pos", "log")

    def __init__(self, data, base=0, log=None):
        self.data = data
        self.base = base
        self.pos = 0
        self.log = log

    def read(self, n, path):
        if n < 0:
            raise Reject("StreamError", "negative length", path)
        avail = len(self.data) - self.pos
        if avail < 0:
            avail = 0
        if n > avail:
            self.pos = max(self.pos, len(self.data))
            raise Reject("StreamError", "short read", path)
        if self.log is not None:
            self.log.append((self.base + self.pos, n, path))    # successful reads only
        d = self.data[self.pos:self.pos + n]
        self.pos += n
        return d

    def read_all(self, path):
        d = self.data[self.pos:]
        if self.log is not None:
            self.log.append((self.base + self.pos, None, path))
        self.pos = max(self.pos, len(self.data))
        return d

    def tell(self):
        return self.base + self.pos

    def seek(self, off, whence, path):
        if whence == 0:
            p = off - self.base
        elif whence == 1:
            p = self.pos + off
        elif whence == 2:
            p = len(self.data) + off
        else:
            raise Reject("StreamError", "whence", path)
        if p < 0:
            if whence == 0:
                raise Reject("StreamError", "negative seek", path)
            p = 0           # BytesIO clamps relative and end-relative seeks at the start
        self.pos = p
        return self.tell()


class WS:
    """output stream model (BytesIO semantics: writing past the end zero-fills)"""
    __slots__ = ("buf", "pos", "base")

    def __init__(self, base=0, initial=b""):
        self.buf = bytearray(initial)
        self.pos = len(initial)
        self.base = base

    def write(self, d):
        if self.pos > len(self.buf):
            self.buf += bytes(self.pos - len(self.buf))
        self.buf[self.pos:self.pos + len(d)] = d
        self.pos += len(d)

    def tell(self):
        return self.base + self.pos

    def seek(self, off, whence, path):
        if whence == 0:
            p = off - self.base
        elif whence == 1:
            p = self.pos + off
        else:
            p = len(self.buf) + off
        if p < 0:
            if whence == 0:
                raise Reject("StreamError", "negative seek", path)
            p = 0
        self.pos = p
        return self.tell()

    def getvalue(self):
        return bytes(self.buf)


# --------------------------------------------------------------------------- expressions

BIN = {"+": O.add, "-": O.sub, "*": O.mul, "/": O.truediv, "//": O.floordiv, "%": O.mod,
       "**": O.pow, "^": O.xor, "<<": O.lshift, ">>": O.rshift, "&": O.and_, "|": O.or_,
       "<": O.lt, "<=": O.le, ">": O.gt, ">=": O.ge, "==": O.eq, "!=": O.ne}
FN = {"len_": len, "sum_": sum, "min_": min, "max_": max, "abs_": abs}


def is_expr(x):
    return isinstance(x, list)


def ev(x, ctx, obj=None):
    """evaluate a parameter: constant or expression term"""
    if not isinstance(x, list):
        return x
    k = x[0]
    if k == "this" or k == "item":
        return ctx[x[1]]
    if k == "up":
        return ctx["_"][x[1]]
    if k == "path" or k == "lam":
        v = ctx
        for n in x[1]:
            v = v[n]
        return v
    if k == "obj":
        return obj
    if k == "k":
        return x[1]
    if k == "bin":
        return BIN[x[1]](ev(x[2], ctx, obj), ev(x[3], ctx, obj))
    if k == "un":
        v = ev(x[2], ctx, obj)
        return -v if x[1] == "-" else (+v if x[1] == "+" else (not v))
    if k == "fn":
        return FN[x[1]](ev(x[2], ctx, obj))
    raise ValueError(x)


# ------------------------------------------------------------------------------ scalars

def int_from_bytes(data, signed, little):
    if little:
        data = data[::-1]
    n = 0
    for b in data:
        n = (n << 8) | b
    if signed and data and (data[0] & 0x80):
        n -= 1 << (8 * len(data))
    return n


def int_to_bytes(n, width, signed, little):
    """None when out of range"""
    bits = 8 * width
    if signed:
        lo, hi = -(1 << (bits - 1)), (1 << (bits - 1)) - 1
    else:
        lo, hi = 0, (1 << bits) - 1
    if not lo <= n <= hi:
        return None
    if n < 0:
        n += 1 << bits
    out = bytes((n >> (8 * (width - 1 - i))) & 0xff for i in range(width))
    return out[::-1] if little else out


FLOATFMT = {2: (5, 10), 4: (8, 23), 8: (11, 52)}


def float_from_bits(n, width):
    eb, mb = FLOATFMT[width]
    sign = n >> (eb + mb)
    e = (n >> mb) & ((1 << eb) - 1)
    m = n & ((1 << mb) - 1)
    bias = (1 << (eb - 1)) - 1
    if e == (1 << eb) - 1:
        v = math.inf if m == 0 else math.nan
    elif e == 0:
        v = math.ldexp(m, 1 - bias - mb)
    else:
        v = math.ldexp((1 << mb) | m, e - bias - mb)
    return -v if sign else v


def float_to_bits(x, width):
    """round-to-nearest-even; None when a finite value overflows the format"""
    eb, mb = FLOATFMT[width]
    bias = (1 << (eb - 1)) - 1
    emax = (1 << eb) - 1
    sign = 1 if math.copysign(1.0, x) < 0 else 0
    if math.isnan(x):
        return (sign << (eb + mb)) | (emax << mb) | (1 << (mb - 1))
    if math.isinf(x):
        return (sign << (eb + mb)) | (emax << mb)
    a = Fraction(abs(x))
    if a == 0:
        return sign << (eb + mb)
    # find e with 2**e <= a < 2**(e+1)
    m, e2 = math.frexp(abs(x))          # abs(x) = m * 2**e2, 0.5 <= m < 1
    e = e2 - 1
    if e < 1 - bias:
        e = 1 - bias                     # subnormal scale
        q = a / Fraction(2) ** (e - mb)
        mant = rne(q)
        if mant >= (1 << mb):            # rounded up to the smallest normal
            return (sign << (eb + mb)) | (1 << mb)
        return (sign << (eb + mb)) | mant
    q = a / Fraction(2) ** (e - mb)      # in [2**mb, 2**(mb+1))
    mant = rne(q)
    if mant >= (1 << (mb + 1)):
        mant >>= 1
        e += 1
    if e + bias >= emax:
        return None
    return (sign << (eb + mb)) | ((e + bias) << mb) | (mant - (1 << mb))


def rne(q):
    f = q.numerator // q.denominator
    rem = q - f
    if rem > Fraction(1, 2) or (rem == Fraction(1, 2) and f & 1):
        f += 1
    return f


def leb128(n):
    out = bytearray()
    while True:
        b = n & 0x7f
        n >>= 7
        if n:
            out.append(b | 0x80)
        else:
            out.append(b)
            return bytes(out)


UNITS = dict(ascii=1, utf8=1, utf_8=1, u8=1, utf16=2, utf_16=2, u16=2, utf_16_be=2, utf_16_le=2,
             utf32=4, utf_32=4, u32=4, utf_32_be=4, utf_32_le=4)


def unit_of(enc):
    return UNITS[enc.replace("-", "_").lower()]


def decode(data, enc, path):
    try:
        return data.decode(enc)
    except Exception:
        raise Reject("StringError", "decode", path)


def encode(v, enc, path):
    if not isinstance(v, str):
        raise Reject("StringError", "not a str", path)
    if v == "":
        return b""
    try:
        return v.encode(enc)
    except Exception:
        raise Reject("StringError", "encode", path)


def strip_pad(data, pad):
    unit = len(pad)
    if unit == 1:
        end = len(data)
        while end > 0 and data[end - 1] == pad[0]:
            end -= 1
        return data[:end]
    tail = len(data) % unit
    end = len(data)
    if tail and data[-tail:] == pad[:tail]:
        end -= tail
    while end - unit >= 0 and data[end - unit:end] == pad:
        end -= unit
    return data[:end]


def xor_bytes(data, key):
    if isinstance(key, int):
        key = bytes([key])
    if len(key) == 0:
        return data
    return bytes(b ^ key[i % len(key)] for i, b in enumerate(data))


def rotl_bytes(data, amount, group):
    bits = 8 * group
    a = amount % bits
    mask = (1 << bits) - 1
    out = bytearray()
    for i in range(0, len(data), group):
        n = 0
        for b in data[i:i + group]:
            n = (n << 8) | b
        n = ((n << a) | (n >> (bits - a))) & mask
        out += bytes((n >> (8 * (group - 1 - j))) & 0xff for j in range(group))
    return bytes(out)


def bitrev(data):
    out = bytearray()
    for b in data:
        r = 0
        for i in range(8):
            if b & (1 << i):
                r |= 0x80 >> i
        out.append(r)
    return bytes(out)


def to_bits(data):
    return bytes((b >> (7 - i)) & 1 for b in data for i in range(8))


def from_bits(bits):
    out = bytearray()
    for i in range(0, len(bits), 8):
        b = 0
        for x in bits[i:i + 8]:
            b = (b << 1) | x
        out.append(b)
    return bytes(out)


# ------------------------------------------------------------------------------ contexts

def top_ctx(kw, mode):
    c = dict(kw)
    c["_parsing"] = mode == "parse"
    c["_building"] = mode == "build"
    c["_sizing"] = mode == "sizeof"
    c["_params"] = c
    return c


def push(ctx):
    c = {"_": ctx, "_params": ctx["_params"], "_root": None, "_parsing": ctx["_parsing"], "_building": ctx["_building"],
         "_sizing": ctx["_sizing"], "_index": ctx.get("_index", None)}
    c["_root"] = ctx.get("_root", c)
    return c


def public(d):
    return {k: v for k, v in d.items() if not (isinstance(k, str) and k.startswith("_"))}


# ------------------------------------------------------------------------------ flags

def buildnone(t):
    """flagbuildnone of the real construct"""
    k = t[0]
    if k in ("ConstB", "ConstV", "Computed", "Index", "Rebuild", "Default", "Check", "Error", "StopIf", "Pass", "Tell",
             "Terminated", "Peek", "Seek", "Padding", "Checksum"):
        return True
    if k in ("Struct", "Sequence", "LazyStruct"):
        return all(buildnone(m[1]) for m in t[1])
    if k == "Select":
        return any(buildnone(s) for s in t[1])
    if k == "Optional":
        return True
    if k == "If":
        return buildnone(t[2])
    if k == "IfThenElse":
        return buildnone(t[2]) and buildnone(t[3])
    if k == "Switch":
        subs = [c[1] for c in t[2]] + ([t[3]] if t[3] is not None else [["Pass"]])
        return all(buildnone(s) for s in subs)
    if k in ("FocusedSeq", "Union"):
        return False
    sub = child(t)
    if sub is not None:
        return buildnone(sub)
    return False


def child(t):
    """the single sub-term of a wrapper (None for leaves/composites)"""
    k = t[0]
    if k in ("Prefixed", "PrefixedArray", "FixedSized", "Padded", "Aligned", "Array", "RepeatUntil", "OffsettedEnd", "Pointer",
             "ProcessXor", "LazyArray"):
        return t[2]
    if k in ("NullTerminated", "NullStripped", "GreedyRange", "Optional", "Rebuild", "Default", "ByteSwapped", "BitsSwapped",
             "RawCopy", "Hex", "HexDump", "OneOf", "NoneOf", "Bitwise", "Bytewise", "Peek", "Enum", "FlagsEnum", "Mapping", "Lazy",
             "Renamed", "Discard"):
        return t[1]
    if k == "ProcessRotateLeft":
        return t[3]
    if k == "ConstV":
        return t[2]
    return None


# ------------------------------------------------------------------------------- parse

_ROOT = [None]


def parse(t, data, start=0, log=None, **kw):
    s = RS(data, 0, log)
    s.pos = start
    _ROOT[0] = s
    ctx = top_ctx(kw, "parse")
    v = P(t, s, ctx, "(parsing)")
    return v, s.tell()


def P(t, s, ctx, path):
    k = t[0]
    if k == "Int":
        w, signed, endian = t[1], t[2], t[3]
        little = endian == "l" or (endian == "n" and NATIVE_LITTLE)
        return int_from_bytes(s.read(w, path), signed, little)
    if k == "BytesInteger":
        w = ev(t[1], ctx)
        if w <= 0:
            raise Reject("IntegerError", "length", path)
        d = s.read(w, path)
        return int_from_bytes(d, t[2], bool(ev(t[3], ctx)))
    if k == "Float":
        w, endian = t[1], t[2]
        little = endian == "l" or (endian == "n" and NATIVE_LITTLE)
        return float_from_bits(int_from_bytes(s.read(w, path), False, little), w)
    if k == "VarInt":
        n, shift = 0, 0
        while True:
            b = s.read(1, path)[0]
            n |= (b & 0x7f) << shift
            shift += 7
            if not b & 0x80:
                return n
    if k == "ZigZag":
        x = P(["VarInt"], s, ctx, path)
        return (x >> 1) if not x & 1 else -((x >> 1) + 1)
    if k == "Bytes":
        return s.read(ev(t[1], ctx), path)
    if k == "GreedyBytes":
        return s.read_all(path)
    if k == "Flag":
        return s.read(1, path) != b"\x00"
    if k == "BitsInteger":
        w = ev(t[1], ctx)
        if w <= 0:
            raise Reject("IntegerError", "length", path)
        bits = s.read(w, path)
        if ev(t[3], ctx):
            if w % 8:
                raise Reject("IntegerError", "swap", path)
            bits = b"".join(bits[i:i + 8] for i in reversed(range(0, w, 8)))
        n = 0
        for b in bits:
            n = (n << 1) | b
        if t[2] and bits[0]:
            n -= 1 << w
        return n
    if k == "GreedyString":
        return decode(s.read_all(path), t[1], path)
    if k == "CString":
        return decode(P(["NullTerminated", ["GreedyBytes"], bytes(unit_of(t[1])), False, True, True], s, ctx, path), t[1], path)
    if k == "PascalString":
        return decode(P(["Prefixed", t[1], ["GreedyBytes"], False], s, ctx, path), t[2], path)
    if k == "PaddedString":
        return decode(P(["FixedSized", t[1], ["NullStripped", ["GreedyBytes"], bytes(unit_of(t[2]))]], s, ctx, path), t[2], path)
    if k == "Enum":
        v = P(t[1], s, ctx, path)
        label = None
        for name, val in t[2]:
            if val == v:
                label = name
        return Label(label, v) if label is not None else v
    if k == "FlagsEnum":
        v = P(t[1], s, ctx, path)
        return {name: (v & val) == val for name, val in t[2]}
    if k == "Mapping":
        v = P(t[1], s, ctx, path)
        found, res = False, None
        for key, val in t[2]:
            if val == v and type(val) is type(v) or (val == v):
                found, res = True, key
        if not found:
            raise Reject("MappingError", "no decoding", path)
        return res
    if k == "ConstB":
        v = s.read(len(t[1]), path)
        if v != t[1]:
            raise Reject("ConstError", "", path)
        return v
    if k == "ConstV":
        v = P(t[2], s, ctx, path)
        if not same_value(v, t[1]):
            raise Reject("ConstError", "", path)
        return v
    if k == "Pass":
        return None
    if k == "Padding":
        n = ev(t[1], ctx)
        if n < 0:
            raise Reject("PaddingError", "", path)
        s.read(n, path)
        return None
    if k == "Computed":
        return ev(t[1], ctx)
    if k == "Tell":
        return s.tell()
    if k == "Index":
        return ctx.get("_index", None)
    if k == "Terminated":
        if s.pos < len(s.data):
            s.pos += 1
            raise Reject("TerminatedError", "", path)
        return None
    if k == "Check":
        if not ev(t[1], ctx):
            raise Reject("CheckError", "", path)
        return None
    if k == "StopIf":
        if ev(t[1], ctx):
            raise Stop(path)
        return None
    if k == "Error":
        raise Reject("ExplicitError", "", path)
    if k == "Seek":
        return s.seek(ev(t[1], ctx), ev(t[2], ctx), path)
    if k == "Renamed":
        return P(t[1], s, ctx, path + " -> %s" % t[2])
    if k == "Prefixed":
        n = P(t[1], s, ctx, path)
        if t[3]:
            n -= sizeof_(t[1], ctx, path)
        base = s.tell()
        region = s.read(n, path)
        return P(t[2], RS(region, base, s.log), ctx, path)
    if k == "PrefixedArray":
        c2 = push(ctx)
        n = P(t[1], s, c2, path + " -> count")
        c2["count"] = n
        items = P(["Array", n, t[2]], s, c2, path + " -> items")
        return items
    if k == "FixedSized":
        n = ev(t[1], ctx)
        if n < 0:
            raise Reject("PaddingError", "", path)
        base = s.tell()
        region = s.read(n, path)
        return P(t[2], RS(region, base, s.log), ctx, path)
    if k == "Padded":
        n = ev(t[1], ctx)
        if n < 0:
            raise Reject("PaddingError", "", path)
        p1 = s.tell()
        v = P(t[2], s, ctx, path)
        pad = n - (s.tell() - p1)
        if pad < 0:
            raise Reject("PaddingError", "", path)
        s.read(pad, path)
        return v
    if k == "Aligned":
        m = ev(t[1], ctx)
        if m < 2:
            raise Reject("PaddingError", "", path)
        p1 = s.tell()
        v = P(t[2], s, ctx, path)
        s.read(-(s.tell() - p1) % m, path)
        return v
    if k == "NullTerminated":
        term, include, consume, require = t[2], t[3], t[4], t[5]
        unit = len(term)
        if unit < 1:
            raise Reject("PaddingError", "", path)
        base = s.tell()
        data = b""
        while True:
            try:
                b = s.read(unit, path)
            except Reject:
                if require:
                    raise
                break
            if b == term:
                if include:
                    data += b
                if not consume:
                    s.pos -= unit
                break
            data += b
        return P(t[1], RS(data, base, s.log), ctx, path)
    if k == "NullStripped":
        pad = t[2]
        if len(pad) < 1:
            raise Reject("PaddingError", "", path)
        base = s.tell()
        data = strip_pad(s.read_all(path), pad)
        return P(t[1], RS(data, base, s.log), ctx, path)
    if k == "Array":
        n = ev(t[1], ctx)
        if not 0 <= n:
            raise Reject("RangeError", "", path)
        out = []
        for i in range(n):
            ctx["_index"] = i
            out.append(P(t[2], s, ctx, path))
        return out
    if k == "GreedyRange":
        out = []
        i = 0
        while True:
            ctx["_index"] = i
            fb = s.pos
            try:
                e = P(t[1], s, ctx, path)
            except Stop:
                return out
            except Reject as r:
                if r.kind == "ExplicitError":
                    raise
                s.pos = fb
                return out
            except RefHang:
                raise
            except Exception:
                s.pos = fb
                return out
            if s.pos == fb:
                raise RefHang()
            out.append(e)
            i += 1
    if k == "RepeatUntil":
        out = []
        i = 0
        while True:
            ctx["_index"] = i
            fb = s.pos
            e = P(t[2], s, ctx, path)
            out.append(e)
            if pred(t[1], e, out, ctx):
                return out
            i += 1
            if s.pos == fb and i > 64:
                raise RefHang()
    if k == "Optional":
        return P(["Select", [t[1], ["Pass"]]], s, ctx, path)
    if k == "Select":
        for sub in t[1]:
            fb = s.pos
            try:
                return P(sub, s, ctx, path)
            except Reject as r:
                if r.kind == "ExplicitError":
                    raise
                s.pos = fb
            except (Stop, RefHang):
                raise
            except Exception:
                s.pos = fb
        raise Reject("SelectError", "", path)
    if k == "If":
        return P(t[2] if ev(t[1], ctx) else ["Pass"], s, ctx, path)
    if k == "IfThenElse":
        return P(t[2] if ev(t[1], ctx) else t[3], s, ctx, path)
    if k == "Switch":
        key = ev(t[1], ctx)
        for ck, sub in t[2]:
            if ck == key:
                return P(sub, s, ctx, path)
        return P(t[3] if t[3] is not None else ["Pass"], s, ctx, path)
    if k in ("Rebuild", "Default", "Hex", "HexDump"):
        return P(t[1], s, ctx, path)           # Hex/HexDump only change how the value is displayed
    if k == "Discard":
        P(t[1], s, ctx, path)                  # same bytes consumed, same context effects, nothing collected
        return []
    if k in ("OneOf", "NoneOf"):
        v = P(t[1], s, ctx, path)
        ok = any(same_value(v, x) for x in t[2])
        if ok != (k == "OneOf"):
            raise Reject("ValidationError", "", path)
        return v
    if k == "ByteSwapped":
        n = sizeof_(t[1], ctx, path)
        return P(t[1], RS(s.read(n, path)[::-1], 0), ctx, path)
    if k == "BitsSwapped":
        try:
            n = sizeof_(t[1], top_ctx({}, "sizeof"), path)
        except Reject:
            n = None
        if n is not None:
            return P(t[1], RS(bitrev(s.read(n, path)), 0), ctx, path)
        # streaming: lazily decoded, the sub-construct sees the bit-reversed rest of the stream
        sub = RS(bitrev(s.data[s.pos:]), 0)
        v = P(t[1], sub, ctx, path)
        s.pos += min(sub.pos, len(sub.data))
        return v
    if k == "ProcessXor":
        key = ev(t[1], ctx)
        if not isinstance(key, (int, bytes)) or isinstance(key, bool) and False:
            raise Reject("StringError", "", path)
        base = s.tell()
        data = xor_bytes(s.read_all(path), key)
        return P(t[2], RS(data, base, s.log), ctx, path)
    if k == "ProcessRotateLeft":
        a, g = ev(t[1], ctx), ev(t[2], ctx)
        if g < 1:
            raise Reject("RotationError", "", path)
        data = s.read_all(path)
        if len(data) % g:
            raise Reject("RotationError", "", path)
        return P(t[3], RS(rotl_bytes(data, a, g), 0), ctx, path)
    if k == "RawCopy":
        o1 = s.tell()
        p1 = s.pos
        v = P(t[1], s, ctx, path)
        o2 = s.tell()
        data = s.data[p1:s.pos]
        if len(data) != o2 - o1:
            raise Reject("StreamError", "", path)
        return {"data": data, "value": v, "offset1": o1, "offset2": o2, "length": o2 - o1}
    if k in ("Struct", "LazyStruct"):
        c2 = push(ctx)
        out = {}
        for name, sub in t[1]:
            try:
                v = P(sub if name is None else ["Renamed", sub, name], s, c2, path)
            except Stop:
                break
            if name is not None:
                out[name] = v
                c2[name] = v
        return out
    if k == "Sequence":
        c2 = push(ctx)
        out = []
        for name, sub in t[1]:
            try:
                v = P(sub if name is None else ["Renamed", sub, name], s, c2, path)
            except Stop:
                break
            out.append(v)
            if name is not None:
                c2[name] = v
        return out
    if k == "FocusedSeq":
        c2 = push(ctx)
        focus = ev(t[1], c2)
        res = None
        for name, sub in t[2]:
            v = P(sub if name is None else ["Renamed", sub, name], s, c2, path)
            if name is not None:
                c2[name] = v
            if name == focus:
                res = v
        return res
    if k == "Union":
        c2 = push(ctx)
        out = {}
        fb = s.pos
        fw = {}
        for i, (name, sub) in enumerate(t[2]):
            v = P(sub if name is None else ["Renamed", sub, name], s, c2, path)
            if name is not None:
                out[name] = v
                c2[name] = v
            fw[i] = s.pos
            if name is not None:
                fw[name] = s.pos
            s.pos = fb
        pf = ev(t[1], c2)
        if pf is not None:
            s.pos = fw[pf]
        return out
    if k == "Bitwise":
        try:
            n = sizeof_(t[1], top_ctx({}, "sizeof"), path)
        except Reject:
            n = None
        if n is not None:
            bits = to_bits(s.read(n // 8, path))
            return P(t[1], RS(bits, 0), ctx, path)
        sub = RS(to_bits(s.data[s.pos:]), 0)
        v = P(t[1], sub, ctx, path)
        used = min(sub.pos, len(sub.data))
        if used % 8:
            raise ValueError("unread bits at close")
        s.pos += used // 8
        return v
    if k == "Bytewise":
        try:
            n = sizeof_(t[1], top_ctx({}, "sizeof"), path)
        except Reject:
            n = None
        if n is not None:
            return P(t[1], RS(from_bits(s.read(n * 8, path)), 0), ctx, path)
        avail = (len(s.data) - s.pos) // 8 * 8
        sub = RS(from_bits(s.data[s.pos:s.pos + avail]), 0)
        v = P(t[1], sub, ctx, path)
        s.pos += min(sub.pos, len(sub.data)) * 8
        return v
    if k == "Pointer":
        off = ev(t[1], ctx)
        if len(t) > 3 and t[3] == "root":
            # Pointer(..., stream=this._root._io): target, and the position saved and restored, are those of the outermost stream;
            # the stream of the enclosing region is not touched
            s = _ROOT[0]
        fb = s.pos
        s.seek(off, 2 if off < 0 else 0, path)
        v = P(t[2], s, ctx, path)
        s.pos = fb
        return v
    if k == "Peek":
        fb = s.pos
        try:
            return P(t[1], s, ctx, path)
        except Reject as r:
            if r.kind == "ExplicitError":
                raise
            return None
        finally:
            s.pos = fb
    if k == "OffsettedEnd":
        endoffset = ev(t[1], ctx)
        cur = s.tell()
        endpos = s.base + len(s.data)
        n = endpos + endoffset - cur
        base = s.tell()
        region = s.read(n, path)
        return P(t[2], RS(region, base, s.log), ctx, path)
    if k == "Lazy":
        return P(t[1], s, ctx, path)
    if k == "LazyArray":
        return P(["Array", t[1], t[2]], s, ctx, path)
    raise ValueError("ref.parse: unknown term %r" % (t,))


def pred(p, e, lst, ctx):
    """RepeatUntil predicates: constant, ["objcmp", op, const], ["lenge", n], ["ctxlenge", expr]"""
    if not isinstance(p, list):
        return p
    if p[0] == "objcmp":
        return BIN[p[1]](e, p[2])
    if p[0] == "lenge":
        return len(lst) >= p[1]
    if p[0] == "ctxlenge":
        return len(lst) >= ev(p[1], ctx)
    if p[0] == "objfield":
        return BIN[p[2]](e[p[1]], p[3])
    raise ValueError(p)


def same_value(a, b):
    try:
        return a == b
    except Exception:
        return False


# ------------------------------------------------------------------------------- build

def build(t, v, start=0, **kw):
    w = WS(0, bytes(start))
    ctx = top_ctx(kw, "build")
    B(t, v, w, ctx, "(building)")
    return w.getvalue()[start:]


def build_ret(t, v, **kw):
    w = WS(0)
    ctx = top_ctx(kw, "build")
    r = B(t, v, w, ctx, "(building)")
    return w.getvalue(), r


def isint(v):
    return isinstance(v, int)


def B(t, v, w, ctx, path):
    """writes to w, returns the build return value (what later siblings see in the context)"""
    k = t[0]
    if k == "Int":
        wd, signed, endian, via = t[1], t[2], t[3], (t[4] if len(t) > 4 else "name")
        little = endian == "l" or (endian == "n" and NATIVE_LITTLE)
        if not isint(v):
            raise Reject("FormatFieldError" if wd != 3 and via != "BytesInteger" else "IntegerError", "not int", path)
        d = int_to_bytes(int(v), wd, signed, little)
        if d is None:
            raise Reject("FormatFieldError" if wd != 3 and via != "BytesInteger" else "IntegerError", "range", path)
        w.write(d)
        return v
    if k == "BytesInteger":
        if not isint(v):
            raise Reject("IntegerError", "not int", path)
        wd = ev(t[1], ctx)
        if wd <= 0:
            raise Reject("IntegerError", "length", path)
        d = int_to_bytes(int(v), wd, t[2], False)
        if d is None:
            raise Reject("IntegerError", "range", path)
        if ev(t[3], ctx):
            d = d[::-1]
        w.write(d)
        return v
    if k == "Float":
        wd, endian = t[1], t[2]
        little = endian == "l" or (endian == "n" and NATIVE_LITTLE)
        if isinstance(v, bool) or not isinstance(v, (int, float)):
            if not isinstance(v, bool):
                raise Reject("FormatFieldError", "not a number", path)
        try:
            x = float(v)
        except OverflowError:
            raise Reject("FormatFieldError", "overflow", path)
        bits = float_to_bits(x, wd)
        if bits is None:
            raise Reject("FormatFieldError", "overflow", path)
        w.write(int_to_bytes(bits, wd, False, little))
        return v
    if k == "VarInt":
        if not isint(v):
            raise Reject("IntegerError", "not int", path)
        if v < 0:
            raise Reject("IntegerError", "negative", path)
        w.write(leb128(int(v)))
        return v
    if k == "ZigZag":
        if not isint(v):
            raise Reject("IntegerError", "not int", path)
        x = 2 * int(v) if v >= 0 else 2 * abs(int(v)) - 1
        w.write(leb128(x))
        return v
    if k == "Bytes":
        n = ev(t[1], ctx)
        d = v
        if isint(v):
            if n < 1:
                raise ValueError("width")
            d = int_to_bytes(int(v), n, False, False)
            if d is None:
                raise ValueError("does not fit")
        if type(d) is bytearray:
            d = bytes(d)
        if not isinstance(d, bytes):
            raise Reject("StringError", "non-bytes", path)
        if n < 0 or len(d) != n:
            raise Reject("StreamError", "length", path)
        w.write(d)
        return d
    if k == "GreedyBytes":
        d = bytes(v) if type(v) is bytearray else v
        if not isinstance(d, bytes):
            raise Reject("StringError", "non-bytes", path)
        w.write(d)
        return d
    if k == "Flag":
        w.write(b"\x01" if v else b"\x00")
        return v
    if k == "BitsInteger":
        if not isint(v):
            raise Reject("IntegerError", "not int", path)
        wd = ev(t[1], ctx)
        if wd <= 0:
            raise Reject("IntegerError", "length", path)
        lo, hi = (-(1 << (wd - 1)), (1 << (wd - 1)) - 1) if t[2] else (0, (1 << wd) - 1)
        if not lo <= v <= hi:
            raise Reject("IntegerError", "range", path)
        n = int(v) + (1 << wd) if v < 0 else int(v)
        bits = bytes((n >> (wd - 1 - i)) & 1 for i in range(wd))
        if ev(t[3], ctx):
            if wd % 8:
                raise Reject("IntegerError", "swap", path)
            bits = b"".join(bits[i:i + 8] for i in reversed(range(0, wd, 8)))
        w.write(bits)
        return v
    if k == "GreedyString":
        w.write(encode(v, t[1], path))
        return v
    if k == "CString":
        w.write(encode(v, t[1], path) + bytes(unit_of(t[1])))
        return v
    if k == "PascalString":
        d = encode(v, t[2], path)
        B(t[1], len(d), w, ctx, path)
        w.write(d)
        return v
    if k == "PaddedString":
        d = encode(v, t[2], path)
        n = ev(t[1], ctx)
        if n < 0 or len(d) > n:
            raise Reject("PaddingError", "", path)
        w.write(d + bytes(n - len(d)))
        return v
    if k == "Enum":
        if isint(v):
            x = v
        else:
            x = None
            found = False
            for name, val in t[2]:
                if same_value(name, v) and isinstance(v, str):
                    x, found = val, True
            if not found:
                hash(v)
                raise Reject("MappingError", "", path)
        B(t[1], x, w, ctx, path)
        return v
    if k == "FlagsEnum":
        table = dict((name, val) for name, val in t[2])
        if isint(v):
            x = v
        elif isinstance(v, str):
            x = 0
            for name in v.split("|"):
                name = name.strip()
                if name:
                    if name not in table:
                        raise Reject("MappingError", "", path)
                    x |= table[name]
        elif isinstance(v, dict):
            x = 0
            for name, val in v.items():
                if not name.startswith("_") and val:
                    if name not in table:
                        raise Reject("MappingError", "", path)
                    x |= table[name]
        else:
            raise Reject("MappingError", "", path)
        B(t[1], x, w, ctx, path)
        return v
    if k == "Mapping":
        found, x = False, None
        try:
            hash(v)
        except TypeError:
            raise Reject("MappingError", "", path)
        for key, val in t[2]:
            if key == v and hash(key) == hash(v):
                found, x = True, val
        if not found:
            raise Reject("MappingError", "", path)
        B(t[1], x, w, ctx, path)
        return v
    if k == "ConstB":
        if not (v is None or same_value(v, t[1])):
            raise Reject("ConstError", "", path)
        w.write(t[1])
        return t[1]
    if k == "ConstV":
        if not (v is None or same_value(v, t[1])):
            raise Reject("ConstError", "", path)
        return B(t[2], t[1], w, ctx, path)
    if k == "Pass":
        return v
    if k == "Padding":
        n = ev(t[1], ctx)
        if n < 0:
            raise Reject("PaddingError", "", path)
        w.write((t[2] if len(t) > 2 else b"\x00") * n)
        return v
    if k == "Computed":
        return ev(t[1], ctx)
    if k == "Tell":
        return w.tell()
    if k == "Index":
        return ctx.get("_index", None)
    if k == "Terminated":
        return v
    if k == "Check":
        if not ev(t[1], ctx):
            raise Reject("CheckError", "", path)
        return None
    if k == "StopIf":
        if ev(t[1], ctx):
            raise Stop(path)
        return None
    if k == "Error":
        raise Reject("ExplicitError", "", path)
    if k == "Seek":
        return w.seek(ev(t[1], ctx), ev(t[2], ctx), path)
    if k == "Renamed":
        return B(t[1], v, w, ctx, path + " -> %s" % t[2])
    if k == "Prefixed":
        w2 = WS(0)
        r = B(t[2], v, w2, ctx, path)
        d = w2.getvalue()
        n = len(d)
        if t[3]:
            n += sizeof_(t[1], ctx, path)
        B(t[1], n, w, ctx, path)
        w.write(d)
        return r
    if k == "PrefixedArray":
        c2 = push(ctx)
        c2["items"] = v
        n = len(v)
        c2["count"] = None
        c2["count"] = B(t[1], n, w, c2, path + " -> count")
        r = B(["Array", n, t[2]], v, w, c2, path + " -> items")
        return r
    if k == "FixedSized":
        n = ev(t[1], ctx)
        if n < 0:
            raise Reject("PaddingError", "", path)
        w2 = WS(0)
        r = B(t[2], v, w2, ctx, path)
        d = w2.getvalue()
        if len(d) > n:
            raise Reject("PaddingError", "", path)
        w.write(d + bytes(n - len(d)))
        return r
    if k == "Padded":
        n = ev(t[1], ctx)
        if n < 0:
            raise Reject("PaddingError", "", path)
        p1 = w.tell()
        r = B(t[2], v, w, ctx, path)
        pad = n - (w.tell() - p1)
        if pad < 0:
            raise Reject("PaddingError", "", path)
        w.write(t[3] * pad)
        return r
    if k == "Aligned":
        m = ev(t[1], ctx)
        if m < 2:
            raise Reject("PaddingError", "", path)
        p1 = w.tell()
        r = B(t[2], v, w, ctx, path)
        w.write(t[3] * (-(w.tell() - p1) % m))
        return r
    if k == "NullTerminated":
        r = B(t[1], v, w, ctx, path)
        w.write(t[2])
        return r
    if k == "NullStripped":
        return B(t[1], v, w, ctx, path)
    if k == "Array":
        n = ev(t[1], ctx)
        if not 0 <= n:
            raise Reject("RangeError", "", path)
        if len(v) != n:
            raise Reject("RangeError", "", path)
        out = []
        for i, e in enumerate(v):
            ctx["_index"] = i
            out.append(B(t[2], e, w, ctx, path))
        return out
    if k == "GreedyRange":
        out = []
        try:
            for i, e in enumerate(v):
                ctx["_index"] = i
                out.append(B(t[1], e, w, ctx, path))
        except Stop:
            return None
        return out
    if k == "RepeatUntil":
        out = []
        for i, e in enumerate(v):
            ctx["_index"] = i
            out.append(B(t[2], e, w, ctx, path))
            if pred(t[1], e, out, ctx):
                return out
        raise Reject("RepeatError", "", path)
    if k == "Optional":
        return B(["Select", [t[1], ["Pass"]]], v, w, ctx, path)
    if k == "Select":
        for sub in t[1]:
            try:
                w2 = WS(0)
                kw = {kk: vv for kk, vv in ctx.items()}
                c2 = top_ctx(kw, "build")
                B(sub, v, w2, c2, "(building)")
            except Reject as r:
                if r.kind == "ExplicitError":
                    raise
                continue
            except (Stop, RefHang):
                raise
            except Exception:
                continue
            w.write(w2.getvalue())
            return v
        raise Reject("SelectError", "", path)
    if k == "If":
        return B(t[2] if ev(t[1], ctx) else ["Pass"], v, w, ctx, path)
    if k == "IfThenElse":
        return B(t[2] if ev(t[1], ctx) else t[3], v, w, ctx, path)
    if k == "Switch":
        key = ev(t[1], ctx)
        for ck, sub in t[2]:
            if ck == key:
                return B(sub, v, w, ctx, path)
        return B(t[3] if t[3] is not None else ["Pass"], v, w, ctx, path)
    if k == "Rebuild":
        return B(t[1], ev(t[2], ctx), w, ctx, path)
    if k == "Default":
        return B(t[1], ev(t[2], ctx) if v is None else v, w, ctx, path)
    if k in ("Hex", "HexDump"):
        B(t[1], v, w, ctx, path)
        return v
    if k == "Discard":
        B(t[1], v, w, ctx, path)
        return []
    if k in ("OneOf", "NoneOf"):
        ok = any(same_value(v, x) for x in t[2])
        if ok != (k == "OneOf"):
            raise Reject("ValidationError", "", path)
        B(t[1], v, w, ctx, path)
        return v
    if k == "ByteSwapped":
        n = sizeof_(t[1], ctx, path)
        w2 = WS(0)
        r = B(t[1], v, w2, ctx, path)
        d = w2.getvalue()[::-1]
        if len(d) != n:
            raise Reject("StreamError", "", path)
        w.write(d)
        return r
    if k == "BitsSwapped":
        try:
            n = sizeof_(t[1], top_ctx({}, "sizeof"), path)
        except Reject:
            n = None
        w2 = WS(0)
        r = B(t[1], v, w2, ctx, path)
        d = bitrev(w2.getvalue())
        if n is not None and len(d) != n:
            raise Reject("StreamError", "", path)
        w.write(d)
        return r if n is not None else v
    if k == "ProcessXor":
        key = ev(t[1], ctx)
        if not isinstance(key, (int, bytes)):
            raise Reject("StringError", "", path)
        w2 = WS(0)
        r = B(t[2], v, w2, ctx, path)
        w.write(xor_bytes(w2.getvalue(), key))
        return r
    if k == "ProcessRotateLeft":
        a, g = ev(t[1], ctx), ev(t[2], ctx)
        if g < 1:
            raise Reject("RotationError", "", path)
        w2 = WS(0)
        r = B(t[3], v, w2, ctx, path)
        d = w2.getvalue()
        if len(d) % g:
            raise Reject("RotationError", "", path)
        w.write(rotl_bytes(d, -a, g))
        return r
    if k == "RawCopy":
        if v is None and buildnone(t[1]):
            v = {"value": None}
        if "data" in v:
            d = v["data"]
            if not isinstance(d, bytes):
                raise Reject("StringError", "", path)
            o1 = w.tell()
            w.write(d)
            return dict(v, data=d, offset1=o1, offset2=w.tell(), length=len(d))
        if "value" in v:
            o1 = w.tell()
            p1 = w.pos
            r = B(t[1], v["value"], w, ctx, path)
            val = v["value"] if r is None else r
            d = bytes(w.buf[p1:w.pos])
            return dict(v, data=d, value=val, offset1=o1, offset2=w.tell(), length=w.tell() - o1)
        raise Reject("RawCopyError", "", path)
    if k in ("Struct", "LazyStruct"):
        if v is None:
            v = {}
        c2 = push(ctx)
        c2.update(v)
        for name, sub in t[1]:
            try:
                if buildnone(sub):
                    so = v.get(name, None)
                else:
                    so = v[name]
                if name is not None:
                    c2[name] = so
                r = B(sub if name is None else ["Renamed", sub, name], so, w, c2, path)
                if name is not None:
                    c2[name] = r
            except Stop:
                break
        return c2
    if k == "Sequence":
        if v is None:
            v = [None for _ in t[1]]
        c2 = push(ctx)
        it = iter(v)
        out = []
        for name, sub in t[1]:
            try:
                so = next(it)
                if name is not None:
                    c2[name] = so
                r = B(sub if name is None else ["Renamed", sub, name], so, w, c2, path)
                out.append(r)
                if name is not None:
                    c2[name] = r
            except Stop:
                break
        return out
    if k == "FocusedSeq":
        c2 = push(ctx)
        focus = ev(t[1], c2)
        c2[focus] = v
        res = None
        for name, sub in t[2]:
            r = B(sub if name is None else ["Renamed", sub, name], v if name == focus else None, w, c2, path)
            if name is not None:
                c2[name] = r
            if name == focus:
                res = r
        return res
    if k == "Union":
        c2 = push(ctx)
        c2.update(v)
        for name, sub in t[2]:
            if buildnone(sub):
                so = v.get(name, None)
            elif name in v:
                so = v[name]
            else:
                continue
            if name is not None:
                c2[name] = so
            r = B(sub if name is None else ["Renamed", sub, name], so, w, c2, path)
            return {name: r}
        raise Reject("UnionError", "", path)
    if k == "Bitwise":
        try:
            n = sizeof_(t[1], top_ctx({}, "sizeof"), path)
        except Reject:
            n = None
        w2 = WS(0)
        r = B(t[1], v, w2, ctx, path)
        bits = w2.getvalue()
        if len(bits) % 8:
            raise ValueError("bits not multiple of 8")
        d = from_bits(bits)
        if n is not None and len(d) != n // 8:
            raise Reject("StreamError", "", path)
        w.write(d)
        return r if n is not None else v
    if k == "Bytewise":
        try:
            n = sizeof_(t[1], top_ctx({}, "sizeof"), path)
        except Reject:
            n = None
        w2 = WS(0)
        r = B(t[1], v, w2, ctx, path)
        d = to_bits(w2.getvalue())
        if n is not None and len(d) != n * 8:
            raise Reject("StreamError", "", path)
        w.write(d)
        return r if n is not None else v
    if k == "Pointer":
        if len(t) > 3:
            raise ValueError("ref.build: Pointer into another stream is modelled for parsing only")
        off = ev(t[1], ctx)
        fb = w.pos
        w.seek(off, 2 if off < 0 else 0, path)
        r = B(t[2], v, w, ctx, path)
        w.pos = fb
        return r
    if k == "Peek":
        return v
    if k == "OffsettedEnd":
        return B(t[2], v, w, ctx, path)
    if k == "Lazy":
        return B(t[1], v, w, ctx, path)
    if k == "LazyArray":
        return B(["Array", t[1], t[2]], v, w, ctx, path)
    raise ValueError("ref.build: unknown term %r" % (t,))


# ------------------------------------------------------------------------------ sizeof

def sizeof(t, **kw):
    ctx = top_ctx(kw, "sizeof")
    try:
        return sizeof_(t, ctx, "(sizeof)")
    except (KeyError, AttributeError, TypeError):
        # the contract: a missing key is SizeofError
        raise Reject("SizeofError", "missing key", "(sizeof)")


def SE(path):
    return Reject("SizeofError", "", path)


def sizeof_(t, ctx, path):
    k = t[0]
    if k == "Int":
        return t[1]
    if k == "Float":
        return t[1]
    if k in ("BytesInteger", "BitsInteger", "Bytes"):
        return evs(t[1], ctx, path)
    if k in ("VarInt", "ZigZag", "GreedyBytes", "GreedyString", "CString", "PascalString", "GreedyRange", "RepeatUntil", "Optional",
             "Select", "NullTerminated", "NullStripped", "StopIf", "Error", "Terminated", "Seek", "OffsettedEnd", "Union", "RawCopy",
             "Lazy"):
        if k == "RawCopy" or k == "Lazy":
            return sizeof_(t[1], ctx, path)
        if k == "PascalString":
            raise SE(path)
        raise SE(path)
    if k == "Flag":
        return 1
    if k == "PaddedString":
        n = evs(t[1], ctx, path)
        if n < 0:
            raise Reject("PaddingError", "", path)
        return n
    if k in ("Enum", "FlagsEnum", "Mapping", "Rebuild", "Default", "Hex", "HexDump", "OneOf", "NoneOf", "ProcessXor",
             "ProcessRotateLeft", "Discard"):
        return sizeof_(child(t), ctx, path)
    if k == "ConstB":
        return len(t[1])
    if k == "ConstV":
        return sizeof_(t[2], ctx, path)
    if k in ("Pass", "Computed", "Tell", "Index", "Check", "Pointer", "Peek"):
        return 0
    if k in ("Padding", "Padded", "FixedSized"):
        n = evs(t[1], ctx, path)
        if n < 0:
            raise Reject("PaddingError", "", path)
        return n
    if k == "Renamed":
        return sizeof_(t[1], ctx, path + " -> %s" % t[2])
    if k == "Prefixed":
        return sizeof_(t[1], ctx, path) + sizeof_(t[2], ctx, path)
    if k == "PrefixedArray":
        # FocusedSeq(count / Rebuild(cf), items / sub[this.count]): the count is not known when sizing
        raise SE(path)
    if k == "Aligned":
        m = evs(t[1], ctx, path)
        if m < 2:
            raise Reject("PaddingError", "", path)
        n = sizeof_(t[2], ctx, path)
        return n + (-n % m)
    if k in ("Array", "LazyArray"):
        n = evs(t[1], ctx, path)
        return n * sizeof_(t[2], ctx, path)
    if k == "If":
        return sizeof_(t[2] if evs(t[1], ctx, path) else ["Pass"], ctx, path)
    if k == "IfThenElse":
        return sizeof_(t[2] if evs(t[1], ctx, path) else t[3], ctx, path)
    if k == "Switch":
        key = evs(t[1], ctx, path)
        for ck, sub in t[2]:
            if ck == key:
                return sizeof_(sub, ctx, path)
        return sizeof_(t[3] if t[3] is not None else ["Pass"], ctx, path)
    if k in ("ByteSwapped",):
        return sizeof_(t[1], ctx, path)
    if k == "BitsSwapped":
        return sizeof_(t[1], ctx, path)
    if k in ("Struct", "Sequence", "LazyStruct"):
        c2 = push(ctx)
        return sum(sizeof_(sub if name is None else ["Renamed", sub, name], c2, path) for name, sub in t[1])
    if k == "FocusedSeq":
        c2 = push(ctx)
        return sum(sizeof_(sub if name is None else ["Renamed", sub, name], c2, path) for name, sub in t[2])
    if k == "Bitwise":
        n = sizeof_(t[1], ctx, path)
        return n // 8
    if k == "Bytewise":
        return sizeof_(t[1], ctx, path) * 8
    raise ValueError("ref.sizeof: unknown term %r" % (t,))


def evs(x, ctx, path):
    try:
        return ev(x, ctx)
    except (KeyError, AttributeError, TypeError):
        raise Reject("SizeofError", "missing key", path)
