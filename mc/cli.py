import sys, os
from . import engine


def main(argv):
    if not argv:
        print(__doc__ or "usage: ./run <Cxx> [--tier quick|thorough] | replay <file>")
        return 2
    if argv[0] == "replay":
        return engine.run_replay(argv[1])
    pid = argv[0].upper()
    tier = os.environ.get("VERIF_TIER") or "quick"
    if "--tier" in argv:
        tier = argv[argv.index("--tier") + 1]
    if tier not in ("quick", "thorough"):
        print("bad tier", tier)
        return 2
    return engine.run_check(pid, "mc.props." + pid.lower(), tier, argv)


if __name__ == "__main__":
    sys.exit(main(sys.argv[1:]))
